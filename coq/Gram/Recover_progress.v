(* C19: progress after error recovery.  After recoverFromError succeeds with next token t, the main loop performs
   exactly the reductions reduceAll simulated on its state stack (stack2) and then shifts t (or reaches the end
   state); hence every recovery episode consumes at least one input token or ends the parse, and the recovering
   loop terminates whenever the reductions of the plain loop do. *)
From Coq Require Import List ZArith Bool Arith Lia.
From TM Require Import Lib.ListX Gram.PTables Gram.Run Gram.Validator Gram.Events Gram.Recover Gram.Recover_proofs.
Import ListNotations.
Local Open Scope Z_scope.

Section P.
Variable p : rparams.
Variable eh : nat -> bool.

Notation m := (rp_m p).
Notation eoi := (rp_eoi_off p).

(* ---- the conditions on the tables ---- *)
(* LALR(1): the action does not look beyond the next terminal (lalr1_machine, opt_machine) *)
Definition lalr1 : Prop := forall s a more, m_act m s a more = m_act m s a [].
(* reduceAll's final test is the loop's shift test *)
Definition shift_ok_sound : Prop := forall s a, rp_shift_ok p s a = true -> exists q, m_act m s a [] = Shift q.

Hypothesis Hnm : lalr1.
Hypothesis Hso : shift_ok_sound.
Hypothesis Hend : 0 <= rp_end p.

(* ---- k iterations of the loop that continue, none of them starting in the end state ---- *)
Inductive rsteps : nat -> rconfig -> rconfig -> Prop :=
| rs_O c : rsteps O c c
| rs_S k c c1 c' : xc_state (rc_x c) <> rp_end p -> rstep p eh c = RContinue c1 -> rsteps k c1 c' -> rsteps (S k) c c'.

Lemma rsteps_loop k c c' : rsteps k c c' -> forall g, rrun_loop (k + g) p eh c = rrun_loop g p eh c'.
Proof.
  induction 1 as [c | k c c1 c' Hne Hst _ IH]; intros g; [reflexivity|].
  simpl. apply Z.eqb_neq in Hne. rewrite Hne, Hst. apply IH.
Qed.

Lemma rsteps_trans k1 k2 c1 c2 c3 : rsteps k1 c1 c2 -> rsteps k2 c2 c3 -> rsteps (k1 + k2) c1 c3.
Proof. induction 1; intros H2; simpl; [exact H2|]. econstructor; eauto. Qed.

(* a reduction of the plain loop (Events.xstep) *)
Definition plain_reduce (x : xconfig) : option xconfig :=
  match m_act m (xc_state x) (t_sym (next_tok eoi (xc_input x))) (map t_sym (tl (xc_input x))) with
  | Reduce _ => match xstep m (rp_evt p) (rp_fixws p) eoi x with XContinue x' => Some x' | XStop _ => None end
  | _ => None
  end.
Fixpoint reduces_for (n : nat) (x : xconfig) : bool :=
  match n with
  | O => true
  | S k => match plain_reduce x with Some x' => reduces_for k x' | None => false end
  end.

(* ---- one reduction of the main loop ---- *)
Lemma rstep_reduce x r errs l rule :
  m_act m (xc_state x) (t_sym (next_tok eoi (xc_input x))) [] = Reduce rule ->
  let ln := Z.to_nat (m_rule_len m rule) in
  (ln < length (xc_stack x))%nat ->
  let below := match skipn ln (xc_stack x) with b :: _ => x_state b | [] => -1 end in
  let st := m_goto m below (m_rule_sym m rule) in
  st <> -1 ->
  exists e' evs, x_state e' = st /\
    plain_reduce x = Some (mkXC (e' :: skipn ln (xc_stack x)) st (xc_input x) (xc_events x ++ evs)) /\
    rstep p eh (mkRC x r errs l) =
      RContinue (mkRC (mkXC (e' :: skipn ln (xc_stack x)) st (xc_input x) (xc_events x ++ evs)) r errs l).
Proof.
  intros Hact ln Hlen below st Hst. unfold rstep, plain_reduce, xstep. cbn [rc_x rc_recovering rc_errors rc_last].
  rewrite Hnm, Hact. fold ln.
  destruct (length (xc_stack x) <=? ln)%nat eqn:El; [apply Nat.leb_le in El; lia|].
  destruct (lhs_range _ _) as [off endoff]. destruct (apply_rule _ _ _ _ _) as [evs endoff'].
  fold below. fold st. destruct (st =? -1) eqn:E1; [apply Z.eqb_eq in E1; contradiction|].
  eexists _, evs. split; [|split]. 3: reflexivity. all: reflexivity.
Qed.

Lemma rstep_shift x r errs l q :
  m_act m (xc_state x) (t_sym (next_tok eoi (xc_input x))) [] = Shift q ->
  exists e' r',
    rstep p eh (mkRC x r errs l) =
      RContinue (mkRC (mkXC (e' :: xc_stack x) q
                            (if t_sym (next_tok eoi (xc_input x)) =? 0 then xc_input x else tl (xc_input x)) (xc_events x))
                      r' errs l).
Proof.
  intros Hact. unfold rstep. cbn [rc_x rc_recovering rc_errors rc_last]. rewrite Hnm, Hact.
  eexists _, _. reflexivity.
Qed.

(* ---- reduceAll ---- *)
Lemma reduce_all_state f stack stack2 state symbol res :
  reduce_all f p stack stack2 state symbol = Some res -> state <> -1.
Proof.
  destruct f as [|f]; [discriminate|]. simpl.
  destruct (state =? rp_end p) eqn:E; [apply Z.eqb_eq in E; lia|].
  destruct (state <? 0) eqn:E0; [discriminate|]. apply Z.ltb_ge in E0. lia.
Qed.

(* the main loop's stack is reduceAll's stack with the entries of stack2 on top *)
Definition vstack (S stack : list xentry) (stack2 : list Z) : Prop :=
  exists new, S = new ++ stack /\ map x_state new = stack2.

Lemma hd_map_state (l : list xentry) : l <> [] -> hd 0 (map x_state l) = x_state (hd xdummy l).
Proof. destruct l; [congruence|reflexivity]. Qed.

Lemma reduce_all_sim f : forall stack stack2 state symbol s',
  reduce_all f p stack stack2 state symbol = Some (s', true) ->
  forall x r errs l,
  vstack (xc_stack x) stack stack2 -> stack2 <> [] -> hd 0 stack2 = state -> xc_state x = state ->
  t_sym (next_tok eoi (xc_input x)) = symbol ->
  exists k x', (k <= f)%nat /\ rsteps k (mkRC x r errs l) (mkRC x' r errs l) /\ xc_input x' = xc_input x /\
    reduces_for k x = true /\
    (xc_state x' = rp_end p \/ exists q, m_act m (xc_state x') symbol [] = Shift q).
Proof.
  induction f as [|f IH]; intros stack stack2 state symbol s' Hra x r errs l Hv Hne Hhd Hst Hsym; [discriminate|].
  simpl in Hra.
  destruct (state =? rp_end p) eqn:Eend.
  { apply Z.eqb_eq in Eend. exists O, x. split; [lia|]. split; [constructor|]. split; [reflexivity|]. split; [reflexivity|]. left. congruence. }
  destruct (state <? 0) eqn:Eneg; [discriminate|].
  destruct (rp_deep p state symbol); [discriminate|].
  destruct (m_act m state symbol []) as [q|rule| |row] eqn:Eact.
  - injection Hra as _ Hok. exists O, x. split; [lia|]. split; [constructor|]. split; [reflexivity|]. split; [reflexivity|].
    right. rewrite Hst. exists q. exact Eact.
  - (* one reduction, then the rest *)
    destruct Hv as (new & ES & Enew).
    assert (Hnew : new <> []) by (intros ->; simpl in Enew; congruence).
    assert (Hlnew : length new = length stack2) by (rewrite <- Enew, map_length; reflexivity).
    set (ln := Z.to_nat (m_rule_len m rule)) in *.
    set (sym := m_rule_sym m rule) in *.
    assert (Hact : m_act m (xc_state x) (t_sym (next_tok eoi (xc_input x))) [] = Reduce rule) by (rewrite Hst, Hsym; exact Eact).
    assert (Hne_end : xc_state x <> rp_end p) by (apply Z.eqb_neq in Eend; congruence).
    (* the common continuation: given the shape of the popped stack *)
    assert (Hgo : forall stack' stack2',
      (ln < length (xc_stack x))%nat ->
      (exists new', skipn ln (xc_stack x) = new' ++ stack' /\ map x_state new' = stack2' /\ new' ++ stack' <> []) ->
      let below := match skipn ln (xc_stack x) with b :: _ => x_state b | [] => -1 end in
      reduce_all f p stack' (m_goto m below sym :: stack2') (m_goto m below sym) symbol = Some (s', true) ->
      exists k x', (k <= S f)%nat /\ rsteps k (mkRC x r errs l) (mkRC x' r errs l) /\ xc_input x' = xc_input x /\
        reduces_for k x = true /\
        (xc_state x' = rp_end p \/ exists q, m_act m (xc_state x') symbol [] = Shift q)).
    { intros stack' stack2' Hlen (new' & Esk & Enew' & Hne') below Hrec.
      pose proof (reduce_all_state _ _ _ _ _ _ Hrec) as Hst1.
      destruct (rstep_reduce x r errs l rule Hact Hlen Hst1) as (e' & evs & He' & Hpr & Hstep).
      fold ln in Hstep, Hpr. fold below in Hstep, He', Hpr. fold sym in Hstep, He', Hpr.
      set (x1 := mkXC (e' :: skipn ln (xc_stack x)) (m_goto m below sym) (xc_input x) (xc_events x ++ evs)) in *.
      destruct (IH _ _ _ _ _ Hrec x1 r errs l) as (k & x' & Hk & Hsteps & Hin & Hrf & Hfin).
      - exists (e' :: new'). split; [simpl; rewrite Esk; reflexivity|]. simpl. rewrite He', Enew'. reflexivity.
      - discriminate.
      - reflexivity.
      - reflexivity.
      - exact Hsym.
      - exists (S k), x'. split; [lia|]. split; [econstructor; eauto|]. split; [exact Hin|].
        split; [simpl; rewrite Hpr; exact Hrf|exact Hfin]. }
    destruct ln as [|ln'] eqn:Eln.
    + (* empty rule: push *)
      apply (Hgo stack stack2).
      * rewrite ES, app_length. destruct new; [congruence|simpl; lia].
      * exists new. simpl. split; [exact ES|]. split; [exact Enew|]. destruct new; [congruence|discriminate].
      * simpl skipn. rewrite ES. destruct new as [|e0 new0]; [congruence|]. simpl.
        simpl in Enew. rewrite <- Enew in Hhd. simpl in Hhd. rewrite Hhd. exact Hra.
    + rewrite <- Eln in *. clear Eln ln'.
      destruct (ln <? length stack2)%nat eqn:Elt.
      * (* pops inside stack2 *)
        apply Nat.ltb_lt in Elt.
        assert (Esk : skipn ln (xc_stack x) = skipn ln new ++ stack).
        { rewrite ES, skipn_app. replace (ln - length new)%nat with O by lia. reflexivity. }
        assert (Hsn : skipn ln new <> []).
        { intros E. apply (f_equal (@length _)) in E. rewrite skipn_length in E. simpl in E. lia. }
        apply (Hgo stack (skipn ln stack2)).
        -- rewrite ES, app_length. lia.
        -- exists (skipn ln new). split; [exact Esk|]. split; [rewrite <- Enew, skipn_map; reflexivity|].
           destruct (skipn ln new); [congruence|discriminate].
        -- rewrite Esk. destruct (skipn ln new) as [|b0 rest0] eqn:E0; [congruence|]. simpl.
           assert (Hb : hd 0 (skipn ln stack2) = x_state b0).
           { rewrite <- Enew, skipn_map, E0. reflexivity. }
           rewrite <- Hb. exact Hra.
      * (* pops into the real stack *)
        apply Nat.ltb_ge in Elt.
        assert (Esk : skipn ln (xc_stack x) = skipn (ln - length stack2) stack).
        { rewrite ES, skipn_app, Hlnew. rewrite skipn_all2 by lia. reflexivity. }
        destruct (skipn (ln - length stack2) stack) as [|b rest] eqn:Erest; [discriminate|].
        apply (Hgo (b :: rest) []).
        -- rewrite ES, app_length, Hlnew.
           assert (length (skipn (ln - length stack2) stack) > 0)%nat by (rewrite Erest; simpl; lia).
           rewrite skipn_length in H. lia.
        -- exists []. split; [exact Esk|]. split; [reflexivity|discriminate].
        -- rewrite Esk. exact Hra.
  - injection Hra as _ Hok. destruct (Hso _ _ Hok) as (q & Hq). congruence.
  - injection Hra as _ Hok. destruct (Hso _ _ Hok) as (q & Hq). congruence.
Qed.

(* ---- what a successful recovery leaves behind ---- *)
Lemma find_match_ok positions symbol fuel : forall st, find_match p positions symbol fuel = Some (Some st) ->
  let st0 := m_goto m (x_state (hd xdummy st)) (rp_err_sym p) in
  exists s', reduce_all fuel p st [st0] st0 symbol = Some (s', true).
Proof.
  induction positions as [|st1 more IH]; intros st; simpl; [discriminate|].
  destruct (reduce_all fuel p st1 _ _ symbol) as [[s1 b]|] eqn:E; [|discriminate].
  destruct b.
  - intros H. injection H as <-. exists s1. exact E.
  - apply IH.
Qed.

Lemma recover_loop_ok fuel : forall stack positions syms input s e stack' input',
  recover_loop fuel p stack positions syms input s e = RecOk stack' input' ->
  is_suffix input' input /\
  exists st s1 e1 s',
    let st0 := m_goto m (x_state (hd xdummy st)) (rp_err_sym p) in
    stack' = mkX (rp_err_sym p) s1 e1 st0 (TLeaf (rp_err_sym p) s1 e1) :: st /\
    reduce_all (S (length stack) * 4 + 64)%nat p st [st0] st0 (t_sym (next_tok eoi input')) = Some (s', true).
Proof.
  induction fuel as [|f IH]; intros stack positions syms input s e stack' input'; simpl; [discriminate|].
  destruct (skip_broken syms input 0) as [e1 input1] eqn:Esk.
  pose proof (skip_broken_suffix syms input 0) as Hsuf. rewrite Esk in Hsuf. simpl in Hsuf.
  destruct (find_match p positions _ _) as [[st1|]|] eqn:Efm; try discriminate.
  - destruct (find_match_ok _ _ _ _ Efm) as (s' & Hra).
    destruct (length stack - length st1)%nat.
    + intros E. injection E as <- <-. split; [exact Hsuf|]. eexists st1, _, _, s'. split; [reflexivity|exact Hra].
    + destruct (s =? _); intros E; injection E as <- <-; (split; [exact Hsuf|]); eexists st1, _, _, s'; (split; [reflexivity|exact Hra]).
  - destruct (_ =? 0); [discriminate|]. intros E. destruct (IH _ _ _ _ _ _ _ _ E) as [H1 H2].
    split; [eapply is_suffix_trans; eauto|exact H2].
Qed.

Lemma handle_error_continue c0 stack events c1 : handle_error p eh c0 stack events = RContinue c1 ->
  exists stack' input' errs' last',
    recover_from_error p stack (xc_input (rc_x c0)) = RecOk stack' input' /\
    c1 = mkRC (mkXC stack' (x_state (hd xdummy stack')) input' events) 4 errs' last'.
Proof.
  unfold handle_error. destruct (_ && negb _); [discriminate|].
  destruct (recover_from_error p stack (xc_input (rc_x c0))) as [st inp| | |]; try discriminate.
  intros E. injection E as <-. eexists _, _, _, _. split; reflexivity.
Qed.

(* Progress after recovery: when handle_error continues, the loop performs at most 4 * (|stack| + 1) + 64
   iterations -- the reductions reduceAll simulated, input untouched, no error reported -- and then is in the end state or
   shifts the next token. *)
Theorem recovery_progress c0 stack events c1 : handle_error p eh c0 stack events = RContinue c1 ->
  is_suffix (xc_input (rc_x c1)) (xc_input (rc_x c0)) /\
  exists k c2, (k <= S (length stack) * 4 + 64)%nat /\ rsteps k c1 c2 /\
    xc_input (rc_x c2) = xc_input (rc_x c1) /\ rc_errors c2 = rc_errors c1 /\ reduces_for k (rc_x c1) = true /\
    (xc_state (rc_x c2) = rp_end p \/
     exists q c3, m_act m (xc_state (rc_x c2)) (t_sym (next_tok eoi (xc_input (rc_x c1)))) [] = Shift q /\
       rstep p eh c2 = RContinue c3 /\ xc_state (rc_x c3) = q /\ rc_errors c3 = rc_errors c1 /\
       xc_input (rc_x c3) = (if t_sym (next_tok eoi (xc_input (rc_x c1))) =? 0 then xc_input (rc_x c1) else tl (xc_input (rc_x c1)))).
Proof.
  intros H. destruct (handle_error_continue _ _ _ _ H) as (stack' & input' & errs' & last' & Hrec & ->).
  cbn [rc_x xc_input rc_errors].
  unfold recover_from_error in Hrec. destruct (recover_positions p stack) as [|pos0 positions]; [discriminate|].
  destruct (recover_loop_ok _ _ _ _ _ _ _ _ _ Hrec) as (Hsuf & st & s1 & e1 & s' & Hst & Hra). cbv zeta in Hst, Hra.
  split; [exact Hsuf|].
  set (st0 := m_goto m (x_state (hd xdummy st)) (rp_err_sym p)) in *.
  set (x1 := mkXC stack' (x_state (hd xdummy stack')) input' events). subst stack'.
  destruct (reduce_all_sim _ _ _ _ _ _ Hra x1 4 errs' last') as (k & x' & Hk & Hsteps & Hin & Hrf & Hfin).
  - exists [mkX (rp_err_sym p) s1 e1 st0 (TLeaf (rp_err_sym p) s1 e1)]. split; reflexivity.
  - discriminate.
  - reflexivity.
  - reflexivity.
  - reflexivity.
  - exists k, (mkRC x' 4 errs' last'). split; [exact Hk|]. split; [exact Hsteps|]. cbn [rc_x rc_errors].
    split; [exact Hin|]. split; [reflexivity|]. split; [exact Hrf|].
    destruct Hfin as [Hfin|(q & Hq)]; [left; exact Hfin|right].
    assert (Hq' : m_act m (xc_state x') (t_sym (next_tok eoi (xc_input x'))) [] = Shift q) by (rewrite Hin; exact Hq).
    destruct (rstep_shift x' 4 errs' last' q Hq') as (e' & r' & Hstep).
    exists q. eexists. split; [exact Hq|]. split; [exact Hstep|]. cbn [rc_x xc_state xc_input rc_errors].
    rewrite Hin. repeat split; reflexivity.
Qed.

(* ---- termination ---- *)
(* no configuration starts an infinite sequence of reductions *)
Definition reductions_terminate : Prop := forall x, exists n, reduces_for n x = false.
(* end-of-input is only shifted into the end state *)
Definition eoi_ends : Prop := forall s q, m_act m s 0 [] = Shift q -> q = rp_end p.

Lemma rstep_cases x r errs l :
  let c := mkRC x r errs l in
  let nx := next_tok eoi (xc_input x) in
  (exists o c', rstep p eh c = RStop o c') \/
  (exists x', plain_reduce x = Some x' /\ xc_input x' = xc_input x /\ rstep p eh c = RContinue (mkRC x' r errs l)) \/
  (exists q c1, m_act m (xc_state x) (t_sym nx) [] = Shift q /\ rstep p eh c = RContinue c1 /\ xc_state (rc_x c1) = q /\
     xc_input (rc_x c1) = (if t_sym nx =? 0 then xc_input x else tl (xc_input x))) \/
  (exists c0 stack events, rstep p eh c = handle_error p eh c0 stack events /\ xc_input (rc_x c0) = xc_input x).
Proof.
  cbv zeta. unfold rstep, plain_reduce, xstep. cbn [rc_x rc_recovering rc_errors rc_last].
  destruct (m_act m (xc_state x) _ _) as [q|rule| |row] eqn:Eact.
  - right. right. left. exists q. eexists. rewrite <- Hnm with (more := map t_sym (tl (xc_input x))).
    split; [exact Eact|]. split; [reflexivity|]. split; reflexivity.
  - destruct (_ <=? _)%nat; [left; eexists _, _; reflexivity|].
    destruct (lhs_range _ _) as [off endoff]. destruct (apply_rule _ _ _ _ _) as [evs endoff'].
    destruct (_ =? -1).
    + right. right. right. eexists _, _, _. split; [reflexivity|reflexivity].
    + right. left. eexists. split; [reflexivity|]. split; reflexivity.
  - right. right. right. eexists _, _, _. split; [reflexivity|reflexivity].
  - right. right. right. eexists _, _, _. split; [reflexivity|reflexivity].
Qed.

Lemma handle_error_stop c0 stack events o c' : handle_error p eh c0 stack events = RStop o c' -> o <> RFuel.
Proof.
  unfold handle_error. destruct (_ && negb _); [intros E; injection E as <- _; discriminate|].
  destruct (recover_from_error p stack _); intros E; try discriminate; injection E as <- _; discriminate.
Qed.

Lemma rstep_stop c o c' : rstep p eh c = RStop o c' -> o <> RFuel.
Proof.
  unfold rstep. destruct (m_act m _ _ _) as [q|rule| |row]; try discriminate; try apply handle_error_stop.
  destruct (_ <=? _)%nat; [intros E; injection E as <- _; discriminate|].
  destruct (lhs_range _ _) as [off endoff]. destruct (apply_rule _ _ _ _ _) as [evs endoff'].
  destruct (_ =? -1); [apply handle_error_stop|discriminate].
Qed.

Lemma is_suffix_length {A} (a b : list A) : is_suffix a b -> (length a <= length b)%nat.
Proof. intros (pre & ->). rewrite app_length. lia. Qed.

Lemma next_sym_nonzero_tl input : t_sym (next_tok eoi input) <> 0 -> (length (tl input) < length input)%nat.
Proof. destruct input as [|t rest]; simpl; [congruence|lia]. Qed.

Lemma accept_now c g : xc_state (rc_x c) = rp_end p -> fst (rrun_loop (S g) p eh c) <> RFuel.
Proof. intros H. simpl. apply Z.eqb_eq in H. rewrite H. discriminate. Qed.

(* Termination of the recovering loop: if end-of-input is only shifted into the end state and the reductions of
   the plain loop terminate, then for every configuration (stack, input, recovery state) and every error handler
   some fuel suffices. *)
Theorem rrun_terminates : eoi_ends -> reductions_terminate ->
  forall c, exists f, fst (rrun_loop f p eh c) <> RFuel.
Proof.
  intros Heoi Hred c.
  remember (length (xc_input (rc_x c))) as n eqn:En.
  assert (Hn : (length (xc_input (rc_x c)) <= n)%nat) by lia. clear En.
  revert c Hn. induction n as [n IHn] using lt_wf_ind. intros c Hn.
  (* after a shift from c2 (reached from c in k0 iterations) *)
  assert (Hshift : forall c2 q c3, xc_state (rc_x c2) <> rp_end p ->
     (length (xc_input (rc_x c2)) <= n)%nat ->
     m_act m (xc_state (rc_x c2)) (t_sym (next_tok eoi (xc_input (rc_x c2)))) [] = Shift q ->
     rstep p eh c2 = RContinue c3 -> xc_state (rc_x c3) = q ->
     xc_input (rc_x c3) = (if t_sym (next_tok eoi (xc_input (rc_x c2))) =? 0 then xc_input (rc_x c2) else tl (xc_input (rc_x c2))) ->
     exists f, fst (rrun_loop f p eh c2) <> RFuel).
  { intros c2 q c3 Hne2 Hlen2 Hq Hstep Hst3 Hin3. apply Z.eqb_neq in Hne2.
    destruct (t_sym (next_tok eoi (xc_input (rc_x c2))) =? 0) eqn:E0.
    - apply Z.eqb_eq in E0. rewrite E0 in Hq. apply Heoi in Hq. exists 2%nat.
      change (rrun_loop 2 p eh c2) with (if xc_state (rc_x c2) =? rp_end p then (RAccept, c2)
        else match rstep p eh c2 with RContinue c' => rrun_loop 1 p eh c' | RStop o c' => (o, c') end).
      rewrite Hne2, Hstep. apply accept_now. congruence.
    - apply Z.eqb_neq in E0. pose proof (next_sym_nonzero_tl _ E0) as Hlt.
      destruct (IHn (length (xc_input (rc_x c3))) ltac:(rewrite Hin3; lia) c3 ltac:(lia)) as (f & Hf).
      exists (S f). simpl. rewrite Hne2, Hstep. exact Hf. }
  destruct (Hred (rc_x c)) as [k Hk]. revert c Hn Hk. induction k as [|k IHk]; intros c Hn Hk; [discriminate|].
  destruct (Z.eq_dec (xc_state (rc_x c)) (rp_end p)) as [Eend|Eend]; [exists 1%nat; apply accept_now; exact Eend|].
  pose proof Eend as Eend'. apply Z.eqb_neq in Eend'.
  destruct c as [x r errs l]. cbn [rc_x] in *.
  destruct (rstep_cases x r errs l) as [(o & c' & Hs)|[(x' & Hpr & Hin & Hs)|[(q & c1 & Hq & Hs & Hst & Hin)|(c0 & stack & events & Hs & Hin)]]];
    cbv zeta in *.
  - exists 1%nat. simpl. rewrite Eend', Hs. simpl. exact (rstep_stop _ _ _ Hs).
  - simpl in Hk. rewrite Hpr in Hk. destruct (IHk (mkRC x' r errs l) ltac:(cbn [rc_x]; rewrite Hin; exact Hn) Hk) as (f & Hf).
    exists (S f). simpl. rewrite Eend', Hs. exact Hf.
  - apply (Hshift (mkRC x r errs l) q c1); auto.
  - destruct (handle_error p eh c0 stack events) as [c1|o c'] eqn:Ehe.
    + destruct (recovery_progress _ _ _ _ Ehe) as (Hsuf & k2 & c2 & _ & Hsteps & Hin2 & _ & _ & Hfin).
      apply is_suffix_length in Hsuf. rewrite Hin in Hsuf.
      assert (Hgo : exists f2, fst (rrun_loop f2 p eh c2) <> RFuel).
      { destruct Hfin as [Hfin|(q & c3 & Hq & Hs3 & Hst3 & _ & Hin3)]; [exists 1%nat; apply accept_now; exact Hfin|].
        destruct (Z.eq_dec (xc_state (rc_x c2)) (rp_end p)) as [E2|E2]; [exists 1%nat; apply accept_now; exact E2|].
        apply (Hshift c2 q c3); auto; rewrite Hin2; auto. lia. }
      destruct Hgo as (f2 & Hf2). exists (S (k2 + f2)). simpl. rewrite Eend', Hs.
      rewrite (rsteps_loop _ _ _ Hsteps). exact Hf2.
    + exists 1%nat. simpl. rewrite Eend', Hs. simpl. exact (handle_error_stop _ _ _ _ _ Ehe).
Qed.

(* more fuel does not change a finished run *)
Lemma rrun_fuel_mono f : forall c o c', rrun_loop f p eh c = (o, c') -> o <> RFuel ->
  forall g, rrun_loop (f + g) p eh c = (o, c').
Proof.
  induction f as [|f IH]; intros c o c' H Ho g; simpl in *; [injection H as <- _; congruence|].
  destruct (_ =? rp_end p); [exact H|]. destruct (rstep p eh c) as [c1|o1 c1]; [apply IH; assumption|exact H].
Qed.

(* ---- an explicit fuel bound when the reduction sequences of the plain loop are uniformly bounded ---- *)
Lemma reduces_for_mono n : forall x n', reduces_for n x = false -> (n <= n')%nat -> reduces_for n' x = false.
Proof.
  induction n as [|n IH]; intros x n' H Hle; [discriminate|]. destruct n' as [|n']; [lia|]. simpl in *.
  destruct (plain_reduce x) as [x'|]; [apply IH; [exact H|lia]|reflexivity].
Qed.

Lemma reduces_for_lt k n x : reduces_for k x = true -> reduces_for n x = false -> (k < n)%nat.
Proof.
  intros Hk Hn. destruct (le_lt_dec n k) as [Hle|Hlt]; [|exact Hlt].
  rewrite (reduces_for_mono n x k Hn Hle) in Hk. discriminate.
Qed.

Fixpoint fuelT (R T : nat) : nat := match T with O => R + 3 | S T' => 2 * R + 3 + fuelT R T' end.

Lemma fuelT_ge R T : (R + 3 <= fuelT R T)%nat.
Proof. induction T; simpl; lia. Qed.

Lemma fuelT_mono R T : forall T', (T <= T')%nat -> (fuelT R T <= fuelT R T')%nat.
Proof.
  induction T as [|T IH]; intros T' H; [apply fuelT_ge|]. destruct T' as [|T']; [lia|]. simpl.
  specialize (IH T' ltac:(lia)). lia.
Qed.

Lemma fuelT_closed R T : fuelT R T = (T * (2 * R + 3) + R + 3)%nat.
Proof. induction T as [|T IH]; simpl; [lia|]. rewrite IH. lia. Qed.

Definition reductions_bounded (R : nat) : Prop := forall x, reduces_for (S R) x = false.

Theorem rrun_fuel_bound R : eoi_ends -> reductions_bounded R ->
  forall c, exists f, (f <= S R + fuelT R (length (xc_input (rc_x c))))%nat /\ fst (rrun_loop f p eh c) <> RFuel.
Proof.
  intros Heoi Hred.
  assert (G : forall n c, (length (xc_input (rc_x c)) <= n)%nat -> forall k, reduces_for k (rc_x c) = false ->
              exists f, (f <= k + fuelT R n)%nat /\ fst (rrun_loop f p eh c) <> RFuel).
  { induction n as [n IHn] using lt_wf_ind. intros c Hn.
    assert (Hshift : forall c2 q c3, xc_state (rc_x c2) <> rp_end p ->
       (length (xc_input (rc_x c2)) <= n)%nat ->
       m_act m (xc_state (rc_x c2)) (t_sym (next_tok eoi (xc_input (rc_x c2)))) [] = Shift q ->
       rstep p eh c2 = RContinue c3 -> xc_state (rc_x c3) = q ->
       xc_input (rc_x c3) = (if t_sym (next_tok eoi (xc_input (rc_x c2))) =? 0 then xc_input (rc_x c2) else tl (xc_input (rc_x c2))) ->
       exists f, (f + R + 1 <= fuelT R n)%nat /\ fst (rrun_loop f p eh c2) <> RFuel).
    { intros c2 q c3 Hne2 Hlen2 Hq Hstep Hst3 Hin3. apply Z.eqb_neq in Hne2.
      destruct (t_sym (next_tok eoi (xc_input (rc_x c2))) =? 0) eqn:E0.
      - apply Z.eqb_eq in E0. rewrite E0 in Hq. apply Heoi in Hq. exists 2%nat.
        split; [pose proof (fuelT_ge R n); lia|].
        change (rrun_loop 2 p eh c2) with (if xc_state (rc_x c2) =? rp_end p then (RAccept, c2)
          else match rstep p eh c2 with RContinue c' => rrun_loop 1 p eh c' | RStop o c' => (o, c') end).
        rewrite Hne2, Hstep. apply accept_now. congruence.
      - apply Z.eqb_neq in E0. pose proof (next_sym_nonzero_tl _ E0) as Hlt.
        destruct n as [|n']; [lia|].
        destruct (IHn n' ltac:(lia) c3 ltac:(rewrite Hin3; lia) (S R) (Hred _)) as (f & Hfb & Hf).
        exists (S f). split; [simpl; lia|]. simpl. rewrite Hne2, Hstep. exact Hf. }
    intros k. revert c Hn. induction k as [|k IHk]; intros c Hn Hk; [discriminate|].
    pose proof (fuelT_ge R n) as Hge.
    destruct (Z.eq_dec (xc_state (rc_x c)) (rp_end p)) as [Eend|Eend];
      [exists 1%nat; split; [lia|apply accept_now; exact Eend]|].
    pose proof Eend as Eend'. apply Z.eqb_neq in Eend'.
    destruct c as [x r errs l]. cbn [rc_x] in *.
    destruct (rstep_cases x r errs l) as [(o & c' & Hs)|[(x' & Hpr & Hin & Hs)|[(q & c1 & Hq & Hs & Hst & Hin)|(c0 & stack & events & Hs & Hin)]]];
      cbv zeta in *.
    - exists 1%nat. split; [lia|]. simpl. rewrite Eend', Hs. simpl. exact (rstep_stop _ _ _ Hs).
    - simpl in Hk. rewrite Hpr in Hk.
      destruct (IHk (mkRC x' r errs l) ltac:(cbn [rc_x]; rewrite Hin; exact Hn) Hk) as (f & Hfb & Hf).
      exists (S f). split; [lia|]. simpl. rewrite Eend', Hs. exact Hf.
    - destruct (Hshift (mkRC x r errs l) q c1) as (f & Hfb & Hf); auto. exists f. split; [lia|exact Hf].
    - destruct (handle_error p eh c0 stack events) as [c1|o c'] eqn:Ehe.
      + destruct (recovery_progress _ _ _ _ Ehe) as (Hsuf & k2 & c2 & _ & Hsteps & Hin2 & _ & Hrf & Hfin).
        apply is_suffix_length in Hsuf. rewrite Hin in Hsuf.
        pose proof (reduces_for_lt _ _ _ Hrf (Hred _)) as Hk2.
        assert (Hgo : exists f2, (f2 + R + 1 <= fuelT R n)%nat /\ fst (rrun_loop f2 p eh c2) <> RFuel).
        { destruct Hfin as [Hfin|(q & c3 & Hq & Hs3 & Hst3 & _ & Hin3)];
            [exists 1%nat; split; [lia|apply accept_now; exact Hfin]|].
          destruct (Z.eq_dec (xc_state (rc_x c2)) (rp_end p)) as [E2|E2];
            [exists 1%nat; split; [lia|apply accept_now; exact E2]|].
          apply (Hshift c2 q c3); auto; rewrite Hin2; auto. lia. }
        destruct Hgo as (f2 & Hfb2 & Hf2). exists (S (k2 + f2)). split; [lia|]. simpl. rewrite Eend', Hs.
        rewrite (rsteps_loop _ _ _ Hsteps). exact Hf2.
      + exists 1%nat. split; [lia|]. simpl. rewrite Eend', Hs. simpl. exact (handle_error_stop _ _ _ _ _ Ehe). }
  intros c. destruct (G _ c (le_n _) (S R) (Hred _)) as (f & Hfb & Hf). exists f. split; [exact Hfb|exact Hf].
Qed.

(* in closed form: (|input| + 1) * (2 R + 3) + R + 1 iterations suffice *)
Corollary rrun_fuel_linear R : eoi_ends -> reductions_bounded R ->
  forall c, fst (rrun_loop ((length (xc_input (rc_x c)) + 1) * (2 * R + 3) + R + 1) p eh c) <> RFuel.
Proof.
  intros Heoi Hred c. destruct (rrun_fuel_bound R Heoi Hred c) as (f & Hfb & Hf).
  rewrite fuelT_closed in Hfb.
  destruct (rrun_loop f p eh c) as [o c'] eqn:E. simpl in Hf.
  replace ((length (xc_input (rc_x c)) + 1) * (2 * R + 3) + R + 1)%nat
    with (f + ((length (xc_input (rc_x c)) + 1) * (2 * R + 3) + R + 1 - f))%nat by lia.
  rewrite (rrun_fuel_mono f c o c' E Hf). exact Hf.
Qed.

(* every recovery episode consumes at least one input token or ends the parse *)
Theorem recovery_consumes_or_ends : eoi_ends -> forall c0 stack events c1,
  handle_error p eh c0 stack events = RContinue c1 ->
  exists k c2, (k <= S (length stack) * 4 + 64)%nat /\ rsteps k c1 c2 /\ rc_errors c2 = rc_errors c1 /\
    (xc_state (rc_x c2) = rp_end p \/
     exists c3, rstep p eh c2 = RContinue c3 /\ rc_errors c3 = rc_errors c1 /\
       ((length (xc_input (rc_x c3)) < length (xc_input (rc_x c0)))%nat \/ xc_state (rc_x c3) = rp_end p)).
Proof.
  intros Heoi c0 stack events c1 H.
  destruct (recovery_progress _ _ _ _ H) as (Hsuf & k & c2 & Hk & Hsteps & Hin2 & He2 & _ & Hfin).
  exists k, c2. split; [exact Hk|]. split; [exact Hsteps|]. split; [exact He2|].
  destruct Hfin as [Hfin|(q & c3 & Hq & Hs3 & Hst3 & He3 & Hin3)]; [left; exact Hfin|right].
  exists c3. split; [exact Hs3|]. split; [exact He3|].
  destruct (t_sym (next_tok eoi (xc_input (rc_x c1))) =? 0) eqn:E0.
  - right. apply Z.eqb_eq in E0. rewrite E0 in Hq. apply Heoi in Hq. congruence.
  - left. apply Z.eqb_neq in E0. apply next_sym_nonzero_tl in E0. apply is_suffix_length in Hsuf. rewrite Hin3. lia.
Qed.

End P.

(* ---- the conditions hold for the two table encodings the generated parsers use ---- *)
Lemma lalr1_default p t rl rs : rp_m p = Validator.lalr1_machine t rl rs -> lalr1 p.
Proof. intros Hm s a more. rewrite Hm. reflexivity. Qed.

Lemma lalr1_opt p o terms rl rs : rp_m p = opt_machine o terms rl rs -> lalr1 p.
Proof. intros Hm s a more. rewrite Hm. reflexivity. Qed.

Lemma shift_ok_sound_default p t rl rs :
  rp_m p = Validator.lalr1_machine t rl rs -> rp_shift_ok p = shift_ok_default t -> shift_ok_sound p.
Proof.
  intros Hm Hs s a H. rewrite Hm, Hs in *. unfold shift_ok_default in H. simpl. unfold action_default.
  set (a0 := zn (d_action t) s) in *. set (a1 := if a0 <? -2 then lalr_lookup t a0 a else a0) in *.
  apply andb_true_iff in H. destruct H as [H1 H2]. apply Z.eqb_eq in H1. rewrite H1. simpl. rewrite H2. eauto.
Qed.

Lemma shift_ok_sound_opt p o terms rl rs :
  rp_m p = opt_machine o terms rl rs -> rp_shift_ok p = shift_ok_opt o -> shift_ok_sound p.
Proof.
  intros Hm Hs s a H. rewrite Hm, Hs in *. unfold shift_ok_opt in H. simpl.
  destruct (action_opt o s a); try discriminate. eauto.
Qed.

Lemma conditions_default p t rl rs :
  rp_m p = Validator.lalr1_machine t rl rs -> rp_shift_ok p = shift_ok_default t -> lalr1 p /\ shift_ok_sound p.
Proof. intros Hm Hs. split; [eapply lalr1_default; eauto|eapply shift_ok_sound_default; eauto]. Qed.

Lemma conditions_opt p o terms rl rs :
  rp_m p = opt_machine o terms rl rs -> rp_shift_ok p = shift_ok_opt o -> lalr1 p /\ shift_ok_sound p.
Proof. intros Hm Hs. split; [eapply lalr1_opt; eauto|eapply shift_ok_sound_opt; eauto]. Qed.
