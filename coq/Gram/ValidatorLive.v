(* C01: second boolean validator for the correct-prefix property ("a syntax error is not reported early").
   check_live: every state has an item; the symbols after the dot of every item are productive; every item
   [A -> . alpha] of a real rule is justified by an item [B -> beta . A gamma] of the same state, and chains of
   such justifications through items with the dot at 0 are well-founded (rank hint, untrusted).
   Together with Validator.check it is proved (ValidatorLive_proofs.v) to imply that the tokens shifted before
   a reported syntax error are a prefix of a sentence.  Executable definitions only. *)
From Coq Require Import List ZArith Bool Arith.
From TM Require Import Gram.Cfg Gram.PTables Gram.Run Gram.Derive Gram.Validator.
Import ListNotations.
Local Open Scope Z_scope.

Definition rank_tbl := list (list Z).   (* per state, per rule number (augmented numbering): rank of [rule, dot 0] *)

Definition lrank (rk : rank_tbl) (q : Z) (r : nat) : Z :=
  if q <? 0 then -1 else nth r (nth (Z.to_nat q) rk []) (-1).

Definition dot_sym_is (g : grammar) (r' d' : nat) (X : Z) : bool :=
  match arule g r' with
  | Some rl' => match nth_error (r_rhs rl') d' with Some Y => Y =? X | None => false end
  | None => false
  end.

Definition check_live (g : grammar) (nstates : Z) (ann : cert) (rk : rank_tbl) : bool :=
  let ps := productive_set g in
  forallb (fun q =>
      match items ann q with [] => false | _ => true end &&
      forallb (fun it : citem => let '(r, d, _) := it in
          match arule g r with
          | Some rl =>
              forallb (is_productive g ps) (skipn d (r_rhs rl)) &&
              (if Nat.eqb d 0 && (r <? nrules g)%nat then
                 existsb (fun it' : citem => let '(r', d', _) := it' in
                     dot_sym_is g r' d' (r_lhs rl) &&
                     (negb (Nat.eqb d' 0) || ((0 <=? lrank rk q r') && (lrank rk q r' <? lrank rk q r))))
                   (items ann q)
               else true)
          | None => false
          end) (items ann q)) (states nstates).

(* ---- untrusted rank hint: round j ranks the dot-0 items that are justified by an item ranked before ---- *)
Fixpoint set_nth (l : list Z) (n : nat) (v : Z) : list Z :=
  match l, n with
  | [], _ => []
  | _ :: t, O => v :: t
  | x :: t, S k => x :: set_nth t k v
  end.

Definition live_rank_state (g : grammar) (its : list citem) : list Z :=
  let nr := nrules g in
  let init := map (fun r => if (r <? nr)%nat then -1 else 0) (seq 0 (nr + ninputs g)) in
  let step (j : Z) (rk : list Z) : list Z :=
    fold_left (fun acc (it : citem) => let '(r, d, _) := it in
        if Nat.eqb d 0 && (r <? nr)%nat && (nth r rk (-1) <? 0) then
          match arule g r with
          | Some rl =>
              if existsb (fun it' : citem => let '(r', d', _) := it' in
                     dot_sym_is g r' d' (r_lhs rl) && (negb (Nat.eqb d' 0) || (0 <=? nth r' rk (-1)))) its
              then set_nth acc r j else acc
          | None => acc
          end
        else acc) its rk in
  snd (fold_left (fun (x : Z * list Z) _ => let '(j, rk) := x in (j + 1, step j rk)) its (1, init)).

Definition live_ranks (g : grammar) (ann : cert) : rank_tbl := map (live_rank_state g) ann.
