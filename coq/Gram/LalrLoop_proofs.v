(* C03: completeness of the LR(0) collection build_loop.  Invariants of the work-list loop: the states are the
   start states followed by ordinary states; every transition (f, s, t) leads to THE state whose kernel is
   goto(closure(f), s); every processed state has a transition for every symbol with a non-empty goto.  When the
   work list ran empty (build_done) the automaton satisfies all hypotheses of the LALR(1) theorems
   (seeds_ok, aut_sound, starts_present, aut_complete) and is total (aut_total). *)
From Coq Require Import List ZArith Bool Arith Lia.
From TM Require Import Gram.Cfg Gram.Derive Gram.LalrRef Gram.LalrSpec Gram.LalrSpec_proofs Gram.LalrSpec_proofs2
                       Gram.LalrCert Gram.LalrCert_proofs Gram.LalrBuild_proofs Gram.LalrClosure_proofs Gram.LalrDone.
Import ListNotations.
Local Open Scope Z_scope.

Lemma items_eqb_eq a b : items_eqb a b = true -> a = b.
Proof.
  revert b; induction a as [|x a IH]; intros [|y b]; simpl; try discriminate; auto.
  intros H. apply andb_true_iff in H. destruct H as [H1 H2]. apply item_eqb_eq in H1. subst. f_equal. auto.
Qed.

Lemma state_eqb_eq a b : state_eqb a b = true -> a = b.
Proof.
  destruct a as [ka sa da], b as [kb sb db]. unfold state_eqb. simpl. intros H.
  apply andb_true_iff in H. destruct H as [H H3]. apply andb_true_iff in H. destruct H as [H1 H2].
  apply items_eqb_eq in H1. apply Z.eqb_eq in H2. subst.
  destruct sa as [x|], sb as [y|]; try discriminate; auto. apply Z.eqb_eq in H3. subst. reflexivity.
Qed.

Lemma find_state_some s l : forall i j, find_state s l i = Some j ->
  i <= j /\ nth_error l (Z.to_nat (j - i)) = Some s.
Proof.
  induction l as [|x l IH]; intros i j H; simpl in H; [discriminate|].
  destruct (state_eqb x s) eqn:E.
  - injection H as <-. apply state_eqb_eq in E. subst. replace (i - i) with 0 by lia. split; [lia|reflexivity].
  - apply IH in H. destruct H as [H1 H2]. split; [lia|].
    replace (Z.to_nat (j - i)) with (S (Z.to_nat (j - (i + 1)))) by lia. exact H2.
Qed.

Lemma trans_target_In a q s j : trans_target a q s = Some j -> In (q, s, j) (a_trans a).
Proof.
  unfold trans_target. destruct (find _ (a_trans a)) as [[[f s'] t]|] eqn:E; [|discriminate].
  intros [= <-]. apply find_some in E. destruct E as [Hin Hp]. apply andb_true_iff in Hp. destruct Hp as [H1 H2].
  apply Z.eqb_eq in H1, H2. subst. exact Hin.
Qed.

Section Loop.
Variable g : grammar.

Definition gk (st : lstate) (s : Z) : list item := goto_kernel g (closure g (s_kernel st) (s_seed st)) s.

Lemma goto_fold_mono sym l : forall acc y, In y acc ->
  In y (fold_left (fun acc it => match sym_after g it with
                                 | Some s => if s =? sym then ins_item (fst it, snd it + 1) acc else acc
                                 | None => acc end) l acc).
Proof.
  induction l as [|x l IH]; intros acc y H; simpl; auto. apply IH.
  destruct (sym_after g x) as [s|]; auto. destruct (s =? sym); auto. apply ins_item_In. auto.
Qed.

Lemma goto_kernel_has cl sym it : In it cl -> sym_after g it = Some sym -> In (fst it, snd it + 1) (goto_kernel g cl sym).
Proof.
  unfold goto_kernel. generalize (@nil item). induction cl as [|x cl IH]; intros acc Hin Es; [destruct Hin|].
  simpl. destruct Hin as [->|Hin]; [|apply IH; auto].
  rewrite Es, Z.eqb_refl. apply goto_fold_mono. apply ins_item_In. auto.
Qed.

Definition ST (a : automaton) : Prop :=
  exists rest, a_states a = start_states g ++ rest /\ Forall (fun st => s_seed st = None /\ s_kind st = 0) rest.

Definition TR (a : automaton) (k : Z) (proc : list Z) : Prop :=
  forall f s t, In (f, s, t) (a_trans a) ->
    0 <= f /\ (f < k \/ (f = k /\ In s proc)) /\ trans_target a f s = Some t /\
    exists st, nth_error (a_states a) (Z.to_nat f) = Some st /\ 0 <= t /\
               nth_error (a_states a) (Z.to_nat t) = Some (mkState (gk st s) None 0) /\ gk st s <> [].

Definition TOT (a : automaton) (k : Z) (proc : list Z) : Prop :=
  forall q st s, 0 <= q -> (q < k \/ (q = k /\ In s proc)) -> nth_error (a_states a) (Z.to_nat q) = Some st ->
    In s (zrange (nsyms g)) -> gk st s <> [] -> exists j, trans_target a q s = Some j.

Lemma ST_kind a q st : ST a -> nth_error (a_states a) q = Some st -> s_kind st = 0.
Proof.
  intros (rest & E & Hf) H. rewrite E in H. apply nth_error_In in H. apply in_app_or in H. destruct H as [H|H].
  - unfold start_states in H. apply in_map_iff in H. destruct H as (inp & <- & _). reflexivity.
  - rewrite Forall_forall in Hf. apply Hf in H. tauto.
Qed.

Lemma expand_sym_inv2 k st a proc sym :
  0 <= k -> nth_error (a_states a) (Z.to_nat k) = Some st -> ST a -> TR a k proc -> TOT a k proc -> ~ In sym proc ->
  let a' := expand_sym g k (closure g (s_kernel st) (s_seed st)) a sym in
  nth_error (a_states a') (Z.to_nat k) = Some st /\ ST a' /\ TR a' k (sym :: proc) /\ TOT a' k (sym :: proc).
Proof.
  intros Hk Hst HST HTR HTOT Hfresh. unfold expand_sym. cbv zeta.
  assert (Hweak : TR a k (sym :: proc)).
  { intros f s t Hin. destruct (HTR f s t Hin) as (H1 & H2 & H3). split; auto. split; auto.
    destruct H2 as [H2|[H2 H2']]; [auto|right; simpl; auto]. }
  fold (gk st sym). destruct (gk st sym) as [|it0 kern0] eqn:Ekern.
  - split; auto. split; auto. split; auto.
    intros q st' s Hq Hp Hst' Hs Hne. destruct Hp as [Hp|[-> [<-|Hp]]]; try (eapply HTOT; eauto; fail).
    rewrite Hst in Hst'. injection Hst' as <-. congruence.
  - set (kern := it0 :: kern0) in *. set (tgt := mkState kern None 0).
    assert (Hfreshtr : forall f s t, In (f, s, t) (a_trans a) -> ~ (f = k /\ s = sym)).
    { intros f s t Hin [-> ->]. destruct (HTR _ _ _ Hin) as (_ & [H|[_ H]] & _); [lia|auto]. }
    assert (Hlt : (Z.to_nat k < length (a_states a))%nat) by (apply nth_error_Some; congruence).
    destruct a as [sts tr]. simpl in *.
    destruct (find_state tgt sts 0) as [j|] eqn:Efind; simpl.
    + apply find_state_some in Efind. destruct Efind as [Hj Hnj]. rewrite Z.sub_0_r in Hnj.
      split; auto. split; auto. split.
      * intros f s t Hin. cbn [a_states a_trans] in *. apply in_app_or in Hin. destruct Hin as [Hin|[[= <- <- <-]|[]]].
        { destruct (Hweak f s t Hin) as (H1 & H2 & H2t & H3). split; auto. split; auto. split; auto.
          eapply trans_target_app_l; eauto. }
        split; auto. split; [right; simpl; auto|]. split; [apply trans_target_new; exact Hfreshtr|].
        exists st. rewrite Ekern. repeat split; auto. discriminate.
      * intros q st' s Hq Hp Hst' Hs Hne. cbn [a_states a_trans] in *.
        destruct Hp as [Hp|[-> [<-|Hp]]].
        -- destruct (HTOT q st' s Hq (or_introl Hp) Hst' Hs Hne) as [j' Hj']. exists j'. eapply trans_target_app_l; eauto.
        -- exists j. apply trans_target_new. exact Hfreshtr.
        -- destruct (HTOT k st' s Hq (or_intror (conj eq_refl Hp)) Hst' Hs Hne) as [j' Hj']. exists j'.
           eapply trans_target_app_l; eauto.
    + split; [rewrite nth_error_app1; auto|]. split; [|split].
      * destruct HST as (rest & E & Hf). exists (rest ++ [tgt]). simpl in E. rewrite E, app_assoc. split; auto.
        apply Forall_app. split; auto.
      * intros f s t Hin. cbn [a_states a_trans] in *. apply in_app_or in Hin. destruct Hin as [Hin|[[= <- <- <-]|[]]].
        -- destruct (Hweak f s t Hin) as (H1 & H2 & H2t & st' & H3 & H4 & H5 & H6). cbn [a_states] in H3, H5. split; auto. split; auto.
           split; [eapply trans_target_app_l; eauto|].
           exists st'. split; [rewrite nth_error_app1; auto; apply nth_error_Some; congruence|]. split; auto.
           split; auto. rewrite nth_error_app1; auto. apply nth_error_Some; congruence.
        -- split; auto. split; [right; simpl; auto|]. split; [apply trans_target_new; exact Hfreshtr|].
           exists st. split; [rewrite nth_error_app1; auto|].
           split; [lia|]. rewrite Ekern. split; [|discriminate].
           rewrite Nat2Z.id, nth_error_app2, Nat.sub_diag by lia. reflexivity.
      * intros q st' s Hq Hp Hst' Hs Hne. cbn [a_states a_trans] in *.
        assert (Hst'' : (Z.to_nat q < length sts)%nat -> nth_error sts (Z.to_nat q) = Some st').
        { intros Hl. rewrite nth_error_app1 in Hst' by auto. exact Hst'. }
        destruct Hp as [Hp|[-> [<-|Hp]]].
        -- destruct (lt_dec (Z.to_nat q) (length sts)) as [Hl|Hl].
           ++ destruct (HTOT q st' s Hq (or_introl Hp) (Hst'' Hl) Hs Hne) as [j' Hj']. exists j'.
              eapply trans_target_app_l; eauto.
           ++ lia.
        -- eexists. apply trans_target_new. exact Hfreshtr.
        -- destruct (HTOT k st' s Hq (or_intror (conj eq_refl Hp)) (Hst'' Hlt) Hs Hne) as [j' Hj']. exists j'.
           eapply trans_target_app_l; eauto.
Qed.

Lemma expand_fold_inv2 k st : 0 <= k -> forall syms a proc,
  NoDup syms -> (forall x, In x syms -> ~ In x proc) ->
  nth_error (a_states a) (Z.to_nat k) = Some st -> ST a -> TR a k proc -> TOT a k proc ->
  let a' := fold_left (expand_sym g k (closure g (s_kernel st) (s_seed st))) syms a in
  ST a' /\ TR a' k (rev syms ++ proc) /\ TOT a' k (rev syms ++ proc).
Proof.
  intros Hk. induction syms as [|x syms IH]; intros a proc Hnd Hdis Hst HST HTR HTOT; simpl.
  - auto.
  - inversion Hnd as [|x' l' Hx Hnd']; subst.
    destruct (expand_sym_inv2 k st a proc x Hk Hst HST HTR HTOT (Hdis x (or_introl eq_refl))) as (Hst' & HST' & HTR' & HTOT').
    rewrite <- app_assoc. simpl. apply IH; auto.
    intros y Hy [<-|Hp]; [contradiction|]. apply (Hdis y (or_intror Hy) Hp).
Qed.

Definition INV (a : automaton) (k : Z) : Prop := 0 <= k /\ ST a /\ TR a k [] /\ TOT a k [].

Lemma build_loop_inv2 fuel : forall a k, INV a k -> build_done fuel g a k = true ->
  exists k', Z.of_nat (length (a_states (build_loop fuel g a k))) <= k' /\ INV (build_loop fuel g a k) k'.
Proof.
  induction fuel as [|fuel IH]; intros a k HI Hd; simpl in *.
  - exists k. split; auto. apply negb_true_iff, Z.ltb_ge in Hd. exact Hd.
  - destruct (k <? Z.of_nat (length (a_states a))) eqn:Elt.
    2:{ exists k. split; auto. apply Z.ltb_ge in Elt. exact Elt. }
    apply Z.ltb_lt in Elt. destruct HI as (Hk & HST & HTR & HTOT).
    apply IH; auto. rewrite expand_state_eq. cbv zeta.
    destruct (nth_error (a_states a) (Z.to_nat k)) as [st|] eqn:Est.
    2:{ apply nth_error_None in Est. lia. }
    rewrite (nth_error_nth _ _ _ Est). rewrite (ST_kind a _ st HST Est). simpl.
    destruct (expand_fold_inv2 k st Hk (zrange (nsyms g)) a [] (zrange_NoDup _) (fun _ _ H => H) Est HST HTR HTOT)
      as (HST' & HTR' & HTOT').
    split; [lia|]. split; auto. split.
    + intros f s t Hin. destruct (HTR' f s t Hin) as (H1 & H2 & H3). split; auto. split; auto. left. lia.
    + intros q st' s Hq Hp Hst' Hs Hne. destruct Hp as [Hp|[_ []]]. apply (HTOT' q st' s Hq); auto.
      destruct (Z.eq_dec q k) as [->|]; [right; split; auto|left; lia].
      apply in_or_app. left. apply in_rev. rewrite rev_involutive. exact Hs.
Qed.

Lemma start_INV : INV (mkAut (start_states g) []) 0.
Proof.
  split; [lia|]. split; [|split].
  - exists []. rewrite app_nil_r. split; auto.
  - intros f s t [].
  - intros q st s Hq [Hp|[_ []]]. lia.
Qed.

(* ---------- consequences for an automaton satisfying the invariant with an empty work list ---------- *)
Section Done.
Variable a : automaton.
Variable k : Z.
Hypothesis Hk : Z.of_nat (length (a_states a)) <= k.
Hypothesis HI : INV a k.

Lemma inv_starts_present : starts_present g a.
Proof.
  destruct HI as (_ & (rest & E & _) & _). intros i nt e Hi Hinp. exists (mkState [] (Some nt) 0).
  split; [|auto]. rewrite E. rewrite nth_error_app1.
  - unfold start_states. rewrite nth_error_map, Hinp. reflexivity.
  - unfold start_states. rewrite map_length. apply nth_error_Some. congruence.
Qed.

Lemma inv_seeds_ok : seeds_ok g a.
Proof.
  destruct HI as (_ & (rest & E & Hf) & _). intros q st nt Hq Hst Hseed Hkind. rewrite E in Hst.
  destruct (lt_dec (Z.to_nat q) (length (start_states g))) as [Hl|Hl].
  - rewrite nth_error_app1 in Hst by auto. unfold start_states in Hst. rewrite nth_error_map in Hst.
    destruct (nth_error (g_inputs g) (Z.to_nat q)) as [[nt' e]|]; [|discriminate].
    injection Hst as <-. simpl in Hseed. injection Hseed as ->. eauto.
  - rewrite nth_error_app2 in Hst by lia. apply nth_error_In in Hst. rewrite Forall_forall in Hf.
    apply Hf in Hst. destruct Hst as [Hst _]. congruence.
Qed.

Lemma inv_trans q s j : trans_target a q s = Some j ->
  0 <= q /\ exists st, nth_error (a_states a) (Z.to_nat q) = Some st /\ 0 <= j /\
                       nth_error (a_states a) (Z.to_nat j) = Some (mkState (gk st s) None 0) /\ gk st s <> [].
Proof.
  intros H. apply trans_target_In in H. destruct HI as (_ & _ & HTR & _).
  destruct (HTR q s j H) as (H1 & _ & _ & H3). auto.
Qed.

Lemma inv_trans_uniq f s t : In (f, s, t) (a_trans a) ->
  trans_target a f s = Some t /\ 0 <= f < Z.of_nat (length (a_states a)) /\ 0 <= t < Z.of_nat (length (a_states a)).
Proof.
  intros H. destruct HI as (_ & _ & HTR & _). destruct (HTR f s t H) as (H1 & _ & H2 & st & H3 & H4 & H5 & _).
  split; auto.
  assert ((Z.to_nat f < length (a_states a))%nat) by (apply nth_error_Some; congruence).
  assert ((Z.to_nat t < length (a_states a))%nat) by (apply nth_error_Some; congruence). lia.
Qed.

Lemma inv_kind q st : nth_error (a_states a) q = Some st -> s_kind st = 0.
Proof. destruct HI as (_ & HST & _). intros H. eapply ST_kind; eauto. Qed.

Hypothesis Hrange : forall r, In r (g_rules g) -> g_terms g <= r_lhs r < g_terms g + g_nonterms g.

Lemma inv_aut_complete : aut_complete g a.
Proof.
  intros i gamma q it Hreach Hv. revert q Hreach.
  induction Hv as [nt eoi r Hi Hinp Hr|gamma it B r Hv IH Es Et Hr|gamma it X Hv IH Es]; intros q Hreach.
  - apply reach_nil_inv in Hreach. subst q. split; auto.
    destruct (inv_starts_present i nt eoi Hi Hinp) as (st & Hst & Hseed & Hkind).
    exists st. split; auto. rewrite Hseed. apply closure_incl_seed. exact Hr.
  - destruct (IH q Hreach) as (Hq & st & Hst & Hit). split; auto. exists st. split; auto.
    eapply (closure_closed g Hrange); eauto.
  - apply reach_snoc_inv in Hreach. destruct Hreach as (q0 & Hreach & Htr).
    destruct (IH q0 Hreach) as (Hq & st & Hst & Hit).
    destruct (inv_trans q0 X q Htr) as (_ & st0 & Hst0 & Hq' & Hst' & _). split; auto.
    rewrite Hst in Hst0. injection Hst0 as <-.
    eexists. split; [exact Hst'|]. cbn [s_kernel s_seed]. apply closure_incl_kernel.
    apply goto_kernel_has; auto.
Qed.

(* the converse of aut_complete for this automaton: a state holds only items valid for EVERY string reaching it *)
Lemma inv_strong_sound i gamma q : reach a i gamma q ->
  0 <= i -> (exists inp, nth_error (g_inputs g) (Z.to_nat i) = Some inp) ->
  forall st it, nth_error (a_states a) (Z.to_nat q) = Some st -> In it (closure g (s_kernel st) (s_seed st)) ->
  lr0_valid g i gamma it.
Proof.
  intros Hreach Hi ([nt e] & Hinp). induction Hreach as [|gamma q X q' Hreach IH Htr]; intros st it Hst.
  - destruct (inv_starts_present i nt e Hi Hinp) as (st' & Hst' & Hseed & Hkind).
    rewrite Hst in Hst'. injection Hst' as <-.
    destruct HI as (_ & (rest & E & _) & _). rewrite E in Hst.
    rewrite nth_error_app1 in Hst by (unfold start_states; rewrite map_length; apply nth_error_Some; congruence).
    unfold start_states in Hst. rewrite nth_error_map, Hinp in Hst. injection Hst as <-. simpl.
    apply closure_sound.
    + intros it' [].
    + intros nt' r [= <-] Hr. eapply l0_start; eauto.
    + intros it' s r Hv Es Et Hr. eapply l0_closure; eauto.
  - destruct (inv_trans q X q' Htr) as (_ & st0 & Hst0 & Hq' & Hst' & _).
    rewrite Hst in Hst'. injection Hst' as ->. cbn [s_kernel s_seed].
    apply closure_sound.
    + intros it' Hit'. apply goto_kernel_In in Hit'. destruct Hit' as (it0 & Hin0 & Es & ->).
      apply l0_goto; auto. eapply IH; eauto.
    + intros nt' r [=].
    + intros it' s r Hv Es Et Hr. eapply l0_closure; eauto.
Qed.

Hypothesis Hrhs : forall r s, In r (g_rules g) -> In s (r_rhs r) -> 0 <= s < nsyms g.

Lemma sym_after_range it s : sym_after g it = Some s -> 0 <= s < nsyms g.
Proof.
  unfold sym_after, rule_at. intros H. apply nth_error_In in H.
  destruct (nth_error (g_rules g) (Z.to_nat (fst it))) as [rl|] eqn:E.
  - rewrite (nth_error_nth _ _ _ E) in H. apply nth_error_In in E. eauto.
  - rewrite nth_overflow in H by (apply nth_error_None; exact E). destruct H.
Qed.

Lemma inv_aut_total : aut_total g a.
Proof.
  intros q st it s Hq Hst Hit Es. destruct HI as (_ & _ & _ & HTOT).
  apply (HTOT q st s Hq); auto.
  - left. assert ((Z.to_nat q < length (a_states a))%nat) by (apply nth_error_Some; congruence). lia.
  - apply in_zrange. eapply sym_after_range; eauto.
  - intros E. pose proof (goto_kernel_has _ s it Hit Es) as H. unfold gk in E. rewrite E in H. destruct H.
Qed.
End Done.

Lemma wf_grammar_terms : wf_grammar g = true -> 0 <= g_terms g.
Proof. unfold wf_grammar. intros H. apply andb_true_iff in H. destruct H as [H _]. apply Z.leb_le. exact H. Qed.

Lemma wf_grammar_range : wf_grammar g = true ->
  (forall r, In r (g_rules g) -> g_terms g <= r_lhs r < g_terms g + g_nonterms g) /\
  (forall r s, In r (g_rules g) -> In s (r_rhs r) -> 0 <= s < nsyms g).
Proof.
  unfold wf_grammar. intros H. apply andb_true_iff in H. destruct H as [_ H]. rewrite forallb_forall in H. split.
  - intros r Hr. specialize (H r Hr). apply andb_true_iff in H. destruct H as [H _].
    apply andb_true_iff in H. destruct H as [H1 H2]. apply Z.leb_le in H1. apply Z.ltb_lt in H2. lia.
  - intros r s Hr Hs. specialize (H r Hr). apply andb_true_iff in H. destruct H as [_ H].
    rewrite forallb_forall in H. specialize (H s Hs). apply andb_true_iff in H. destruct H as [H1 H2].
    apply Z.leb_le in H1. apply Z.ltb_lt in H2. lia.
Qed.

(* the LR(0) collection before the final states are added *)
Theorem build_loop_complete fuel :
  wf_grammar g = true -> ref_done g fuel = true ->
  let a := build_loop fuel g (mkAut (start_states g) []) 0 in
  seeds_ok g a /\ aut_sound g a /\ starts_present g a /\ aut_complete g a /\ aut_total g a.
Proof.
  intros Hwf Hd a. destruct (wf_grammar_range Hwf) as [Hr1 Hr2].
  destruct (build_loop_inv2 fuel _ 0 start_INV Hd) as (k & Hk & HI). fold a in Hk, HI.
  split; [eapply inv_seeds_ok; eauto|]. split; [|split; [eapply inv_starts_present; eauto|split]].
  - intros q st it Hq Hst Hit. destruct (build_loop_sound g fuel q st Hq Hst) as (i & gamma & H1 & _ & H3). eauto.
  - eapply inv_aut_complete; eauto.
  - eapply inv_aut_total; eauto.
Qed.
End Loop.
