(* C07, completeness side: boolean validator for LALR(k) tables (DefaultEnc with deep Lalr rows) against an LR item
   certificate whose lookaheads are STRINGS of up to k terminals.
     check_kc g t rule_len rule_sym nstates finals k ftk kann = true
   is proved (ValidatorKC_proofs.v) to imply that the parse loop with deep rows accepts EVERY sentence.
   The certificate [kann] (items with k-lookahead strings per state) and [ftk] (FIRST_k table) are untrusted hints:
   the check only needs them to be closed under closure / goto propagation.
   A lookahead string shorter than k stands for all its continuations; after the first 0 (EOI) the input has ended.
   Executable definitions only. *)
From Coq Require Import List ZArith Bool Arith.
From TM Require Import Gram.Cfg Gram.PTables Gram.Run Gram.Validator.
Import ListNotations.
Local Open Scope Z_scope.

Definition kitem := (nat * nat * list (list Z))%type.    (* (rule index in the augmented grammar, dot, lookahead strings) *)
Definition kcert := list (list kitem).                    (* per state *)
Definition fk_table := list (Z * list (list Z)).          (* nonterminal -> FIRST_k *)

(* sets of strings as duplicate-free lists *)
Definition smem (x : list Z) (l : list (list Z)) : bool := existsb (zl_eqb x) l.
Definition sadd (x : list Z) (l : list (list Z)) : list (list Z) := if smem x l then l else x :: l.
Definition ssubset (a b : list (list Z)) : bool := forallb (fun x => smem x b) a.

(* { firstn k (a ++ b) } *)
Definition concat_k (k : nat) (A B : list (list Z)) : list (list Z) :=
  fold_left (fun acc a =>
      if (k <=? length a)%nat then sadd (firstn k a) acc
      else fold_left (fun acc b => sadd (firstn k (a ++ b)) acc) B acc) A [].

Fixpoint fk_get (t : fk_table) (x : Z) : list (list Z) :=
  match t with [] => [] | (y, l) :: rest => if y =? x then l else fk_get rest x end.

(* the deep-row walk over a window that must not be exhausted before the answer *)
Fixpoint walk_dec (t : default_enc) (a : Z) (more : list Z) : option Z :=
  if a <? -2 then match more with x :: more' => walk_dec t (lalr_lookup t a x) more' | [] => None end
  else Some a.

Fixpoint real_of (w : list Z) : list Z :=
  match w with [] => [] | a :: r => if a =? 0 then [] else a :: real_of r end.
Definition has_zero (w : list Z) : bool := existsb (Z.eqb 0) w.

Section VKC.
Variable g : grammar.
Variable t : default_enc.
Variable rule_len rule_sym : list Z.
Variable nstates : Z.
Variable finals : list Z.
Variable k : nat.
Variable ftk : fk_table.
Variable kann : kcert.

Definition kitems (q : Z) : list kitem := if q <? 0 then [] else nth (Z.to_nat q) kann [].
Definition kitem_incl (q : Z) (r d : nat) (L : list (list Z)) : bool :=
  existsb (fun it : kitem => let '(r', d', L') := it in Nat.eqb r' r && Nat.eqb d' d && ssubset L L') (kitems q).

Definition firstk_sym (X : Z) : list (list Z) := if X <? vT g then [firstn k [X]] else fk_get ftk X.
Fixpoint firstk_seq (xs : list Z) : list (list Z) :=
  match xs with [] => [[]] | x :: r => concat_k k (firstk_sym x) (firstk_seq r) end.

(* the answer of the cell (q, a) once the row walk has ended with v *)
Definition act_of (q a v : Z) : act :=
  if v >=? 0 then Reduce v
  else if v =? -1 then (let q' := goto_state t q a in if q' >=? 0 then Shift q' else Err)
  else Err.

(* the loop answers e in state q when the next terminal is a and the terminals after it begin with rest,
   without looking beyond rest *)
Definition decided (q a : Z) (rest : list Z) (e : act) : bool :=
  let a0 := zn (d_action t) q in
  let a1 := if a0 <? -2 then lalr_lookup t a0 a else a0 in
  match walk_dec t a1 rest with Some v => act_eqb (act_of q a v) e | None => false end.

(* the loop answers e in state q on every remaining input that begins with the lookahead string w *)
Definition act_ok (q : Z) (w : list Z) (e : act) : bool :=
  if has_zero w then
    let inp := real_of w in           (* the input ends inside the window: this is the very call of the loop *)
    act_eqb (default_act t q (match inp with x :: _ => x | [] => 0 end) (tl inp)) e
  else match w with
       | [] => forallb (fun a => decided q a [] e) (zrange0 (vT g))
       | a :: rest => decided q a rest e
       end.

Definition kc_ann_len : bool := Z.of_nat (length kann) <=? nstates.

Definition kc_rule_tabs : bool :=
  forallb (fun r => match nth_error (g_rules g) r with
                    | Some rl => (zn rule_len (Z.of_nat r) =? Z.of_nat (length (r_rhs rl))) && (zn rule_sym (Z.of_nat r) =? r_lhs rl)
                    | None => false end) (seq 0 (nrules g)).

Definition kc_firstk : bool :=
  forallb (fun rl => ssubset (firstk_seq (r_rhs rl)) (fk_get ftk (r_lhs rl))) (g_rules g).

(* the item after the dot symbol exists in the goto target and keeps the lookaheads; a terminal after the dot is
   shifted on every window that can follow *)
Definition kc_advance : bool :=
  forallb (fun q => forallb (fun it : kitem => let '(r, d, L) := it in
      match arule g r with
      | Some rl => match nth_error (r_rhs rl) d with
                   | Some X =>
                       let q' := goto_state t q X in
                       (0 <=? q') && kitem_incl q' r (S d) L &&
                       (if X <? vT g then
                          forallb (fun w => act_ok q w (Shift q'))
                                  (concat_k k [firstn k [X]] (concat_k k (firstk_seq (skipn (S d) (r_rhs rl))) L))
                        else true)
                   | None => true end
      | None => false end) (kitems q)) (zrange0 nstates).

(* closure: [A -> alpha . X beta, L] forces [X -> . gamma, FIRST_k(beta L)] in the same state *)
Definition kc_closure : bool :=
  forallb (fun q => forallb (fun it : kitem => let '(r, d, L) := it in
      match arule g r with
      | Some rl => match nth_error (r_rhs rl) d with
                   | Some X =>
                       if X <? vT g then true else
                       let l' := concat_k k (firstk_seq (skipn (S d) (r_rhs rl))) L in
                       forallb (fun r' => match nth_error (g_rules g) r' with
                                          | Some rl' => if r_lhs rl' =? X then kitem_incl q r' 0 l' else true
                                          | None => true end) (seq 0 (nrules g))
                   | None => true end
      | None => false end) (kitems q)) (zrange0 nstates).

(* a completed item of a real rule is reduced on every remaining input that begins with one of its lookahead strings *)
Definition kc_reduce : bool :=
  forallb (fun q => forallb (fun it : kitem => let '(r, d, L) := it in
      if (r <? nrules g)%nat then
        match nth_error (g_rules g) r with
        | Some rl => if Nat.eqb d (length (r_rhs rl))
                     then forallb (fun w => act_ok q w (Reduce (Z.of_nat r))) L else true
        | None => false end
      else true) (kitems q)) (zrange0 nstates).

(* start items (any continuation may follow the augmented rule) and the wiring of the accepting states *)
Definition kc_inputs : bool :=
  (Z.of_nat (ninputs g) <=? nstates) &&
  forallb (fun i =>
      match nth_error (g_inputs g) i with
      | Some (nt, eoi) =>
          kitem_incl (Z.of_nat i) (nrules g + i) 0 [[]] &&
          (if eoi : bool then goto_state t (goto_state t (Z.of_nat i) nt) 0 =? final_of finals i
           else goto_state t (Z.of_nat i) nt =? final_of finals i)
      | None => false end) (seq 0 (ninputs g)).

Definition check_kc : bool :=
  chk_rules g && kc_ann_len && kc_rule_tabs && kc_firstk && kc_advance && kc_closure && kc_reduce && kc_inputs.

Definition check_kc_report : Z :=
  if negb (chk_rules g) then 1 else if negb kc_ann_len then 14 else if negb kc_rule_tabs then 21 else
  if negb kc_firstk then 22 else if negb kc_advance then 23 else if negb kc_closure then 24 else
  if negb kc_reduce then 25 else if negb kc_inputs then 26 else 0.
End VKC.
