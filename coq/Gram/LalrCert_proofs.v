(* C03: the automaton certificate of LalrCert.v implies the hypotheses of lalr_la_sound / lalr_la_complete. *)
From Coq Require Import List ZArith Bool Arith Lia.
From TM Require Import Gram.Cfg Gram.Derive Gram.LalrRef Gram.LalrSpec Gram.LalrSpec_proofs Gram.LalrSpec_proofs2
                       Gram.LalrCert.
Import ListNotations.
Local Open Scope Z_scope.

Lemma ins_item_In x y l : In y (ins_item x l) <-> y = x \/ In y l.
Proof.
  induction l as [|z t IH]; simpl.
  - intuition.
  - destruct (item_ltb x z); [simpl; intuition|].
    destruct (item_eqb x z) eqn:E2.
    + apply item_eqb_eq in E2. subst. simpl. intuition.
    + simpl. rewrite IH. intuition.
Qed.

Lemma mem_item_In x l : mem_item x l = true <-> In x l.
Proof.
  unfold mem_item. rewrite existsb_exists. split.
  - intros (y & Hy & E). apply item_eqb_eq in E. subst; auto.
  - intros H; exists x; split; auto. apply item_eqb_eq. reflexivity.
Qed.

Section Closure.
Variable g : grammar.

Lemma add_rules_In (s : Z) acc y :
  In y (fold_left (fun acc r => ins_item (r, 0) acc) (rules_of g s) acc) <->
  In y acc \/ exists r, In r (rules_of g s) /\ y = (r, 0).
Proof.
  revert acc. induction (rules_of g s) as [|r rs IH]; intros acc; simpl.
  - split; [auto|intros [H|(r & [] & _)]; auto].
  - rewrite IH, ins_item_In. split.
    + intros [[->|H]|(r' & Hr' & ->)]; eauto.
    + intros [H|(r' & [<-|Hr'] & ->)]; eauto.
Qed.

Lemma closure_sound (P : item -> Prop) kernel seed :
  (forall it, In it kernel -> P it) ->
  (forall nt r, seed = Some nt -> In r (rules_of g nt) -> P (r, 0)) ->
  (forall it s r, P it -> sym_after g it = Some s -> is_term g s = false -> In r (rules_of g s) -> P (r, 0)) ->
  forall it, In it (closure g kernel seed) -> P it.
Proof.
  intros Hk Hs Hc. unfold closure.
  apply (iterate_inv (fun l => forall it, In it l -> P it)).
  - destruct seed as [nt|]; auto. intros it Hit. apply add_rules_In in Hit.
    destruct Hit as [Hit|(r & Hr & ->)]; eauto.
  - intros its Hits. unfold closure_step.
    apply (fold_left_inv (fun l => forall it, In it l -> P it)); auto.
    intros acc it Hit Hacc. destruct (sym_after g it) as [s|] eqn:Es; auto.
    destruct (is_term g s) eqn:Et; auto. intros y Hy. apply add_rules_In in Hy.
    destruct Hy as [Hy|(r & Hr & ->)]; eauto.
Qed.

Lemma closure_step_incl its : incl its (closure_step g its).
Proof.
  unfold closure_step. apply (fold_left_inv (fun l => incl its l)); [apply incl_refl|].
  intros acc it _ Hacc. destruct (sym_after g it) as [s|]; auto. destruct (is_term g s); auto.
  intros y Hy. apply add_rules_In. left. auto.
Qed.

Lemma closure_incl_kernel kernel seed : incl kernel (closure g kernel seed).
Proof.
  unfold closure. apply (iterate_inv (fun l => incl kernel l)).
  - destruct seed; [|apply incl_refl]. intros y Hy. apply add_rules_In. auto.
  - intros its H. eapply incl_tran; [exact H|apply closure_step_incl].
Qed.

Lemma closure_incl_seed kernel nt r : In r (rules_of g nt) -> In (r, 0) (closure g kernel (Some nt)).
Proof.
  intros Hr. unfold closure. apply (iterate_inv (fun l => In (r, 0) l)).
  - apply add_rules_In. right. eauto.
  - intros its H. apply closure_step_incl. exact H.
Qed.
End Closure.

Section Cert.
Variable g : grammar.
Variable a : automaton.
Hypothesis Hcert : aut_cert g a = true.

Lemma cert_parts : cert_starts g a = true /\ cert_seeds g a = true /\
  forall q st, 0 <= q -> nth_error (a_states a) (Z.to_nat q) = Some st ->
               cert_sound_state g a (ranks a) q st = true /\ cert_complete_state g a q st = true.
Proof.
  unfold aut_cert in Hcert. apply andb_true_iff in Hcert. destruct Hcert as [H12 H3].
  apply andb_true_iff in H12. destruct H12 as [H1 H2]. repeat split; auto;
  rewrite forallb_forall in H3; specialize (H3 (q, st)); cbv beta iota in H3;
  apply andb_true_iff in H3; try apply H3; apply in_combine_zrange; auto.
Qed.

Lemma cert_starts_present : starts_present g a.
Proof.
  destruct cert_parts as (H & _ & _). intros i nt e Hi Hinp.
  unfold cert_starts in H. rewrite forallb_forall in H. specialize (H (i, (nt, e))). cbv beta iota in H.
  assert (Hin : In (i, (nt, e)) (indexed (g_inputs g))) by (apply in_combine_zrange; auto).
  apply H in Hin. destruct (nth_error (a_states a) (Z.to_nat i)) as [st|]; [|discriminate].
  exists st. apply andb_true_iff in Hin. destruct Hin as [H1 H2]. apply Z.eqb_eq in H2.
  destruct (s_seed st) as [nt'|]; [|discriminate]. apply Z.eqb_eq in H1. simpl in H1. subst. auto.
Qed.

Lemma cert_seeds_ok : seeds_ok g a.
Proof.
  destruct cert_parts as (_ & H & _). intros q st nt Hq Hst Hseed Hk.
  unfold cert_seeds in H. rewrite forallb_forall in H. specialize (H (q, st)). cbv beta iota in H.
  assert (Hin : In (q, st) (indexed (a_states a))) by (apply in_combine_zrange; auto).
  apply H in Hin. rewrite Hseed, Hk in Hin. simpl in Hin.
  destruct (nth_error (g_inputs g) (Z.to_nat q)) as [[nt' e]|]; [|discriminate].
  apply Z.eqb_eq in Hin. subst. eauto.
Qed.

Lemma cert_aut_sound : aut_sound g a.
Proof.
  destruct cert_parts as (_ & _ & H).
  assert (Hgen : forall n q st it, Z.to_nat (rank_of (ranks a) q) = n -> 0 <= q -> nth_error (a_states a) (Z.to_nat q) = Some st ->
            In it (st_items g st) -> exists i gamma, reach a i gamma q /\ lr0_valid g i gamma it).
  { induction n as [n IH] using lt_wf_ind. intros q st it Hn Hq Hst Hit.
    destruct (H q st Hq Hst) as [Hs _]. unfold cert_sound_state in Hs.
    destruct (s_seed st) as [nt|] eqn:Eseed.
    - destruct (s_kind st =? 0) eqn:Ek.
      + apply Z.eqb_eq in Ek. destruct (cert_seeds_ok q st nt Hq Hst Eseed Ek) as [e He].
        exists q, []. split; [constructor|]. revert it Hit. unfold st_items. rewrite Eseed.
        apply closure_sound.
        * destruct (s_kernel st); [intros it []|discriminate].
        * intros nt' r [= <-] Hr. eapply l0_start; eauto.
        * intros it s r Hv Es Et Hr. eapply l0_closure; eauto.
      + destruct (st_items g st); [destruct Hit|discriminate].
    - apply existsb_exists in Hs. destruct Hs as ([[f s] t] & Htr & Hs).
      repeat (apply andb_true_iff in Hs; destruct Hs as [Hs ?]).
      apply Z.eqb_eq in Hs. subst t.
      match goal with H0 : (0 <=? f) = true |- _ => apply Z.leb_le in H0 end.
      match goal with H0 : (_ && (_ <? _)) = true |- _ =>
        apply andb_true_iff in H0; destruct H0 as [Hrk1 Hrk2]; apply Z.leb_le in Hrk1; apply Z.ltb_lt in Hrk2 end.
      destruct (trans_target a f s) as [t'|] eqn:Etr; [|discriminate].
      match goal with H0 : (t' =? q) = true |- _ => apply Z.eqb_eq in H0; subst t' end.
      destruct (nth_error (a_states a) (Z.to_nat f)) as [stf|] eqn:Estf; [|discriminate].
      match goal with H0 : forallb _ (s_kernel st) = true |- _ => rename H0 into Hker end.
      rewrite forallb_forall in Hker.
      revert it Hit. unfold st_items. rewrite Eseed.
      apply (closure_sound g (fun it => exists i gamma, reach a i gamma q /\ lr0_valid g i gamma it)).
      + intros it Hit. apply Hker in Hit. apply andb_true_iff in Hit. destruct Hit as [Hm1 Hm2].
        apply mem_item_In in Hm1.
        destruct (sym_after g (fst it, snd it - 1)) as [s'|] eqn:Es; [|discriminate].
        apply Z.eqb_eq in Hm2. subst s'.
        destruct (IH (Z.to_nat (rank_of (ranks a) f)) ltac:(lia) f stf _ eq_refl ltac:(lia) Estf Hm1) as (i & gamma & Hr & Hv).
        exists i, (gamma ++ [s]). split; [econstructor; eauto|].
        replace it with (fst (fst it, snd it - 1), snd (fst it, snd it - 1) + 1)
          by (destruct it; simpl; f_equal; lia).
        apply l0_goto; auto.
      + intros nt r [=].
      + intros it s0 r (i & gamma & Hr & Hv) Es Et Hrr. exists i, gamma. split; auto.
        eapply l0_closure; eauto. }
  intros q st it Hq Hst Hit. eapply Hgen; eauto.
Qed.

Lemma cert_aut_complete : aut_complete g a.
Proof.
  destruct cert_parts as (_ & _ & H). intros i gamma q it Hreach Hv. revert q Hreach.
  induction Hv as [nt eoi r Hi Hinp Hr|gamma it B r Hv IH Es Et Hr|gamma it X Hv IH Es]; intros q Hreach.
  - apply reach_nil_inv in Hreach. subst q. split; auto.
    destruct (cert_starts_present i nt eoi Hi Hinp) as (st & Hst & Hseed & Hk).
    exists st. split; auto. rewrite Hseed. apply closure_incl_seed. exact Hr.
  - destruct (IH q Hreach) as (Hq & st & Hst & Hit). split; auto. exists st. split; auto.
    destruct (H q st Hq Hst) as [_ Hc]. unfold cert_complete_state in Hc. rewrite forallb_forall in Hc.
    specialize (Hc it Hit). rewrite Es, Et in Hc. simpl in Hc. apply andb_true_iff in Hc. destruct Hc as [Hc _].
    rewrite forallb_forall in Hc. apply mem_item_In. apply Hc. exact Hr.
  - apply reach_snoc_inv in Hreach. destruct Hreach as (q0 & Hreach & Htr).
    destruct (IH q0 Hreach) as (Hq & st & Hst & Hit).
    destruct (H q0 st Hq Hst) as [_ Hc]. unfold cert_complete_state in Hc. rewrite forallb_forall in Hc.
    specialize (Hc it Hit). rewrite Es, Htr in Hc. apply andb_true_iff in Hc. destruct Hc as [_ Hc].
    apply andb_true_iff in Hc. destruct Hc as [Hq' Hc]. apply Z.leb_le in Hq'. split; auto.
    destruct (nth_error (a_states a) (Z.to_nat q)) as [st'|]; [|discriminate].
    exists st'. split; auto. apply mem_item_In. exact Hc.
Qed.
Lemma cert_aut_total : aut_total g a.
Proof.
  destruct cert_parts as (_ & _ & H). intros q st it s Hq Hst Hit Es.
  destruct (H q st Hq Hst) as [_ Hc]. unfold cert_complete_state in Hc. rewrite forallb_forall in Hc.
  specialize (Hc it Hit). rewrite Es in Hc. apply andb_true_iff in Hc. destruct Hc as [_ Hc].
  destruct (trans_target a q s) as [q'|]; [eauto|discriminate].
Qed.

(* every viable prefix is traced by the automaton, and the state it leads to holds the item *)
Lemma cert_lr0_reached i gamma it : lr0_valid g i gamma it ->
  exists q st, reach a i gamma q /\ 0 <= q /\ nth_error (a_states a) (Z.to_nat q) = Some st /\
               In it (closure g (s_kernel st) (s_seed st)).
Proof.
  intros Hv.
  assert (Hr : exists q, reach a i gamma q).
  { induction Hv as [nt eoi r Hi Hinp Hr|gamma it B r Hv IH Es Et Hr|gamma it X Hv IH Es].
    - exists i. constructor.
    - exact IH.
    - destruct IH as [q Hq]. destruct (cert_aut_complete i gamma q it Hq Hv) as (Hq0 & st & Hst & Hit).
      destruct (cert_aut_total q st it X Hq0 Hst Hit Es) as [q' Hq']. exists q'. econstructor; eauto. }
  destruct Hr as [q Hq]. destruct (cert_aut_complete i gamma q it Hq Hv) as (Hq0 & st & Hst & Hit).
  exists q, st. auto.
Qed.
End Cert.

(* ---------- the LALR(1) theorem for a certified automaton ---------- *)
Theorem lalr_la_exact g a fuel : la_cert g a fuel = true ->
  forall q it x, In x (la_get (lalr_la g a fuel) q it) <-> lalr1 g a q it x.
Proof.
  intros H. unfold la_cert in H. repeat (apply andb_true_iff in H; destruct H as [H ?]).
  intros q it x. split.
  - apply lalr_la_sound; [apply cert_seeds_ok|apply cert_aut_sound]; auto.
  - apply lalr_la_complete; auto; [apply cert_starts_present|apply cert_aut_complete]; auto.
Qed.

Theorem lalr_la_sound_cert g a fuel : aut_cert g a = true ->
  forall q it x, In x (la_get (lalr_la g a fuel) q it) -> lalr1 g a q it x.
Proof. intros H q it x. apply lalr_la_sound; [apply cert_seeds_ok|apply cert_aut_sound]; auto. Qed.

(* every LR(1)-valid lookahead of every viable prefix is found in the table, in the state the prefix leads to *)
Theorem lalr_la_covers g a fuel : la_cert g a fuel = true ->
  forall i gamma it x, lr1_valid g i gamma it x ->
  exists q, reach a i gamma q /\ In x (la_get (lalr_la g a fuel) q it).
Proof.
  intros H i gamma it x Hv. pose proof H as H0.
  unfold la_cert in H. repeat (apply andb_true_iff in H; destruct H as [H ?]).
  destruct (cert_lr0_reached g a ltac:(assumption) i gamma it (lr1_lr0 _ _ _ _ _ Hv)) as (q & st & Hr & _).
  exists q. split; auto. apply (proj2 (lalr_la_exact g a fuel H0 q it x)). exists i, gamma. auto.
Qed.
