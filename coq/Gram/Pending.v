(* C20: the listener events of the generated parser INCLUDING the reported skipped tokens (comments injected
   with %inject, invalid_token): go_parser.go.tmpl fetchNext / flush / reportIgnoredToken (the TokenStream of
   go_stream.go.tmpl has the same next / flush) on top of the event loop of Events.v.

   - the lexer's output is a list of real tokens and reported skipped tokens (ltok), in lexer order;
   - fetchNext ("restart: tok := lexer.Next(); case <reported token>: p.pending = append(p.pending, tok); goto
     restart") moves the skipped tokens in front of the next real token to the end of the pending list;
   - flush(sym) reports the pending tokens from the front while tok.endoffset <= sym.endoffset and keeps the rest;
   - the template calls flush ONLY when a token is shifted (after the push, with sym = p.next), never in a
     reduction: nodes reported by applyRule between two shifts precede the skipped tokens of the gap.
   The template fetches lazily (only when p.next.symbol == noToken and the action needs a lookahead or an empty
   rule needs an offset); the model fetches at the start of every step. The emitted stream is the same: flush
   only runs in a shift, where p.next has always been fetched, and the lexer does not depend on the parser.
   Lookahead symbols (LALR(k) rows) are real tokens only (lookaheadNext skips the reported ones).
   Executable definitions only. *)
From Coq Require Import List ZArith Bool Arith.
From TM Require Import Gram.PTables Gram.Run Gram.Events.
Import ListNotations.
Local Open Scope Z_scope.

(* a skipped token as it is reported: (node type, offset, endoffset) *)
Inductive ltok := LReal (t : tok) | LSkip (s : event).

Definition s_off (s : event) : Z := snd (fst s).
Definition s_end (s : event) : Z := snd s.
Definition s_range (s : event) : range := (s_off s, s_end s).
Definition l_range (x : ltok) : range := match x with LReal t => (t_off t, t_end t) | LSkip s => s_range s end.

Fixpoint reals (l : list ltok) : list tok :=
  match l with [] => [] | LReal t :: r => t :: reals r | LSkip _ :: r => reals r end.
Fixpoint skipped (l : list ltok) : list event :=
  match l with [] => [] | LReal _ :: r => skipped r | LSkip s :: r => s :: skipped r end.

(* fetchNext *)
Fixpoint fetch_next (pending : list event) (lex : list ltok) : list event * list ltok :=
  match lex with
  | LSkip s :: rest => fetch_next (pending ++ [s]) rest
  | _ => (pending, lex)
  end.

(* flush(sym): (reported, kept) *)
Fixpoint flush (pending : list event) (sym_end : Z) : list event * list event :=
  match pending with
  | [] => ([], [])
  | tok :: rest =>
      if s_end tok >? sym_end then ([], pending)
      else let '(r, k) := flush rest sym_end in (tok :: r, k)
  end.

(* listener callbacks, tagged by their origin *)
Inductive pevent := PNode (e : event) | PSkip (e : event).
Definition untag (x : pevent) : event := match x with PNode e => e | PSkip e => e end.
Fixpoint nodes_of (l : list pevent) : list event :=
  match l with [] => [] | PNode e :: r => e :: nodes_of r | PSkip _ :: r => nodes_of r end.
Fixpoint skips_of (l : list pevent) : list event :=
  match l with [] => [] | PNode _ :: r => skips_of r | PSkip e :: r => e :: skips_of r end.

Record pconfig := mkPC {
  pc_stack : list xentry;       (* top first *)
  pc_state : Z;
  pc_lex : list ltok;           (* what the lexer has not produced yet, or p.next (a real token) first *)
  pc_pending : list event;      (* p.pending *)
  pc_events : list pevent       (* in emission order *)
}.

Inductive pstep_result := PContinue (c : pconfig) | PStop (o : outcome).

Definition pstep (m : machine) (evt : ev_table) (fixws : bool) (eoi_off : Z) (c : pconfig) : pstep_result :=
  let '(pending, lex) := fetch_next (pc_pending c) (pc_lex c) in
  let input := reals lex in
  let nx := next_tok eoi_off input in
  match m_act m (pc_state c) (t_sym nx) (map t_sym (tl input)) with
  | Reduce rule =>
      let ln := Z.to_nat (m_rule_len m rule) in
      if (length (pc_stack c) <=? ln)%nat then PStop (Crash 1)
      else
        let rhs := rev (firstn ln (pc_stack c)) in
        let rest := skipn ln (pc_stack c) in
        let '(off, endoff) := lhs_range (map range_of rhs) (t_off nx) in
        let '(evs, endoff') := apply_rule fixws (ev_at evt rule) (map range_of rhs) off endoff in
        let below := match rest with b :: _ => x_state b | [] => -1 end in
        let sym := m_rule_sym m rule in
        let st := m_goto m below sym in
        if st =? -1 then PStop (SyntaxError (t_off nx) (t_end nx) 0)
        else PContinue (mkPC (mkX sym off endoff' st (TNode rule (map x_tree rhs)) :: rest) st lex pending
                             (pc_events c ++ map PNode evs))
  | Shift st =>
      let '(reported, kept) := flush pending (t_end nx) in
      let lex' := if t_sym nx =? 0 then lex else tl lex in
      PContinue (mkPC (mkX (t_sym nx) (t_off nx) (t_end nx) st (TLeaf (t_sym nx) (t_off nx) (t_end nx)) :: pc_stack c)
                      st lex' kept (pc_events c ++ map PSkip reported))
  | _ => PStop (SyntaxError (t_off nx) (t_end nx) 0)
  end.

Fixpoint pxrun_loop (fuel : nat) (m : machine) (evt : ev_table) (fixws : bool) (eoi_off end_state : Z) (c : pconfig)
  : outcome * pconfig :=
  match fuel with
  | O => (OutOfFuel, c)
  | S f =>
      if pc_state c =? end_state then (Accept, c)
      else match pstep m evt fixws eoi_off c with
           | PContinue c' => pxrun_loop f m evt fixws eoi_off end_state c'
           | PStop o => (o, c)
           end
  end.

Definition pxrun (fuel : nat) (m : machine) (evt : ev_table) (fixws : bool) (start end_state eoi_off : Z) (lex : list ltok)
  : outcome * pconfig :=
  pxrun_loop fuel m evt fixws eoi_off end_state (mkPC [mkX 0 0 0 start (TLeaf 0 0 0)] start lex [] []).

(* the run of Events.v this one refines: the real tokens only, the node events only *)
Definition erase (c : pconfig) : xconfig :=
  mkXC (pc_stack c) (pc_state c) (reals (pc_lex c)) (nodes_of (pc_events c)).

(* the whole listener stream *)
Definition stream_of (c : pconfig) : list event := map untag (pc_events c).
