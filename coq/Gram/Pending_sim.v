(* C20: the loop with pending skipped tokens (Pending.v) refines the event loop of Events.v: erasing the skipped
   tokens from the lexer output and their events from the stream gives exactly the run of Events.xrun, and the
   skipped tokens are reported in lexer order, none lost, none twice. No hypotheses. *)
From Coq Require Import List ZArith Bool Arith Lia.
From TM Require Import Lib.ListX Gram.PTables Gram.Run Gram.Events Gram.Pending.
Import ListNotations.
Local Open Scope Z_scope.

Lemma nodes_of_app a b : nodes_of (a ++ b) = nodes_of a ++ nodes_of b.
Proof. induction a as [|[e|e] a IH]; simpl; [reflexivity| |]; rewrite IH; reflexivity. Qed.

Lemma skips_of_app a b : skips_of (a ++ b) = skips_of a ++ skips_of b.
Proof. induction a as [|[e|e] a IH]; simpl; [reflexivity| |]; rewrite IH; reflexivity. Qed.

Lemma nodes_of_PNode l : nodes_of (map PNode l) = l.
Proof. induction l as [|x l IH]; simpl; [reflexivity|]. rewrite IH. reflexivity. Qed.

Lemma nodes_of_PSkip l : nodes_of (map PSkip l) = [].
Proof. induction l as [|x l IH]; simpl; [reflexivity|]. exact IH. Qed.

Lemma skips_of_PNode l : skips_of (map PNode l) = [].
Proof. induction l as [|x l IH]; simpl; [reflexivity|]. exact IH. Qed.

Lemma skips_of_PSkip l : skips_of (map PSkip l) = l.
Proof. induction l as [|x l IH]; simpl; [reflexivity|]. rewrite IH. reflexivity. Qed.

Definition head_real (l : list ltok) : Prop := match l with LSkip _ :: _ => False | _ => True end.

Lemma fetch_next_spec lex : forall p p' lex', fetch_next p lex = (p', lex') ->
  reals lex' = reals lex /\ p' ++ skipped lex' = p ++ skipped lex /\
  map s_range p' ++ map l_range lex' = map s_range p ++ map l_range lex /\ head_real lex'.
Proof.
  induction lex as [|[t|s] rest IH]; intros p p' lex' H; simpl in H.
  - injection H as <- <-. repeat split.
  - injection H as <- <-. repeat split.
  - apply IH in H. destruct H as (H1 & H2 & H3 & H4). simpl. rewrite H1, H2, H3, map_app, <- !app_assoc. simpl.
    repeat split. exact H4.
Qed.

Lemma reals_tl l : head_real l -> reals (tl l) = tl (reals l).
Proof. destruct l as [|[t|s] r]; simpl; intros H; [reflexivity|reflexivity|destruct H]. Qed.

Lemma skipped_tl l : head_real l -> skipped (tl l) = skipped l.
Proof. destruct l as [|[t|s] r]; simpl; intros H; [reflexivity|reflexivity|destruct H]. Qed.

Lemma flush_app e : forall p r k, flush p e = (r, k) -> r ++ k = p.
Proof.
  induction p as [|t p IH]; intros r k H; simpl in H.
  - injection H as <- <-. reflexivity.
  - destruct (s_end t >? e).
    + injection H as <- <-. reflexivity.
    + destruct (flush p e) as [r1 k1]. injection H as <- <-. simpl. rewrite (IH _ _ eq_refl). reflexivity.
Qed.

(* the skipped tokens: reported so far, pending, not yet produced by the lexer *)
Definition acct (c : pconfig) : list event := skips_of (pc_events c) ++ pc_pending c ++ skipped (pc_lex c).

Lemma pstep_sim m evt fixws E c :
  match pstep m evt fixws E c with
  | PContinue c' => xstep m evt fixws E (erase c) = XContinue (erase c') /\ acct c' = acct c
  | PStop o => xstep m evt fixws E (erase c) = XStop o
  end.
Proof.
  destruct c as [stk sta lx pd evs0].
  unfold pstep, xstep, acct, erase. cbn [pc_stack pc_state pc_lex pc_pending pc_events xc_input xc_state xc_stack xc_events].
  destruct (fetch_next pd lx) as [pending lex] eqn:Ef.
  destruct (fetch_next_spec _ _ _ _ Ef) as (Hr & Hs & _ & Hh).
  rewrite <- Hr, <- Hs.
  destruct (m_act m sta (t_sym (next_tok E (reals lex))) (map t_sym (tl (reals lex)))) as [q|rule| |row].
  - destruct (flush pending (t_end (next_tok E (reals lex)))) as [rep kept] eqn:Efl.
    apply flush_app in Efl. subst pending. cbn [pc_stack pc_state pc_lex pc_pending pc_events].
    rewrite nodes_of_app, nodes_of_PSkip, app_nil_r, skips_of_app, skips_of_PSkip, <- !app_assoc.
    destruct (t_sym (next_tok E (reals lex)) =? 0).
    + split; reflexivity.
    + rewrite (reals_tl _ Hh), (skipped_tl _ Hh). split; reflexivity.
  - destruct (length stk <=? Z.to_nat (m_rule_len m rule))%nat; [reflexivity|].
    destruct (lhs_range _ _) as [off endoff]. destruct (apply_rule _ _ _ _ _) as [evs endoff'].
    destruct (_ =? -1); [reflexivity|].
    cbn [pc_stack pc_state pc_lex pc_pending pc_events].
    rewrite nodes_of_app, nodes_of_PNode, skips_of_app, skips_of_PNode, app_nil_r. split; reflexivity.
  - reflexivity.
  - reflexivity.
Qed.

Lemma pxrun_loop_sim m evt fixws E end_state fuel : forall c o c',
  pxrun_loop fuel m evt fixws E end_state c = (o, c') ->
  xrun_loop fuel m evt fixws E end_state (erase c) = (o, erase c') /\ acct c' = acct c.
Proof.
  induction fuel as [|f IH]; intros c o c' H; cbn [pxrun_loop xrun_loop] in *.
  - injection H as <- <-. split; reflexivity.
  - change (xc_state (erase c)) with (pc_state c). destruct (pc_state c =? end_state).
    + injection H as <- <-. split; reflexivity.
    + pose proof (pstep_sim m evt fixws E c) as S. destruct (pstep m evt fixws E c) as [c1|o1].
      * destruct S as [S1 S2]. rewrite S1. destruct (IH _ _ _ H) as [I1 I2]. split; [exact I1|congruence].
      * rewrite S. injection H as <- <-. split; reflexivity.
Qed.

(* (1) projection: the node events are exactly the stream of Events.xrun on the real tokens (same outcome, stack and
   remaining real input); the reported skipped tokens followed by the pending and the unread ones are the skipped
   tokens of the lexer output, in lexer order. *)
Theorem pxrun_sim m evt fixws fuel start end_state E lex o c' :
  pxrun fuel m evt fixws start end_state E lex = (o, c') ->
  xrun fuel m evt fixws start end_state E (reals lex) = (o, erase c') /\
  skips_of (pc_events c') ++ pc_pending c' ++ skipped (pc_lex c') = skipped lex.
Proof.
  unfold pxrun, xrun. intros H. apply pxrun_loop_sim in H. destruct H as [H1 H2]. split; [exact H1|exact H2].
Qed.

(* the tagged stream is an interleaving of its two projections (definitional): every callback is a node event or a
   skipped-token event, in emission order *)
Lemma stream_split (l : list pevent) :
  length l = (length (nodes_of l) + length (skips_of l))%nat /\
  forall e, In e (map untag l) <-> In e (nodes_of l) \/ In e (skips_of l).
Proof.
  induction l as [|[x|x] l [IH1 IH2]]; simpl.
  - split; [reflexivity|]. intros e. tauto.
  - split; [lia|]. intros e. rewrite IH2. tauto.
  - split; [lia|]. intros e. rewrite IH2. tauto.
Qed.
