(* C01: boolean validator of (grammar, parser machine, item/lookahead certificate).
   check g m nstates finals nl ft ann = true  is proved (Validator_proofs.v) to imply, for EVERY token
   sequence, that the generated parser's main loop (Run.run_loop) accepts exactly the sentences of the
   selected input, never crashes and reports errors at the first non-viable token.
   The certificate [ann] (LR items with lookahead sets per state) and the tables [nl] (nullable
   nonterminals) and [ft] (FIRST sets) are untrusted inputs: the check only needs them to be closed.
   Executable definitions only. *)
From Coq Require Import List ZArith Bool Arith.
From TM Require Import Gram.Cfg Gram.PTables Gram.Run.
Import ListNotations.
Local Open Scope Z_scope.

Definition citem := (nat * nat * list Z)%type.     (* (rule index in the augmented grammar, dot, lookaheads) *)
Definition cert := list (list citem).              (* per state *)

(* LALR(1) machines: the action does not look beyond the next terminal *)
Definition lalr1_machine (t : default_enc) (rule_len rule_sym : list Z) : machine :=
  mkMachine (fun s a _ => match action_default t s a with Deep _ => Err | x => x end)
            (goto_state t) (zn rule_len) (zn rule_sym).

Definition zrange0 (n : Z) : list Z := map Z.of_nat (seq 0 (Z.to_nat n)).
Definition subset (a b : list Z) : bool := forallb (fun x => mem x b) a.

Section V.
Variable g : grammar.
Variable m : machine.
Variable nstates : Z.
Variable finals : list Z.
Variable nl : list Z.             (* nullable nonterminals (certificate) *)
Variable ft : first_table.        (* FIRST sets (certificate) *)
Variable ann : cert.

Definition vT : Z := g_terms g.
Definition vNS : Z := g_terms g + g_nonterms g.
Definition nrules : nat := length (g_rules g).
Definition ninputs : nat := length (g_inputs g).

(* rule number nrules + i is the augmented rule of input i:  S'_i -> S_i EOI   or   S'_i -> S_i (no-eoi) *)
Definition aug_rule (i : nat) : option rule :=
  match nth_error (g_inputs g) i with
  | Some (nt, eoi) => Some (mkRule (vNS + Z.of_nat i) (if eoi : bool then [nt; 0] else [nt]) 0)
  | None => None
  end.
Definition arule (r : nat) : option rule :=
  if (r <? nrules)%nat then nth_error (g_rules g) r else aug_rule (r - nrules).

Definition items (q : Z) : list citem := if q <? 0 then [] else nth (Z.to_nat q) ann [].
Definition has_item (q : Z) (r d : nat) : bool :=
  existsb (fun it : citem => let '(r', d', _) := it in Nat.eqb r' r && Nat.eqb d' d) (items q).
Definition item_la_incl (q : Z) (r d : nat) (L : list Z) : bool :=
  existsb (fun it : citem => let '(r', d', L') := it in Nat.eqb r' r && Nat.eqb d' d && subset L L') (items q).

(* transition function read off the machine: shifts for terminals, gotos for nonterminals *)
Definition trans (p X : Z) : Z :=
  if X <? vT then match m_act m p X [] with Shift q => q | _ => -1 end else m_goto m p X.

Definition states : list Z := zrange0 nstates.

(* ---- grammar shape ---- *)
Definition chk_rules : bool :=
  (1 <=? vT) && (0 <=? g_nonterms g) &&
  forallb (fun rl => (vT <=? r_lhs rl) && (r_lhs rl <? vNS) && forallb (fun s => (1 <=? s) && (s <? vNS)) (r_rhs rl)) (g_rules g) &&
  forallb (fun inp : Z * bool => (vT <=? fst inp) && (fst inp <? vNS)) (g_inputs g).

Definition chk_items : bool :=
  forallb (fun q => forallb (fun it : citem => let '(r, d, L) := it in
      match arule r with
      | Some rl => (d <=? length (r_rhs rl))%nat && forallb (fun a => (0 <=? a) && (a <? vT)) L
      | None => false end) (items q)) states.

(* ---- soundness side ---- *)
(* every item with the dot after X in a target of a transition on X comes from the source *)
Definition chk_trans : bool :=
  forallb (fun p => forallb (fun X =>
      let q := trans p X in
      if q <? 0 then true else
      (Z.of_nat ninputs <=? q) && (q <? nstates) &&
      forallb (fun it : citem => let '(r, d, _) := it in
          match d with
          | O => true
          | S d' => match arule r with
                    | Some rl => match nth_error (r_rhs rl) d' with Some Y => Y =? X | None => false end && has_item p r d'
                    | None => false end
          end) (items q)) (zrange0 vNS)) states.

(* a reduction is only taken where its completed item sits; rule tables agree with the grammar; no LALR(k) rows *)
Definition chk_reduce : bool :=
  forallb (fun p => forallb (fun a =>
      match m_act m p a [] with
      | Reduce r =>
          (0 <=? r) && (Z.to_nat r <? nrules)%nat &&
          match nth_error (g_rules g) (Z.to_nat r) with
          | Some rl => has_item p (Z.to_nat r) (length (r_rhs rl)) &&
                       (m_rule_len m r =? Z.of_nat (length (r_rhs rl))) && (m_rule_sym m r =? r_lhs rl)
          | None => false end
      | Deep _ => false
      | Shift q => 0 <=? q
      | Err => true
      end) (zrange0 vT)) states.

Definition chk_ann_len : bool := Z.of_nat (length ann) <=? nstates.

Definition chk_start : bool :=
  forallb (fun i => forallb (fun it : citem => let '(_, d, _) := it in Nat.eqb d 0) (items (Z.of_nat i))) (seq 0 ninputs).

Definition final_of (i : nat) : Z := nth i finals (-1).

Definition chk_final : bool :=
  (Z.of_nat ninputs <=? nstates) && Nat.eqb (length finals) ninputs &&
  forallb (fun i =>
      match nth_error (g_inputs g) i with
      | Some (nt, eoi) =>
          has_item (final_of i) (nrules + i) (if eoi : bool then 2 else 1) &&
          forallb (fun q => negb (has_item q (nrules + i) 0) || (q =? Z.of_nat i)) states
      | None => false end) (seq 0 ninputs).

(* a state holding [A -> . alpha] has a goto on A (so a reduction never falls off the table) *)
Definition chk_goto_def : bool :=
  forallb (fun b => forallb (fun it : citem => let '(r, d, _) := it in
      if Nat.eqb d 0 && (r <? nrules)%nat then
        match nth_error (g_rules g) r with Some rl => 0 <=? m_goto m b (r_lhs rl) | None => false end
      else true) (items b)) states.

(* ---- completeness side ---- *)
(* the item after the dot symbol exists in the transition target and keeps the lookaheads *)
Definition chk_advance : bool :=
  forallb (fun q => forallb (fun it : citem => let '(r, d, L) := it in
      match arule r with
      | Some rl => match nth_error (r_rhs rl) d with
                   | Some X => let q' := trans q X in (0 <=? q') && item_la_incl q' r (S d) L
                   | None => true end
      | None => false end) (items q)) states.

(* closure: [A -> alpha . X beta, L] forces [X -> . gamma, FIRST(beta L)] in the same state *)
Definition chk_closure : bool :=
  forallb (fun q => forallb (fun it : citem => let '(r, d, L) := it in
      match arule r with
      | Some rl => match nth_error (r_rhs rl) d with
                   | Some X =>
                       if X <? vT then true else
                       let '(f, n) := first_seq g nl (ft_get ft) (skipn (S d) (r_rhs rl)) in
                       let l' := if n : bool then f ++ L else f in
                       forallb (fun r' => match nth_error (g_rules g) r' with
                                          | Some rl' => if r_lhs rl' =? X then item_la_incl q r' 0 l' else true
                                          | None => true end) (seq 0 nrules)
                   | None => true end
      | None => false end) (items q)) states.

(* a completed item of a real rule reduces on each of its lookaheads *)
Definition chk_reduce_la : bool :=
  forallb (fun q => forallb (fun it : citem => let '(r, d, L) := it in
      if (r <? nrules)%nat then
        match nth_error (g_rules g) r with
        | Some rl => if Nat.eqb d (length (r_rhs rl))
                     then forallb (fun a => act_eqb (m_act m q a []) (Reduce (Z.of_nat r))) L else true
        | None => false end
      else true) (items q)) states.

Definition chk_nullable : bool :=
  forallb (fun rl => if forallb (fun s => mem s nl) (r_rhs rl) then mem (r_lhs rl) nl else true) (g_rules g) &&
  forallb (fun x => vT <=? x) nl.

Definition chk_first : bool :=
  forallb (fun rl => subset (fst (first_seq g nl (ft_get ft) (r_rhs rl))) (ft_get ft (r_lhs rl))) (g_rules g).

Definition all_terms_z : list Z := zrange0 vT.

(* start items with their lookaheads, and the wiring of the accepting states *)
Definition chk_inputs : bool :=
  forallb (fun i =>
      match nth_error (g_inputs g) i with
      | Some (nt, eoi) =>
          item_la_incl (Z.of_nat i) (nrules + i) 0 (if eoi : bool then [] else all_terms_z) &&
          (if eoi : bool then trans (trans (Z.of_nat i) nt) 0 =? final_of i else trans (Z.of_nat i) nt =? final_of i)
      | None => false end) (seq 0 ninputs).

Definition check : bool :=
  chk_rules && chk_ann_len && chk_items && chk_trans && chk_reduce && chk_start && chk_final && chk_goto_def &&
  chk_advance && chk_closure && chk_reduce_la && chk_nullable && chk_first && chk_inputs.

(* which clause fails (for the evidence / replay) *)
Definition check_report : Z :=
  if negb chk_rules then 1 else if negb chk_ann_len then 14 else if negb chk_items then 2 else if negb chk_trans then 3 else
  if negb chk_reduce then 4 else if negb chk_start then 5 else if negb chk_final then 6 else
  if negb chk_goto_def then 7 else if negb chk_advance then 8 else if negb chk_closure then 9 else
  if negb chk_reduce_la then 10 else if negb chk_nullable then 11 else if negb chk_first then 12 else
  if negb chk_inputs then 13 else 0.

End V.

(* ---- the main loop stripped of offsets and traces: stack of (symbol, state), remaining terminals, shift count ---- *)
Definition aconfig := (list (Z * Z) * list Z * Z)%type.
Inductive astep_result := ANext (c : aconfig) | AFail (crash : bool).

Definition astep (m : machine) (c : aconfig) : astep_result :=
  let '(st, inp, n) := c in
  let a := match inp with x :: _ => x | [] => 0 end in
  match m_act m (snd (hd (0, -1) st)) a [] with
  | Reduce rule =>
      let ln := Z.to_nat (m_rule_len m rule) in
      if (length st <=? ln)%nat then AFail true
      else let rest := skipn ln st in
           let s := m_goto m (snd (hd (0, -1) rest)) (m_rule_sym m rule) in
           if s =? -1 then AFail false else ANext ((m_rule_sym m rule, s) :: rest, inp, n)
  | Shift q => ANext ((a, q) :: st, (if a =? 0 then inp else tl inp), n + 1)
  | _ => AFail false
  end.

Inductive aoutcome := AAccept | AError | ACrash | AFuel.

Fixpoint arun (fuel : nat) (m : machine) (end_state : Z) (c : aconfig) : aoutcome * aconfig :=
  match fuel with
  | O => (AFuel, c)
  | S f =>
      if snd (hd (0, -1) (fst (fst c))) =? end_state then (AAccept, c)
      else match astep m c with
           | ANext c' => arun f m end_state c'
           | AFail true => (ACrash, c)
           | AFail false => (AError, c)
           end
  end.

Definition aparse (fuel : nat) (m : machine) (finals : list Z) (i : nat) (w : list Z) : aoutcome * aconfig :=
  arun fuel m (nth i finals (-1)) ([(0, Z.of_nat i)], w, 0).

(* ---- running the loop on plain terminal lists ---- *)
Fixpoint toks_from (off : Z) (w : list Z) : list tok :=
  match w with [] => [] | a :: w' => mkTok a off (off + 1) :: toks_from (off + 1) w' end.
Definition toks_of (w : list Z) : list tok := toks_from 0 w.

Definition parse (fuel : nat) (m : machine) (finals : list Z) (i : nat) (w : list Z) : outcome * config :=
  run fuel m (Z.of_nat i) (nth i finals (-1)) (Z.of_nat (length w)) (toks_of w).
