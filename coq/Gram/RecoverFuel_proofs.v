(* C19: explicit fuel for the whole recovering parse from the table validators:
   parse_fuel F h n = F*h + F^2 + 2F + 1 + (n + 1) * (2 F^2 + 8 F + 4) + 3 iterations suffice from a stack of height h with n
   input tokens left -- linear in the input, no hypothesis on reduction sequences. *)
From Coq Require Import List ZArith Bool Arith Lia.
From TM Require Import Lib.ListX Gram.Cfg Gram.PTables Gram.Run Gram.Validator Gram.Validator_proofs Gram.Events Gram.Recover
  Gram.Recover_proofs Gram.Recover_progress Gram.RedTerm Gram.RedTerm_proofs Gram.RedTermRec_proofs Gram.RedTermFuel_proofs
  Gram.RecoverSafe Gram.RecoverSafe_proofs.
Import ListNotations.
Local Open Scope Z_scope.

Definition parse_fuel (F h n : nat) : nat := (F * h + F * F + 2 * F + 1 + S n * (2 * F * F + 8 * F + 4) + 3)%nat.

Section C.
Variable p : rparams.
Variable eh : nat -> bool.
Variables nstates T NS : Z.
Variable F : nat.
Hypothesis Hnm : lalr1 p.
Hypothesis Hso : shift_ok_sound p.
Hypothesis Hend : 0 <= rp_end p.
Hypothesis Hrt : check_redterm (rp_m p) nstates T NS F = true.
Hypothesis Hrg : check_range (rp_m p) nstates T NS = true.
Variable Inv : rconfig -> Prop.
Hypothesis Hstep : forall c c', Inv c -> rstep p eh c = RContinue c' -> Inv c'.
Hypothesis HinvX : forall c, Inv c -> xinv p nstates T (rc_x c).
Hypothesis Heoi : forall c q, Inv c -> m_act (rp_m p) (xc_state (rc_x c)) 0 [] = Shift q -> q = rp_end p.

Theorem rrun_fuel_closed c : Inv c ->
  fst (rrun_loop (parse_fuel F (length (xc_stack (rc_x c))) (length (xc_input (rc_x c)))) p eh c) <> RFuel.
Proof.
  intros Hinv.
  destruct (rrun_fuel_pot p eh nstates T NS F Hnm Hso Hend Hrt Hrg Inv Hstep HinvX Heoi _ c Hinv (le_n _) _
              (pot_init p nstates T NS F Hnm Hrt Hrg Inv HinvX c Hinv)) as (f & Hfb & Hf).
  destruct (rrun_loop f p eh c) as [o c'] eqn:E. simpl in Hf.
  unfold CC in Hfb.
  replace (parse_fuel F (length (xc_stack (rc_x c))) (length (xc_input (rc_x c))))
    with (f + (parse_fuel F (length (xc_stack (rc_x c))) (length (xc_input (rc_x c))) - f))%nat by (unfold parse_fuel; lia).
  rewrite (rrun_fuel_mono p eh f c o c' E Hf). exact Hf.
Qed.
End C.

Lemma eoi_from_check p nstates st : check_eoi (rp_m p) nstates (rp_end p) = true -> 0 <= st < nstates ->
  forall q, m_act (rp_m p) st 0 [] = Shift q -> q = rp_end p.
Proof.
  intros Heoi Hs q Hq. unfold check_eoi in Heoi. rewrite forallb_forall in Heoi.
  specialize (Heoi _ (proj2 (in_zrange0 _ _) Hs)). rewrite Hq in Heoi. apply Z.eqb_eq in Heoi. exact Heoi.
Qed.

(* validated tables (the premises of rrun_terminates_validated) *)
Theorem rrun_fuel_validated p eh nstates T NS F :
  lalr1 p -> shift_ok_sound p -> 0 <= rp_end p ->
  check_range (rp_m p) nstates T NS = true -> check_redterm (rp_m p) nstates T NS F = true ->
  check_eoi (rp_m p) nstates (rp_end p) = true ->
  0 <= rp_err_sym p < NS -> m_goto (rp_m p) (-1) (rp_err_sym p) = -1 ->
  (forall c, rinv nstates T c ->
     fst (rrun_loop (parse_fuel F (length (xc_stack (rc_x c))) (length (xc_input (rc_x c)))) p eh c) <> RFuel) /\
  (forall start input, 0 <= start < nstates -> Forall (fun t => 0 <= t_sym t < T) input ->
     fst (rrun (parse_fuel F 1 (length input)) p eh start input) <> RFuel).
Proof.
  intros Hnm Hso Hend Hrg Hrt Heoi Herr Hm1.
  assert (H : forall c, rinv nstates T c ->
     fst (rrun_loop (parse_fuel F (length (xc_stack (rc_x c))) (length (xc_input (rc_x c)))) p eh c) <> RFuel).
  { apply (rrun_fuel_closed p eh nstates T NS F Hnm Hso Hend Hrt Hrg (rinv nstates T)).
    - intros c c' H1 H2. eapply rstep_rinv; eauto.
    - intros c H1. eapply rinv_xinv; eauto.
    - intros c q (Hne & Hall & Hst & _) Hq. eapply eoi_from_check; eauto.
      rewrite Hst. destruct (xc_stack (rc_x c)) as [|e0 s0]; [congruence|]. inversion Hall; subst. assumption. }
  split; [exact H|]. intros start input Hs Ht. unfold rrun.
  apply (H (mkRC (mkXC [mkX 0 0 0 start (TLeaf 0 0 0)] start input []) 0 [] (0, 0))). apply rinv_init; assumption.
Qed.

(* certified tables (both encodings; the premises of rrun_terminates_certified_tables) *)
Theorem rrun_fuel_certified g p nstates finals nl ft ann eh F i :
  lalr1 p -> shift_ok_sound p -> 0 <= rp_end p ->
  check g (rp_m p) nstates finals nl ft ann = true ->
  check_err_goto (rp_m p) nstates (vT g) (rp_err_sym p) = true ->
  check_range (rp_m p) nstates (vT g) (vNS g) = true -> check_redterm (rp_m p) nstates (vT g) (vNS g) F = true ->
  check_eoi (rp_m p) nstates (rp_end p) = true -> (i < ninputs g)%nat ->
  (forall c, sinv g p i c ->
     fst (rrun_loop (parse_fuel F (length (xc_stack (rc_x c))) (length (xc_input (rc_x c)))) p eh c) <> RFuel) /\
  (forall input, toks_in g input -> fst (rrun (parse_fuel F 1 (length input)) p eh (Z.of_nat i) input) <> RFuel).
Proof.
  intros Hnm Hso Hend Hchk Herr Hrg Hrt Heoi Hi.
  assert (H : forall c, sinv g p i c ->
     fst (rrun_loop (parse_fuel F (length (xc_stack (rc_x c))) (length (xc_input (rc_x c)))) p eh c) <> RFuel).
  { apply (rrun_fuel_closed p eh nstates (vT g) (vNS g) F Hnm Hso Hend Hrt Hrg (sinv g p i)).
    - intros c c' H1 H2. eapply rstep_sinv; eauto.
    - intros c H1. eapply xsinv_xinv; eauto. eapply sinv_xsinv; eauto.
    - intros c q (Hst & Hp & _) Hq. eapply eoi_from_check; eauto. rewrite Hst. eapply spath_top; eauto. }
  split; [exact H|]. intros input Ht. unfold rrun.
  apply (H (mkRC (mkXC [mkX 0 0 0 (Z.of_nat i) (TLeaf 0 0 0)] (Z.of_nat i) input []) 0 [] (0, 0))). apply sinv_init. exact Ht.
Qed.
