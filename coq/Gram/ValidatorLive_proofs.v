(* C01: check && check_live imply the correct-prefix property: the tokens shifted before a reported syntax
   error are a prefix of a sentence of the input nonterminal. *)
From Coq Require Import List ZArith Bool Arith Lia.
From TM Require Import Gram.Cfg Gram.PTables Gram.Run Gram.Derive Gram.Validator Gram.Validator_proofs
                       Gram.ValidatorLive.
Import ListNotations.
Local Open Scope Z_scope.

Lemma fold_left_inv' {A B} (P : A -> Prop) (f : A -> B -> A) l a :
  P a -> (forall a x, In x l -> P a -> P (f a x)) -> P (fold_left f l a).
Proof.
  revert a; induction l as [|y l IH]; intros a Ha Hf; simpl; auto.
  apply IH; [apply Hf; simpl; auto|intros; apply Hf; simpl; auto].
Qed.

Lemma iterate_inv' {A} (P : A -> Prop) (f : A -> A) n x : P x -> (forall y, P y -> P (f y)) -> P (iterate n f x).
Proof. revert x; induction n as [|n IH]; intros x Hx Hf; simpl; auto. Qed.

Lemma hd_skipn {A} d (l : list A) x : hd x (skipn d l) = nth d l x.
Proof. revert l; induction d as [|d IH]; intros [|y l]; simpl; auto. Qed.

Lemma firstn_len_app {A} (a b : list A) : firstn (length a) (a ++ b) = a.
Proof. induction a as [|x a IH]; simpl; [reflexivity|f_equal; exact IH]. Qed.

(* ---------- productive symbols derive something ---------- *)
Section Productive.
Variable g : grammar.

Definition ps_ok (ps : list Z) : Prop := forall x, In x ps -> exists w, derives g x w.

Lemma productive_seq ps xs : ps_ok ps -> forallb (is_productive g ps) xs = true -> exists w, derives_seq g xs w.
Proof.
  intros Hps. induction xs as [|x xs IH]; simpl; intros H; [exists []; constructor|].
  apply andb_true_iff in H. destruct H as [H1 H2]. destruct (IH H2) as [w2 Hw2].
  unfold is_productive in H1. apply orb_true_iff in H1. destruct H1 as [H1|H1].
  - exists ([x] ++ w2). constructor; auto. constructor. exact H1.
  - apply mem_In in H1. destruct (Hps x H1) as [w1 Hw1]. exists (w1 ++ w2). constructor; auto.
Qed.

Lemma productive_set_ok : ps_ok (productive_set g).
Proof.
  unfold productive_set. apply iterate_inv'; [intros x []|].
  intros ps Hps. unfold productive_step. apply fold_left_inv'; auto.
  intros ps' r Hr Hps'. destruct (forallb _ (r_rhs r)) eqn:E; auto.
  intros x Hx. apply ins_In in Hx. destruct Hx as [->|Hx]; auto.
  destruct (productive_seq ps' (r_rhs r) Hps' E) as [w Hw]. exists w. constructor; auto.
Qed.
End Productive.

Section Live.
Variable g : grammar.
Variable m : machine.
Variable nstates : Z.
Variable finals : list Z.
Variable nl : list Z.
Variable ft : first_table.
Variable ann : cert.
Variable rk : rank_tbl.

Hypothesis Hchk : check g m nstates finals nl ft ann = true.
Hypothesis Hlive : check_live g nstates ann rk = true.

Notation T := (vT g).
Notation NS := (vNS g).
Notation NR := (nrules g).
Notation NI := (ninputs g).

Definition top (st : list (Z * Z)) : Z := snd (hd (0, -1) st).

Lemma live_state q : 0 <= q < nstates -> items ann q <> [].
Proof.
  intros Hq. unfold check_live in Hlive. rewrite forallb_forall in Hlive.
  assert (Hin : In q (states nstates)) by (apply in_zrange0; exact Hq).
  apply Hlive in Hin. apply andb_true_iff in Hin. destruct Hin as [H _].
  destruct (items ann q); [discriminate|discriminate].
Qed.

Lemma live_item q r d L rl : In (r, d, L) (items ann q) -> arule g r = Some rl ->
  (exists u, derives_seq g (skipn d (r_rhs rl)) u) /\
  (d = O -> (r < NR)%nat ->
     exists r' d' L' rl', In (r', d', L') (items ann q) /\ arule g r' = Some rl' /\
                          nth_error (r_rhs rl') d' = Some (r_lhs rl) /\
                          (d' <> O \/ 0 <= lrank rk q r' < lrank rk q r)).
Proof.
  intros Hin Hr. pose proof (item_state g m nstates finals nl ft ann Hchk q _ Hin) as Hq.
  unfold check_live in Hlive. rewrite forallb_forall in Hlive.
  assert (Hqs : In q (states nstates)) by (apply in_zrange0; exact Hq).
  apply Hlive in Hqs. apply andb_true_iff in Hqs. destruct Hqs as [_ H].
  rewrite forallb_forall in H. specialize (H _ Hin). cbv beta iota in H. rewrite Hr in H.
  apply andb_true_iff in H. destruct H as [H1 H2]. split.
  - apply (productive_seq g (productive_set g)); [apply productive_set_ok|exact H1].
  - intros -> Hlt. simpl in H2. apply Nat.ltb_lt in Hlt. rewrite Hlt in H2.
    apply existsb_exists in H2. destruct H2 as ([[r' d'] L'] & Hin' & H2).
    apply andb_true_iff in H2. destruct H2 as [H2 H3]. unfold dot_sym_is in H2.
    destruct (arule g r') as [rl'|] eqn:Er'; [|discriminate].
    destruct (nth_error (r_rhs rl') d') as [Y|] eqn:EY; [|discriminate]. apply Z.eqb_eq in H2. subst Y.
    exists r', d', L', rl'. repeat split; auto.
    apply orb_true_iff in H3. destruct H3 as [H3|H3].
    + left. apply negb_true_iff in H3. apply Nat.eqb_neq in H3. exact H3.
    + right. apply andb_true_iff in H3. destruct H3 as [H3 H4]. apply Z.leb_le in H3. apply Z.ltb_lt in H4. lia.
Qed.

Variable i : nat.
Hypothesis Hi : (i < NI)%nat.
Variables (nt : Z) (eoi : bool).
Hypothesis Hinp : nth_error (g_inputs g) i = Some (nt, eoi).

Definition augrhs : list Z := if eoi then [nt; 0] else [nt].

Definition meas (q : Z) (r d : nat) : nat :=
  match d with O => S (Z.to_nat (lrank rk q r)) | S _ => O end.

Lemma live_core : forall n k st cons r d L rl u,
  length st = n -> meas (top st) r d = k ->
  stk g m i st cons -> In (r, d, L) (items ann (top st)) -> arule g r = Some rl ->
  derives_seq g (skipn d (r_rhs rl)) u ->
  exists z, derives_seq g augrhs (cons ++ u ++ z).
Proof.
  induction n as [n IHn] using lt_wf_ind. induction k as [k IHk] using lt_wf_ind.
  intros st cons r d L rl u Hn Hk Hs Hin Hr Hu.
  destruct (spelled g m nstates finals nl ft ann Hchk i Hi d st cons r L rl Hs Hin Hr) as (Hlen & Hrev & Hh0).
  destruct (stk_split g m i Hi d st cons Hs Hlen) as (c1 & c2 & -> & Hs1 & Hd2).
  rewrite Hrev in Hd2.
  assert (Hfull : derives_seq g (r_rhs rl) (c2 ++ u)).
  { rewrite <- (firstn_skipn d (r_rhs rl)). apply derives_seq_app; auto. }
  assert (Htop1 : top (skipn d st) = snd (nth d st (0, -1))) by (unfold top; rewrite hd_skipn; reflexivity).
  rewrite <- Htop1 in Hh0. apply has_item_In in Hh0. destruct Hh0 as (L0 & Hin0).
  destruct (lt_dec r NR) as [Hreal|Haug].
  - (* a real rule: climb to the item that justifies [r, 0] *)
    assert (Hnth : nth_error (g_rules g) r = Some rl).
    { unfold arule in Hr. apply Nat.ltb_lt in Hreal. rewrite Hreal in Hr. exact Hr. }
    assert (Hlhs : derives g (r_lhs rl) (c2 ++ u)) by (constructor; [eapply nth_error_In; eauto|exact Hfull]).
    destruct (live_item _ _ _ _ _ Hin0 Hr) as [_ Hj].
    destruct (Hj eq_refl Hreal) as (r' & d' & L' & rl' & Hin' & Hr' & HX & Hrank).
    destruct (live_item _ _ _ _ _ Hin' Hr') as [[v0 Hv0] _].
    rewrite (nth_error_skipn_cons _ _ _ HX) in Hv0.
    inversion Hv0 as [|x xs w1 v Hx Hv]; subst.
    assert (Hu' : derives_seq g (skipn d' (r_rhs rl')) ((c2 ++ u) ++ v)).
    { rewrite (nth_error_skipn_cons _ _ _ HX). constructor; auto. }
    assert (Hrec : exists z', derives_seq g augrhs (c1 ++ ((c2 ++ u) ++ v) ++ z')).
    { destruct d as [|d0].
      - (* same stack: the measure on items decreases *)
        simpl in Hs1, Hin', Htop1. simpl skipn in Hin'.
        apply (IHk (meas (top st) r' d')) with (st := st) (r := r') (d := d') (L := L') (rl := rl'); auto.
        unfold meas. destruct d' as [|d1]; [|lia].
        destruct Hrank as [Hrank|Hrank]; [congruence|]. simpl skipn in Hrank. lia.
      - apply (IHn (length (skipn (S d0) st))) with (k := meas (top (skipn (S d0) st)) r' d')
                                                     (st := skipn (S d0) st) (r := r') (d := d') (L := L') (rl := rl'); auto.
        rewrite skipn_length. lia. }
    destruct Hrec as [z' Hz']. exists (v ++ z').
    replace ((c1 ++ c2) ++ u ++ v ++ z') with (c1 ++ ((c2 ++ u) ++ v) ++ z') by (rewrite <- !app_assoc; reflexivity).
    exact Hz'.
  - (* an augmented rule: the item sits in the bottom state *)
    assert (Haugr : aug_rule g (r - NR) = Some rl).
    { unfold arule in Hr. assert (E : (r <? NR)%nat = false) by (apply Nat.ltb_ge; lia). rewrite E in Hr. exact Hr. }
    unfold aug_rule in Haugr. destruct (nth_error (g_inputs g) (r - NR)) as [[nt' eoi']|] eqn:Einp'; [|discriminate].
    destruct (L_final g m nstates finals nl ft ann Hchk _ _ _ Einp') as (_ & Hlt' & _ & Huniq).
    assert (Hp : top (skipn d st) = Z.of_nat (r - NR)).
    { apply Huniq. apply has_item_In. replace (NR + (r - NR))%nat with r by lia. eauto. }
    remember (skipn d st) as st1 eqn:Est1. destruct Hs1 as [s|X q b rest w1 w2 Hs' HX Hq Hq0 Hd].
    + unfold top in Hp. simpl in Hp. apply Nat2Z.inj in Hp. rewrite <- Hp in Einp'. rewrite Hinp in Einp'.
      injection Einp' as <- <-. injection Haugr as <-. simpl in Hfull. exists []. rewrite app_nil_r. simpl. exact Hfull.
    + exfalso.
      assert (Hs'' : stk g m i ((X, q) :: b :: rest) (w1 ++ w2)) by (econstructor; eauto).
      apply (stk_nonbottom g m nstates finals nl ft ann Hchk i Hi) in Hs''.
      unfold top in Hp. simpl in Hp. lia.
Qed.

(* ---------- terminal strings ---------- *)
Lemma derives_toks :
  (forall X w, derives g X w -> X <> 0 -> toks_ok g w) /\
  (forall xs w, derives_seq g xs w -> (forall x, In x xs -> x <> 0) -> toks_ok g w).
Proof.
  destruct (L_rules g m nstates finals nl ft ann Hchk) as (HT & _ & HR & _).
  apply derives_mutind.
  - intros a Ha Hne. constructor; [|constructor]. unfold is_term in Ha. apply andb_true_iff in Ha.
    destruct Ha as [H1 H2]. apply Z.leb_le in H1. apply Z.ltb_lt in H2. unfold vT. lia.
  - intros rl w Hin _ IH _. apply IH. intros x Hx. destruct (HR _ Hin) as [_ Hs]. specialize (Hs _ Hx). lia.
  - intros _. constructor.
  - intros x xs w1 w2 _ IH1 _ IH2 Hall. apply Forall_app. split.
    + apply IH1. apply Hall. left. reflexivity.
    + apply IH2. intros y Hy. apply Hall. right. exact Hy.
Qed.

Lemma toks_ok_no_zero w : toks_ok g w -> ~ In 0 w.
Proof. intros H Hin. unfold toks_ok in H. rewrite Forall_forall in H. apply H in Hin. lia. Qed.

Lemma tail_zero (a t w1 : list Z) : ~ In 0 a -> a ++ t = w1 ++ [0] -> exists t', t = t' ++ [0] /\ a ++ t' = w1.
Proof.
  intros Ha E. destruct (exists_last (l := t)) as (t' & x & ->).
  - intros ->. rewrite app_nil_r in E. subst a. apply Ha. apply in_or_app. right. left. reflexivity.
  - rewrite app_assoc in E. apply app_inj_tail in E. destruct E as [E ->]. eauto.
Qed.

Theorem arun_error_viable ws fuel c' :
  toks_ok g ws -> aparse fuel m finals i ws = (AError, c') ->
  exists z, toks_ok g z /\ sentence g nt eoi (firstn (Z.to_nat (snd c')) ws ++ z).
Proof.
  intros Hws Hrun. unfold aparse in Hrun. fold (final_of finals i) in Hrun.
  destruct (arun_inv g m nstates finals nl ft ann Hchk i Hi ws fuel _ _ _ (inv_init g m i ws Hws) Hrun) as [Hinv _].
  destruct c' as [[st inp] n]. destruct Hinv as (Hok & cons & k & Hs & Hstream & Hk & Hn). simpl snd.
  subst n. rewrite Nat2Z.id.
  pose proof (stk_state g m nstates finals nl ft ann Hchk i Hi _ _ Hs) as Hq. fold (top st) in Hq.
  pose proof (live_state _ Hq) as Hne.
  destruct (items ann (top st)) as [|[[r d] L] its] eqn:Eits; [congruence|].
  assert (Hin : In (r, d, L) (items ann (top st))) by (rewrite Eits; left; reflexivity).
  destruct (L_items g m nstates finals nl ft ann Hchk _ _ _ _ Hin) as (rl & Hr & _).
  destruct (live_item _ _ _ _ _ Hin Hr) as [[u Hu] _].
  destruct (live_core _ _ st cons r d L rl u eq_refl eq_refl Hs Hin Hr Hu) as [z Hz].
  destruct (L_rules g m nstates finals nl ft ann Hchk) as (HT & _ & _ & HI).
  pose proof (HI _ (nth_error_In _ _ Hinp)) as Hnt. simpl in Hnt.
  unfold augrhs in Hz. destruct eoi.
  - (* S' -> S EOI *)
    inversion Hz as [|x xs w1 w2 Hd1 Hd2 E1 E2]; subst.
    inversion Hd2 as [|x xs w0 w3 Hd0 Hd3]; subst. inversion Hd3; subst.
    apply (derives_term g m nstates finals nl ft ann Hchk i Hi) in Hd0; [|lia]. subst w0. simpl in E2.
    assert (Hw1 : toks_ok g w1) by (apply (proj1 derives_toks _ _ Hd1); lia).
    pose proof (toks_ok_no_zero _ Hw1) as Hnz1.
    destruct k as [|k].
    + simpl in Hstream. rewrite app_nil_r in Hstream. subst ws. rewrite firstn_len_app.
      assert (Hnzc : ~ In 0 cons).
      { intros H0. apply (toks_ok_no_zero _ Hws). apply in_or_app. left. exact H0. }
      symmetry in E2. destruct (tail_zero _ _ _ Hnzc E2) as (t' & _ & E). exists t'. split.
      * subst w1. unfold toks_ok in Hw1. apply Forall_app in Hw1. apply Hw1.
      * simpl. rewrite E. exact Hd1.
    + rewrite (Hk ltac:(discriminate)) in Hstream. rewrite app_nil_r in Hstream. subst cons.
      rewrite firstn_all2 by (rewrite app_length; lia).
      exists []. split; [constructor|]. rewrite app_nil_r. simpl.
      simpl in E2. rewrite <- app_assoc in E2. simpl in E2. symmetry in E2.
      apply app_zero_eq in E2; [subst w1; exact Hd1|apply toks_ok_no_zero; exact Hws|exact Hnz1].
  - (* S' -> S *)
    inversion Hz as [|x xs w1 w2 Hd1 Hd2 E1 E2]; subst. inversion Hd2; subst. rewrite app_nil_r in E2.
    assert (Hw1 : toks_ok g w1) by (apply (proj1 derives_toks _ _ Hd1); lia).
    pose proof (toks_ok_no_zero _ Hw1) as Hnz1.
    destruct k as [|k].
    + simpl in Hstream. rewrite app_nil_r in Hstream. subst ws. rewrite firstn_len_app.
      exists (u ++ z). split.
      * subst w1. unfold toks_ok in Hw1. apply Forall_app in Hw1. apply Hw1.
      * simpl. exists (cons ++ u ++ z), []. rewrite app_nil_r. split; [reflexivity|]. rewrite <- E2. exact Hd1.
    + exfalso. rewrite (Hk ltac:(discriminate)) in Hstream. rewrite app_nil_r in Hstream. subst cons.
      apply Hnz1. rewrite E2. apply in_or_app. left. apply in_or_app. right. left. reflexivity.
Qed.

Hypothesis Hm : forall s a more, m_act m s a more = m_act m s a [].

Theorem parse_error_viable ws fuel off eoff k :
  toks_ok g ws -> fst (parse fuel m finals i ws) = SyntaxError off eoff k ->
  exists z, toks_ok g z /\ sentence g nt eoi (firstn (Z.to_nat k) ws ++ z).
Proof.
  intros Hws Hp. pose proof (parse_sim m finals Hm i ws fuel) as H. rewrite Hp in H. destruct H as [H1 H2].
  destruct (aparse fuel m finals i ws) as [o c'] eqn:E. simpl in *. subst o k.
  exact (arun_error_viable ws fuel c' Hws E).
Qed.
End Live.
