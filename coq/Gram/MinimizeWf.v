(* C06: well-formedness of the input of lalr.minimize (what lalr.Compile hands over) and names for the
   intermediate results of Minimize.minimize.  Definitions only; nothing here is extracted. *)
From Coq Require Import List ZArith Bool.
From TM Require Import Gram.PTables Gram.Optimize Gram.Run Gram.Minimize.
Import ListNotations.
Local Open Scope Z_scope.

(* ---------- intermediate results of [minimize] ---------- *)
Definition init_partition (mi : min_input) : list Z * Z :=
  number_all (map (state_signature (mi_enc mi) (rule_classes mi) (accept_on_entry mi)) (zseq (mi_num_states mi))).

Definition final_partition (mi : min_input) : list Z * Z :=
  let n := mi_num_states mi in
  let '(p0, c0) := init_partition mi in
  refine (S (Z.to_nat n)) (state_transitions (mi_enc mi) n) p0 c0.

(* the (from, to) pairs of one symbol in FromTo *)
Definition seg (t : default_enc) (x : Z) : list (Z * Z) :=
  let mn := zn (d_goto t) x in let mx := zn (d_goto t) (x + 1) in
  map (fun k => (zn (d_from_to t) (mn + 2 * k), zn (d_from_to t) (mn + 2 * k + 1))) (zseq ((mx - mn) / 2)).

Fixpoint strictly_increasing (l : list Z) : bool :=
  match l with
  | a :: (b :: _) as rest => (a <? b) && strictly_increasing rest
  | _ => true
  end.

(* ---------- well-formed tables ---------- *)
(* Goto offsets of symbol [x] are even, ordered and inside FromTo; its pairs name states, and the [from]s are
   strictly increasing (the generated parser's binary search relies on it) *)
Definition wf_goto_sym (t : default_enc) (n x : Z) : bool :=
  let mn := zn (d_goto t) x in let mx := zn (d_goto t) (x + 1) in
  (0 <=? mn) && (mn <=? mx) && (mx <=? zlength (d_from_to t)) && (mn mod 2 =? 0) && (mx mod 2 =? 0)
  && forallb (fun e => (0 <=? fst e) && (fst e <? n) && (0 <=? snd e) && (snd e <? n)) (seg t x)
  && strictly_increasing (map fst (seg t x)).

(* a Lalr row starting at [a0]: terminated inside the array by a negative terminal followed by -2 (error), and
   every entry is a shift (-1), an explicit error (-2) or a reduction of an existing rule: no LALR(k) row *)
Definition wf_lalr_row (t : default_enc) (nrules a0 : Z) : bool :=
  let l := d_lalr t in
  let row := lalr_row (S (length l)) l a0 in
  let e := a0 + 2 * Z.of_nat (length row) in
  (0 <=? a0) && (e + 1 <? zlength l) && (zn l e <? 0) && (zn l (e + 1) =? -2)
  && forallb (fun en => (-2 <=? snd en) && (snd en <? nrules)) row.

Definition wf_action (t : default_enc) (nrules s : Z) : bool :=
  let a := zn (d_action t) s in
  if a >=? 0 then a <? nrules else if a <? -2 then wf_lalr_row t nrules (- a - 3) else true.

Definition wf_rule_key (mi : min_input) (rule_sym : list Z) (r : Z) : bool :=
  match nth (Z.to_nat r) (mi_rule_keys mi) [] with
  | lhs :: _ => lhs =? zn rule_sym r
  | [] => false
  end.

Definition wf_min_input (mi : min_input) (rule_sym : list Z) (terms ninputs : Z) : bool :=
  let t := mi_enc mi in
  let n := mi_num_states mi in
  let nsyms := zlength (d_goto t) - 1 in
  let nrules := zlength (mi_rule_len mi) in
  let ngr := Z.of_nat (length (mi_rule_keys mi)) in
  (0 <? terms) && (terms <=? nsyms)
  (* one start state per input, numbered 0 .. ninputs-1; final states are states *)
  && (ninputs =? zlength (mi_final mi)) && (ninputs <=? n)
  && forallb (fun s => (0 <=? s) && (s <? n)) (mi_final mi)
  (* Goto / FromTo *)
  && forallb (wf_goto_sym t n) (zseq nsyms)
  (* Action / Lalr *)
  && forallb (wf_action t nrules) (zseq n)
  (* rules: grammar rules come first and carry a key that starts with their left-hand side; every rule
     (including runtime-lookahead rules) reduces to a nonterminal *)
  && (ngr <=? nrules)
  && forallb (fun r => (terms <=? zn rule_sym r) && (zn rule_sym r <? nsyms)) (zseq nrules)
  && forallb (wf_rule_key mi rule_sym) (zseq ngr).
