(* C29: cancellation in the generated parser's main loop (go_parser.go.tmpl, option cancellable): every
   shift attempt increments shiftCounter, and when shiftCounter & 0x1ff == 0 the context is polled; a done
   context makes parse return ctx.Err().  Layered over the event-emitting loop of Events.v.
   rho n = "the context is done when it is polled at counter value n" (an arbitrary oracle).
   Executable definitions only. *)
From Coq Require Import List ZArith Bool Arith.
From TM Require Import Gram.PTables Gram.Run Gram.Events.
Import ListNotations.
Local Open Scope Z_scope.

Record cconfig := mkCC { cc_counter : Z; cc_x : xconfig }.
Inductive coutcome := Plain (o : outcome) | CtxErr.
Inductive cstep_result := CContinue (c : cconfig) | CStop (o : coutcome).

(* does the loop take the "shift" branch (action == -1, resp. < -1 for compressed tables) in this cell? *)
Definition attempts_default (t : default_enc) (state term : Z) : bool :=
  let a0 := zn (d_action t) state in
  let a := if a0 <? -2 then lalr_lookup t a0 term else a0 in
  a =? -1.
Definition attempts_opt (o : disp_enc) (state term : Z) : bool :=
  match action_opt o state term with Shift _ => true | _ => false end.

Definition polls (n : Z) : bool := n mod 512 =? 0.

Definition cstep (m : machine) (evt : ev_table) (fixws : bool) (eoi_off : Z) (attempts : Z -> Z -> bool)
    (rho : Z -> bool) (c : cconfig) : cstep_result :=
  let nx := next_tok eoi_off (xc_input (cc_x c)) in
  let n := if attempts (xc_state (cc_x c)) (t_sym nx) then cc_counter c + 1 else cc_counter c in
  if attempts (xc_state (cc_x c)) (t_sym nx) && polls n && rho n then CStop CtxErr
  else match xstep m evt fixws eoi_off (cc_x c) with
       | XContinue x' => CContinue (mkCC n x')
       | XStop o => CStop (Plain o)
       end.

Fixpoint crun_loop (fuel : nat) (m : machine) (evt : ev_table) (fixws : bool) (eoi_off end_state : Z)
    (attempts : Z -> Z -> bool) (rho : Z -> bool) (c : cconfig) : coutcome * cconfig :=
  match fuel with
  | O => (Plain OutOfFuel, c)
  | S f =>
      if xc_state (cc_x c) =? end_state then (Plain Accept, c)
      else match cstep m evt fixws eoi_off attempts rho c with
           | CContinue c' => crun_loop f m evt fixws eoi_off end_state attempts rho c'
           | CStop o => (o, c)
           end
  end.

Definition crun (fuel : nat) (m : machine) (evt : ev_table) (fixws : bool) (start end_state eoi_off : Z)
    (attempts : Z -> Z -> bool) (rho : Z -> bool) (input : list tok) : coutcome * cconfig :=
  crun_loop fuel m evt fixws eoi_off end_state attempts rho
            (mkCC 0 (mkXC [mkX 0 0 0 start (TLeaf 0 0 0)] start input [])).

(* the first polled counter value at or after s *)
Definition next_poll (s : Z) : Z := 512 * ((s + 511) / 512).
