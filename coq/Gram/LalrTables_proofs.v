(* C03: the lookahead sets shown in the reference's state views (the ones compared with textmapper and used by
   the cell oracle) are the LALR(1) lookahead sets of the completed items. *)
From Coq Require Import List ZArith Bool Arith Lia.
From TM Require Import Gram.Cfg Gram.Derive Gram.LalrRef Gram.Prec Gram.PTables Gram.LalrTables Gram.LalrSpec
                       Gram.LalrSpec_proofs Gram.LalrSpec_proofs2 Gram.LalrCert Gram.LalrCert_proofs.
Import ListNotations.
Local Open Scope Z_scope.

Lemma nth_error_combine_zrange {A} (l : list A) q (x : Z * A) :
  nth_error (combine (zrange (Z.of_nat (length l))) l) q = Some x ->
  fst x = Z.of_nat q /\ nth_error l q = Some (snd x).
Proof.
  intros H. pose proof (nth_error_In _ _ H) as Hin. destruct x as [q' st].
  unfold zrange in H. rewrite Nat2Z.id in H.
  assert (Hgen : forall (l : list A) s q, nth_error (combine (map Z.of_nat (seq s (length l))) l) q = Some (q', st) ->
                 q' = Z.of_nat (s + q) /\ nth_error l q = Some st).
  { clear. induction l as [|y l IH]; intros s q H; simpl in H; [destruct q; discriminate|].
    destruct q as [|q]; simpl in *.
    - injection H as <- <-. split; [f_equal; lia|reflexivity].
    - destruct (IH _ _ H) as [-> E]. split; [f_equal; lia|exact E]. }
  destruct (Hgen l 0%nat q H) as [-> E]. simpl. auto.
Qed.

Theorem reference_views_la g fuel : ref_cert g fuel = true ->
  let a := fst (build_automaton g fuel) in
  forall q v, nth_error (ro_views (reference g fuel)) q = Some v ->
  forall j r L, nth_error (v_reduce v) j = Some r -> nth_error (v_la_all v) j = Some L ->
  forall x, In x L <-> lalr1 g a (Z.of_nat q) (r, rule_len g r) x.
Proof.
  unfold ref_cert, reference. destruct (build_automaton g fuel) as [a finals]. intros Hc. simpl fst.
  intros q v Hv j r L Hr HL x.
  destruct (build_goto g (views g a (lalr_la g a fuel))) as [gt ft]. cbn [ro_views] in Hv.
  unfold views in Hv. rewrite nth_error_map in Hv.
  destruct (nth_error (combine _ (a_states a)) q) as [[q' st]|] eqn:E; [|discriminate].
  apply nth_error_combine_zrange in E. destruct E as [E1 E2]. simpl in E1, E2. subst q'.
  simpl in Hv. injection Hv as <-.
  match goal with H : nth_error (v_reduce (let '(_, _) := ?p in _)) _ = _ |- _ => destruct p as [sh lr0] end.
  cbn [v_reduce v_la_all] in Hr, HL. rewrite nth_error_map, Hr in HL. simpl in HL. injection HL as <-.
  unfold state_la. apply lalr_la_exact. exact Hc.
Qed.
