From Coq Require Import List ZArith Bool Lia.
From TM Require Import Gram.PTables Gram.Optimize Gram.OptimizeSpec.
Import ListNotations.
Local Open Scope Z_scope.

Lemma in_zseq n x : In x (zseq n) <-> 0 <= x < n.
Proof.
  unfold zseq. rewrite in_map_iff. split.
  - intros [k [<- Hk]]. apply in_seq in Hk. lia.
  - intro H. exists (Z.to_nat x). split; [lia|]. apply in_seq. lia.
Qed.

Lemma act_eqb_eq x y : act_eqb x y = true <-> x = y.
Proof.
  destruct x, y; cbn; try (split; [discriminate|discriminate]); try rewrite Z.eqb_eq;
    try (split; [intros ->; reflexivity|intros [= ->]; reflexivity]); tauto.
Qed.

(* the boolean check covers the whole (finite) cell space of the table set *)
Theorem check_enc_sound t o terms : check_enc t o terms = true ->
  (forall s a, 0 <= s < zlength (d_action t) -> 0 <= a < terms -> action_opt o s a = action_default t s a) /\
  (forall s x q, 0 <= s < zlength (d_action t) -> terms <= x < zlength (d_goto t) - 1 ->
     goto_state t s x = q -> 0 <= q -> goto_opt o terms s x = q).
Proof.
  unfold check_enc. rewrite andb_true_iff. intros [H1 H2]. split.
  - intros s a Hs Ha. rewrite forallb_forall in H1. specialize (H1 s (proj2 (in_zseq _ _) Hs)).
    rewrite forallb_forall in H1. specialize (H1 a (proj2 (in_zseq _ _) Ha)). now apply act_eqb_eq.
  - intros s x q Hs Hx Hq Hq0. rewrite forallb_forall in H2. specialize (H2 s (proj2 (in_zseq _ _) Hs)).
    rewrite forallb_forall in H2.
    assert (Hin : In x (map (fun i => terms + i) (zseq (zlength (d_goto t) - 1 - terms)))).
    { apply in_map_iff. exists (x - terms). split; [lia|]. apply in_zseq. lia. }
    specialize (H2 x Hin). rewrite Hq in H2. destruct (q >=? 0) eqn:E; [now apply Z.eqb_eq|lia].
Qed.

Theorem check_enc_dr_sound t o terms : check_enc_dr t o terms = true ->
  forall s a, 0 <= s < zlength (d_action t) -> 0 <= a < terms ->
  match action_default t s a with
  | Shift q => action_opt o s a = Shift q
  | Reduce r => action_opt o s a = Reduce r
  | Deep r => action_opt o s a = Deep r
  | Err =>
      (* never a shift; an explicit (nonassoc) error stays an error *)
      (forall q, action_opt o s a <> Shift q) /\
      (zn (d_action t) s < -2 ->
       (exists v, lalr_find (S (length (d_lalr t))) (d_lalr t) (- zn (d_action t) s - 3) a = Some v) ->
       action_opt o s a = Err) /\
      (forall r, action_opt o s a = Reduce r -> is_most_frequent r (row_reductions t s) = true)
  end.
Proof.
  unfold check_enc_dr. rewrite andb_true_iff. intros [H1 _] s a Hs Ha.
  rewrite forallb_forall in H1. specialize (H1 s (proj2 (in_zseq _ _) Hs)).
  rewrite forallb_forall in H1. specialize (H1 a (proj2 (in_zseq _ _) Ha)).
  unfold cell_ok_dr in H1. destruct (action_default t s a) eqn:Ed; try (now apply act_eqb_eq).
  destruct (zn (d_action t) s <? -2) eqn:E0.
  - destruct (lalr_find _ _ _ a) as [v|] eqn:Ef.
    + apply act_eqb_eq in H1. rewrite H1. split; [discriminate|]. split; [reflexivity|discriminate].
    + destruct (action_opt o s a) eqn:Eo; try discriminate.
      * split; [discriminate|]. split; [intros _ [v Hv]; discriminate|]. intros r' [= <-]. exact H1.
      * split; [discriminate|]. split; [reflexivity|discriminate].
  - apply act_eqb_eq in H1. rewrite H1. split; [discriminate|]. split; [reflexivity|discriminate].
Qed.
