From Coq Require Import List ZArith Bool Lia.
From TM Require Import Gram.PTables Gram.Optimize Gram.Run Gram.Minimize.
Import ListNotations.
Local Open Scope Z_scope.

(* ================= quotient simulation for the parser loop ================= *)
Section Simulation.
Variables (m m' : machine) (remap : Z -> Z) (n terms nsyms : Z).
Variable rel_rule : Z -> Z -> Prop.

Definition valid (s : Z) : Prop := 0 <= s < n.
Definition remap' (s : Z) : Z := if s =? -1 then -1 else remap s.

Definition act_sim (x y : act) : Prop :=
  match x, y with
  | Shift q, Shift q' => valid q /\ q' = remap q
  | Reduce r, Reduce r' => rel_rule r r'
  | Err, Err | Err, Deep _ | Deep _, Err | Deep _, Deep _ => True
  | _, _ => False
  end.

Hypothesis Hrule : forall r r', rel_rule r r' ->
  m_rule_len m r = m_rule_len m' r' /\ m_rule_sym m r = m_rule_sym m' r' /\ terms <= m_rule_sym m r < nsyms.
Hypothesis Hact : forall s a more, valid s -> 0 <= a < terms -> Forall (fun x => 0 <= x < terms) more ->
  act_sim (m_act m s a more) (m_act m' (remap s) a more).
Hypothesis Hremap : forall s, valid s -> 0 <= remap s.
Hypothesis Hgoto : forall s x, valid s -> terms <= x < nsyms ->
  (m_goto m s x = -1 /\ m_goto m' (remap s) x = -1) \/
  (valid (m_goto m s x) /\ m_goto m' (remap s) x = remap (m_goto m s x)).

Definition entry_rel (e e' : entry) : Prop :=
  e_sym e = e_sym e' /\ e_off e = e_off e' /\ e_end e = e_end e' /\ e_state e' = remap' (e_state e).

Definition titem_rel (x y : titem) : Prop :=
  match x, y with
  | TShift s q, TShift s' q' => s = s' /\ q' = remap' q
  | TReduce r o e, TReduce r' o' e' => rel_rule r r' /\ o = o' /\ e = e'
  | _, _ => False
  end.

Record config_rel (c c' : config) : Prop := {
  cr_stack : Forall2 entry_rel (c_stack c) (c_stack c');
  cr_state : c_state c' = remap' (c_state c);
  cr_input : c_input c' = c_input c;
  cr_shifted : c_shifted c' = c_shifted c;
  cr_trace : Forall2 titem_rel (c_trace c) (c_trace c')
}.

(* all states on the stack (and the current one) are genuine states *)
Definition config_valid (c : config) : Prop :=
  valid (c_state c) /\ Forall (fun e => valid (e_state e)) (c_stack c).

Definition toks_ok (input : list tok) : Prop := Forall (fun t => 0 <= t_sym t < terms) input.

Lemma remap'_valid s : valid s -> remap' s = remap s.
Proof. unfold valid, remap'. intro H. destruct (s =? -1) eqn:E; [lia|reflexivity]. Qed.

Lemma Forall2_firstn {A B} (R : A -> B -> Prop) k : forall l l', Forall2 R l l' -> Forall2 R (firstn k l) (firstn k l').
Proof.
  induction k as [|k IH]; intros l l' H; [constructor|]. destruct H; [constructor|]. cbn. constructor; auto.
Qed.

Lemma Forall2_skipn {A B} (R : A -> B -> Prop) k : forall l l', Forall2 R l l' -> Forall2 R (skipn k l) (skipn k l').
Proof.
  induction k as [|k IH]; intros l l' H; [exact H|]. destruct H; [constructor|]. cbn. auto.
Qed.

Lemma Forall2_length' {A B} (R : A -> B -> Prop) l l' : Forall2 R l l' -> length l = length l'.
Proof. induction 1; cbn; congruence. Qed.

Lemma Forall2_last (l l' : list entry) d : Forall2 entry_rel l l' -> l <> [] -> entry_rel (last l d) (last l' d).
Proof.
  induction 1 as [|x y l l' Hxy H IH]; intro Hne; [congruence|].
  destruct H as [|x2 y2 l2 l2' Hxy2 H2]; [exact Hxy|]. cbn [last]. cbn [last] in IH. apply IH. discriminate.
Qed.

Inductive step_rel : step_result -> step_result -> Prop :=
| sr_cont c c' : config_rel c c' -> config_valid c -> toks_ok (c_input c) -> step_rel (Continue c) (Continue c')
| sr_stop o c c' : config_rel c c' -> step_rel (Stop o c) (Stop o c').

Lemma toks_tl input : toks_ok input -> toks_ok (tl input).
Proof. unfold toks_ok. destruct input; [trivial|]. intro H. now inversion H. Qed.

Lemma next_tok_ok eoff input : toks_ok input -> 0 < terms -> 0 <= t_sym (next_tok eoff input) < terms.
Proof.
  unfold next_tok, toks_ok. destruct input as [|t rest]; cbn; [lia|]. intros H _. now inversion H.
Qed.

(* one loop iteration of the minimized parser mirrors one iteration of the original *)
Lemma step_sim eoff c c' : 0 < terms -> config_rel c c' -> config_valid c -> toks_ok (c_input c) ->
  step_rel (step m eoff c) (step m' eoff c').
Proof.
  intros Hterms [Hst Hs Hin Hsh Htr] [Hv Hvs] Htok. unfold step.
  rewrite Hin, Hs, Hsh, (remap'_valid _ Hv).
  pose proof (next_tok_ok eoff (c_input c) Htok Hterms) as Hnx.
  set (nx := next_tok eoff (c_input c)) in *.
  assert (Hmore : Forall (fun x => 0 <= x < terms) (map t_sym (tl (c_input c)))).
  { apply Forall_map. apply (toks_tl _ Htok). }
  pose proof (Hact (c_state c) (t_sym nx) _ Hv Hnx Hmore) as Ha.
  assert (Hcr : config_rel c c') by (constructor; assumption).
  destruct (m_act m (c_state c) (t_sym nx) (map t_sym (tl (c_input c)))) as [q|r| |row] eqn:E1;
  destruct (m_act m' (remap (c_state c)) (t_sym nx) (map t_sym (tl (c_input c)))) as [q'|r'| |row'] eqn:E2;
    cbn in Ha; try contradiction; try (apply sr_stop; exact Hcr).
  - (* shift *)
    destruct Ha as [Hq ->]. apply sr_cont.
    + constructor; cbn [c_stack c_state c_input c_shifted c_trace].
      * constructor; [|exact Hst]. repeat split; cbn. now rewrite remap'_valid.
      * now rewrite remap'_valid.
      * destruct (t_sym nx =? 0); congruence.
      * reflexivity.
      * constructor; [|exact Htr]. cbn. split; [reflexivity|now rewrite remap'_valid].
    + split; cbn; [exact Hq|]. constructor; [exact Hq|exact Hvs].
    + cbn. destruct (t_sym nx =? 0); [exact Htok|now apply toks_tl].
  - (* reduce *)
    destruct (Hrule _ _ Ha) as [Hlen [Hsym Hnt]]. rewrite <- Hlen, <- Hsym.
    rewrite <- (Forall2_length' _ _ _ Hst).
    destruct (length (c_stack c) <=? Z.to_nat (m_rule_len m r))%nat eqn:El; [apply sr_stop; exact Hcr|].
    set (ln := Z.to_nat (m_rule_len m r)) in *.
    pose proof (Forall2_firstn _ ln _ _ Hst) as Hf. pose proof (Forall2_skipn _ ln _ _ Hst) as Hsk.
    assert (Hoff : match ln with O => t_off nx | _ => e_off (last (firstn ln (c_stack c)) (mkEntry 0 0 0 0)) end =
                   match ln with O => t_off nx | _ => e_off (last (firstn ln (c_stack c')) (mkEntry 0 0 0 0)) end).
    { destruct ln as [|k] eqn:Eln; [reflexivity|].
      assert (Hne : firstn (S k) (c_stack c) <> []).
      { apply Nat.leb_gt in El. destruct (c_stack c); [cbn in El; lia|discriminate]. }
      destruct (Forall2_last _ _ (mkEntry 0 0 0 0) Hf Hne) as [_ [H _]]. exact H. }
    assert (Hend : match firstn ln (c_stack c) with [] => t_off nx | top :: _ => e_end top end =
                   match firstn ln (c_stack c') with [] => t_off nx | top :: _ => e_end top end).
    { destruct Hf as [|x y ? ? [_ [_ [H _]]] _]; [reflexivity|exact H]. }
    rewrite <- Hoff, <- Hend.
    (* the state below the handle *)
    assert (Hrest : exists b rest b' rest', skipn ln (c_stack c) = b :: rest /\ skipn ln (c_stack c') = b' :: rest' /\
                    entry_rel b b' /\ Forall2 entry_rel rest rest' /\ valid (e_state b)).
    { apply Nat.leb_gt in El. destruct (skipn ln (c_stack c)) as [|b rest] eqn:Es.
      - assert (length (skipn ln (c_stack c)) = 0%nat) by now rewrite Es. rewrite skipn_length in H. lia.
      - inversion Hsk as [|? b' ? rest' Hbb Hrr]; subst. exists b, rest, b', rest'.
        split; [reflexivity|]. split; [reflexivity|]. split; [exact Hbb|]. split; [exact Hrr|].
        assert (In b (c_stack c)).
        { rewrite <- (firstn_skipn ln (c_stack c)), Es. apply in_or_app. right. now left. }
        rewrite Forall_forall in Hvs. now apply Hvs. }
    destruct Hrest as (b & rest & b' & rest' & Es & Es' & Hbb & Hrr & Hvb).
    assert (Hsk' : Forall2 entry_rel (b :: rest) (b' :: rest')) by (rewrite <- Es, <- Es'; exact Hsk).
    rewrite Es, Es'. destruct Hbb as [_ [_ [_ Hbst]]]. rewrite Hbst, (remap'_valid _ Hvb).
    destruct (Hgoto (e_state b) (m_rule_sym m r) Hvb Hnt) as [[G1 G2]|[G1 G2]]; rewrite G2.
    + rewrite G1. cbn [Z.eqb]. apply sr_stop. constructor; cbn [c_stack c_state c_input c_shifted c_trace].
      * constructor; [repeat split; cbn; reflexivity|exact Hsk'].
      * reflexivity.
      * reflexivity.
      * reflexivity.
      * constructor; [cbn; auto|exact Htr].
    + assert (Hne : (m_goto m (e_state b) (m_rule_sym m r) =? -1) = false) by (unfold valid in G1; lia).
      assert (Hn' : (remap (m_goto m (e_state b) (m_rule_sym m r)) =? -1) = false).
      { pose proof (Hremap _ G1). lia. }
      rewrite Hne, Hn'. apply sr_cont.
      * constructor; cbn [c_stack c_state c_input c_shifted c_trace].
        -- constructor; [repeat split; cbn; now rewrite remap'_valid|exact Hsk'].
        -- now rewrite remap'_valid.
        -- reflexivity.
        -- reflexivity.
        -- constructor; [cbn; auto|exact Htr].
      * split; cbn; [exact G1|]. constructor; [exact G1|].
        rewrite Forall_forall in Hvs |- *. intros e He. apply Hvs.
        rewrite <- (firstn_skipn ln (c_stack c)), Es. apply in_or_app. right. exact He.
      * exact Htok.
Qed.
(* the states in which the original parser tests [state != end] *)
Fixpoint visited (fuel : nat) (eoff end_state : Z) (c : config) : list Z :=
  match fuel with
  | O => []
  | S f => c_state c ::
      (if c_state c =? end_state then []
       else match step m eoff c with Continue c1 => visited f eoff end_state c1 | Stop _ _ => [] end)
  end.

Lemma run_loop_sim eoff end_state : 0 < terms -> valid end_state -> forall fuel c c',
  config_rel c c' -> config_valid c -> toks_ok (c_input c) ->
  (forall s, In s (visited fuel eoff end_state c) -> remap s = remap end_state -> s = end_state) ->
  fst (run_loop fuel m eoff end_state c) = fst (run_loop fuel m' eoff (remap end_state) c') /\
  config_rel (snd (run_loop fuel m eoff end_state c)) (snd (run_loop fuel m' eoff (remap end_state) c')).
Proof.
  intros Hterms Hend. induction fuel as [|f IH]; intros c c' Hcr Hcv Htok Hnc; cbn [run_loop].
  - split; [reflexivity|exact Hcr].
  - pose proof (cr_state _ _ Hcr) as Hs. rewrite (remap'_valid _ (proj1 Hcv)) in Hs. rewrite Hs.
    cbn [visited] in Hnc.
    destruct (c_state c =? end_state) eqn:E.
    + apply Z.eqb_eq in E. rewrite E, Z.eqb_refl. split; [reflexivity|exact Hcr].
    + assert (Hne : (remap (c_state c) =? remap end_state) = false).
      { apply Z.eqb_neq. intro Heq. apply Z.eqb_neq in E. apply E. apply Hnc; [now left|exact Heq]. }
      rewrite Hne. pose proof (step_sim eoff c c' Hterms Hcr Hcv Htok) as Hstep.
      destruct (step m eoff c) as [c1|o c1] eqn:E1; inversion Hstep as [? c1' Hr Hv Ht|? ? c1' Hr]; subst.
      * apply IH; try assumption. intros s Hin. apply Hnc. right. exact Hin.
      * cbn [fst snd]. split; [reflexivity|exact Hr].
Qed.

(* the minimized parser started at the remapped entry behaves like the original on EVERY token sequence,
   as long as the original never sits in a state that was merged with its end state *)
Theorem run_sim fuel start end_state eoff input : 0 < terms -> valid start -> valid end_state -> toks_ok input ->
  (forall s, In s (visited fuel eoff end_state (mkConfig [mkEntry 0 0 0 start] start input 0 [])) ->
             remap s = remap end_state -> s = end_state) ->
  fst (run fuel m start end_state eoff input) = fst (run fuel m' (remap start) (remap end_state) eoff input) /\
  config_rel (snd (run fuel m start end_state eoff input)) (snd (run fuel m' (remap start) (remap end_state) eoff input)).
Proof.
  intros Hterms Hs He Htok Hnc. unfold run. apply run_loop_sim; try assumption.
  - constructor; cbn; [|now rewrite remap'_valid|reflexivity|reflexivity|constructor].
    constructor; [|constructor]. repeat split; cbn. now rewrite remap'_valid.
  - split; cbn; [exact Hs|]. constructor; [exact Hs|constructor].
Qed.
End Simulation.

(* ================= from the boolean check to the simulation hypotheses ================= *)
Lemma in_zseq' n x : In x (zseq n) <-> 0 <= x < n.
Proof.
  unfold zseq. rewrite in_map_iff. split.
  - intros [k [<- Hk]]. apply in_seq in Hk. lia.
  - intro H. exists (Z.to_nat x). split; [lia|]. apply in_seq. lia.
Qed.

Lemma zlist_eqb_eq a : forall b, zlist_eqb a b = true <-> a = b.
Proof.
  induction a as [|x a IH]; destruct b as [|y b]; cbn [zlist_eqb]; try (split; discriminate); [tauto|].
  rewrite andb_true_iff, Z.eqb_eq, IH. split; [intros [-> ->]; reflexivity|intros [= -> ->]; auto].
Qed.

(* without an LALR(k) row the decoded action does not look at the tokens after the next one *)
Lemma default_act_shallow t s a more : lalr_deep t s a = false -> default_act t s a more = default_act t s a [].
Proof.
  unfold lalr_deep, default_act. destruct (zn (d_action t) s <? -2) eqn:E0.
  - intro H. rewrite H. reflexivity.
  - intros _. rewrite E0. reflexivity.
Qed.

Section Bridge.
Variables (mi : min_input) (rule_sym : list Z) (mo : min_output) (terms ninputs : Z).
Hypothesis Hck : check_min mi rule_sym mo terms ninputs = true.

Let t := mi_enc mi.
Let t' := mo_enc mo.
Let n := mi_num_states mi.
Let remap := zn (mo_remap mo).
Let nsyms := zlength (d_goto t) - 1.
Let nrules := zlength (mi_rule_len mi).
Let m := default_machine t (mi_rule_len mi) rule_sym.
Let m' := default_machine t' (mi_rule_len mi) rule_sym.

Definition rel_rule_of (r r' : Z) : Prop :=
  0 <= r < nrules /\ 0 <= r' < nrules /\ rule_key_full mi rule_sym r = rule_key_full mi rule_sym r'.

Lemma ck_parts :
  (forall s, 0 <= s < n -> 0 <= remap s < mo_num_states mo) /\
  (forall i, 0 <= i < ninputs -> remap i = i) /\
  mo_final mo = map remap (mi_final mi) /\
  (forall r, 0 <= r < nrules -> terms <= zn rule_sym r < nsyms) /\
  (forall s a, 0 <= s < n -> 0 <= a < terms ->
     lalr_deep t s a = false /\ lalr_deep t' (remap s) a = false /\
     match default_act t s a [], default_act t' (remap s) a [] with
     | Shift q, Shift q' => 0 <= q < n /\ q' = remap q
     | Reduce r, Reduce r' => rel_rule_of r r'
     | Err, Err => True
     | _, _ => False
     end) /\
  (forall s x, 0 <= s < n -> terms <= x < nsyms ->
     (goto_state t s x = -1 /\ goto_state t' (remap s) x = -1) \/
     (0 <= goto_state t s x < n /\ goto_state t' (remap s) x = remap (goto_state t s x))).
Proof.
  unfold check_min in Hck. fold t t' n nsyms nrules in Hck. rewrite !andb_true_iff in Hck.
  destruct Hck as [[[[[H1 H2] H3] H4] H5] H6]. repeat split.
  - rewrite forallb_forall in H1. specialize (H1 s (proj2 (in_zseq' _ _) H)). unfold remap. lia.
  - rewrite forallb_forall in H1. specialize (H1 s (proj2 (in_zseq' _ _) H)). unfold remap. lia.
  - intros i Hi. rewrite forallb_forall in H2. specialize (H2 i (proj2 (in_zseq' _ _) Hi)). unfold remap. lia.
  - now apply zlist_eqb_eq.
  - rewrite forallb_forall in H4. specialize (H4 r (proj2 (in_zseq' _ _) H)). lia.
  - rewrite forallb_forall in H4. specialize (H4 r (proj2 (in_zseq' _ _) H)). lia.
  - rewrite forallb_forall in H5. specialize (H5 s (proj2 (in_zseq' _ _) H)).
    rewrite forallb_forall in H5. specialize (H5 a (proj2 (in_zseq' _ _) H0)).
    rewrite !andb_true_iff in H5. destruct H5 as [[D1 D2] _]. now apply negb_true_iff.
  - rewrite forallb_forall in H5. specialize (H5 s (proj2 (in_zseq' _ _) H)).
    rewrite forallb_forall in H5. specialize (H5 a (proj2 (in_zseq' _ _) H0)).
    rewrite !andb_true_iff in H5. destruct H5 as [[D1 D2] _]. now apply negb_true_iff.
  - rewrite forallb_forall in H5. specialize (H5 s (proj2 (in_zseq' _ _) H)).
    rewrite forallb_forall in H5. specialize (H5 a (proj2 (in_zseq' _ _) H0)).
    rewrite !andb_true_iff in H5. destruct H5 as [_ D3]. fold remap in D3.
    destruct (default_act t s a []), (default_act t' (remap s) a []); try discriminate; try exact I.
    + unfold remap in *. lia.
    + rewrite !andb_true_iff in D3. destruct D3 as [[[[R1 R2] R3] R4] R5]. apply zlist_eqb_eq in R5.
      unfold rel_rule_of. repeat split; try lia. exact R5.
  - intros s x Hs Hx. rewrite forallb_forall in H6. specialize (H6 s (proj2 (in_zseq' _ _) Hs)).
    rewrite forallb_forall in H6.
    assert (Hin : In x (map (fun i => terms + i) (zseq (nsyms - terms)))).
    { apply in_map_iff. exists (x - terms). split; [lia|]. apply in_zseq'. lia. }
    specialize (H6 x Hin). cbn zeta in H6. fold remap in H6.
    destruct (goto_state t s x =? -1) eqn:E.
    + left. split; lia.
    + right. unfold remap in *. lia.
Qed.

(* C06: if the check passes, the minimized parser started at input i's entry state mirrors the original on
   every token sequence (same outcome, related stacks and traces), provided the original run never sits in a
   state merged with its end state. *)
Theorem minimized_parser_simulates : 0 < terms ->
  forall i, 0 <= i < ninputs -> i < n ->
  forall end_state, 0 <= end_state < n ->
  forall fuel eoff input, Forall (fun tk => 0 <= t_sym tk < terms) input ->
  (forall s, In s (visited m fuel eoff end_state (mkConfig [mkEntry 0 0 0 i] i input 0 [])) ->
             remap s = remap end_state -> s = end_state) ->
  fst (run fuel m i end_state eoff input) = fst (run fuel m' i (remap end_state) eoff input) /\
  config_rel remap rel_rule_of (snd (run fuel m i end_state eoff input)) (snd (run fuel m' i (remap end_state) eoff input)).
Proof.
  intros Hterms i Hi Hin end_state Hend fuel eoff input Htok Hnc.
  destruct ck_parts as (P1 & P2 & P3 & P4 & P5 & P6).
  assert (Hrule : forall r r', rel_rule_of r r' ->
    m_rule_len m r = m_rule_len m' r' /\ m_rule_sym m r = m_rule_sym m' r' /\ terms <= m_rule_sym m r < nsyms).
  { intros r r' (R1 & R2 & R3). unfold m, m', default_machine; cbn [m_rule_len m_rule_sym].
    unfold rule_key_full in R3.
    destruct ((0 <=? r) && (r <? zlength (map (fun _ => 0) (mi_rule_keys mi)))) eqn:E1;
    destruct ((0 <=? r') && (r' <? zlength (map (fun _ => 0) (mi_rule_keys mi)))) eqn:E2.
    + injection R3 as L S _. rewrite L, S. repeat split; try reflexivity; apply (P4 r'); exact R2.
    + discriminate.
    + discriminate.
    + injection R3 as <-. repeat split; try reflexivity; apply (P4 r); exact R1. }
  assert (Hact : forall s a more, valid n s -> 0 <= a < terms -> Forall (fun x => 0 <= x < terms) more ->
    act_sim remap n rel_rule_of (m_act m s a more) (m_act m' (remap s) a more)).
  { intros s a more Hs Ha _. destruct (P5 s a Hs Ha) as (D1 & D2 & D3).
    unfold m, m'; cbn [m_act default_machine].
    rewrite (default_act_shallow t s a more D1), (default_act_shallow t' (remap s) a more D2).
    unfold act_sim, valid. destruct (default_act t s a []), (default_act t' (remap s) a []); try contradiction; auto. }
  assert (Hremap : forall s, valid n s -> 0 <= remap s) by (intros s Hs; destruct (P1 s Hs); lia).
  assert (Hgoto : forall s x, valid n s -> terms <= x < nsyms ->
    (m_goto m s x = -1 /\ m_goto m' (remap s) x = -1) \/
    (valid n (m_goto m s x) /\ m_goto m' (remap s) x = remap (m_goto m s x))).
  { intros s x Hs Hx. unfold m, m'; cbn [m_goto default_machine]. apply (P6 s x Hs Hx). }
  pose proof (run_sim m m' remap n terms nsyms rel_rule_of Hrule Hact Hremap Hgoto fuel i end_state eoff input
                Hterms ltac:(unfold valid; lia) Hend Htok Hnc) as H.
  rewrite (P2 i Hi) in H. exact H.
Qed.
End Bridge.
