(* Declarative derivations of a CFG and an executable chart recogniser (specification oracle, P3). *)
From Coq Require Import List ZArith Bool Arith.
From TM Require Import Gram.Cfg.
Import ListNotations.
Local Open Scope Z_scope.

(* X =>* w : symbol X derives the terminal string w *)
Inductive derives (g : grammar) : Z -> list Z -> Prop :=
| d_term a : is_term g a = true -> derives g a [a]
| d_rule r w : In r (g_rules g) -> derives_seq g (r_rhs r) w -> derives g (r_lhs r) w
with derives_seq (g : grammar) : list Z -> list Z -> Prop :=
| ds_nil : derives_seq g [] []
| ds_cons x xs w1 w2 : derives g x w1 -> derives_seq g xs w2 -> derives_seq g (x :: xs) (w1 ++ w2).

(* ---------- chart recogniser ---------- *)
(* chart : (i, j) -> nonterminals deriving w[i..j) ; stored as a list indexed by i * (n+1) + j *)
Definition chart := list (list Z).

Definition cget (n : nat) (c : chart) (i j : nat) : list Z := nth (i * S n + j) c [].

Definition sym_derives (g : grammar) (w : list Z) (n : nat) (c : chart) (x : Z) (i j : nat) : bool :=
  if is_term g x then Nat.eqb j (S i) && (nth i w (-1) =? x)
  else mem x (cget n c i j).

(* can the symbol string xs derive w[i..j) given the chart?  positions reachable after each symbol *)
Fixpoint seq_ends (g : grammar) (w : list Z) (n : nat) (c : chart) (xs : list Z) (starts : list nat) (j : nat) : list nat :=
  match xs with
  | [] => starts
  | x :: rest =>
      let next := filter (fun p => existsb (fun s => sym_derives g w n c x s p) starts) (seq 0 (S j)) in
      seq_ends g w n c rest next j
  end.

Definition rule_derives (g : grammar) (w : list Z) (n : nat) (c : chart) (r : rule) (i j : nat) : bool :=
  existsb (Nat.eqb j) (seq_ends g w n c (r_rhs r) [i] j).

Definition chart_step (g : grammar) (w : list Z) (n : nat) (c : chart) : chart :=
  map (fun k =>
      let i := (k / S n)%nat in let j := (k mod S n)%nat in
      if (i <=? j)%nat then
        fold_left (fun acc r => if rule_derives g w n c r i j then ins (r_lhs r) acc else acc) (g_rules g) (nth k c [])
      else []) (seq 0 (S n * S n)).

Definition chart_size (c : chart) : nat := fold_left (fun s l => (s + length l)%nat) c 0%nat.

Fixpoint chart_fix (fuel : nat) (g : grammar) (w : list Z) (n : nat) (c : chart) : chart :=
  match fuel with
  | O => c
  | S f => let c' := chart_step g w n c in
           if Nat.eqb (chart_size c') (chart_size c) then c else chart_fix f g w n c'
  end.

Definition build_chart (g : grammar) (w : list Z) : chart :=
  let n := length w in
  chart_fix (S (S n * S n * Z.to_nat (g_nonterms g))) g w n (repeat [] (S n * S n)).

(* does nonterminal/terminal x derive the whole of w? *)
Definition derives_dec (g : grammar) (x : Z) (w : list Z) : bool :=
  let n := length w in sym_derives g w n (build_chart g w) x 0 n.

(* productive symbols (derive some terminal string) *)
Definition productive_step (g : grammar) (ps : list Z) : list Z :=
  fold_left (fun ps r => if forallb (fun s => is_term g s || mem s ps) (r_rhs r) then ins (r_lhs r) ps else ps) (g_rules g) ps.
Definition productive_set (g : grammar) : list Z := iterate (S (Z.to_nat (g_nonterms g))) (productive_step g) [].
Definition is_productive (g : grammar) (ps : list Z) (s : Z) : bool := is_term g s || mem s ps.

(* viable prefix of a sentence: exists z, x =>* w z.
   pv : i -> symbols x such that x =>* w[i..n) z for some z *)
Definition pv_table := list (list Z).   (* index i in 0..n *)

Definition sym_pv (g : grammar) (w : list Z) (n : nat) (ps : list Z) (t : pv_table) (x : Z) (i : nat) : bool :=
  if Nat.eqb i n then is_productive g ps x
  else if is_term g x then Nat.eqb n (S i) && (nth i w (-1) =? x)
  else mem x (nth i t []).

(* rule r: X1..Xk; some prefix X1..X(m-1) derives w[i..p) exactly, Xm prefix-derives w[p..n), the rest is productive *)
Fixpoint seq_pv (g : grammar) (w : list Z) (n : nat) (c : chart) (ps : list Z) (t : pv_table)
    (xs : list Z) (starts : list nat) : bool :=
  match xs with
  | [] => existsb (Nat.eqb n) starts
  | x :: rest =>
      (existsb (fun s => sym_pv g w n ps t x s) starts && forallb (is_productive g ps) rest)
      || (let next := filter (fun p => existsb (fun s => sym_derives g w n c x s p) starts) (seq 0 (S n)) in
          match next with [] => false | _ => seq_pv g w n c ps t rest next end)
  end.

Definition pv_step (g : grammar) (w : list Z) (n : nat) (c : chart) (ps : list Z) (t : pv_table) : pv_table :=
  map (fun i => fold_left (fun acc r => if seq_pv g w n c ps t (r_rhs r) [i] then ins (r_lhs r) acc else acc)
                          (g_rules g) (nth i t [])) (seq 0 (S n)).

Fixpoint pv_fix (fuel : nat) (g : grammar) (w : list Z) (n : nat) (c : chart) (ps : list Z) (t : pv_table) : pv_table :=
  match fuel with
  | O => t
  | S f => let t' := pv_step g w n c ps t in
           if Nat.eqb (chart_size t') (chart_size t) then t else pv_fix f g w n c ps t'
  end.

(* is w a prefix of some string derived from x? *)
Definition viable_dec (g : grammar) (x : Z) (w : list Z) : bool :=
  let n := length w in
  let c := build_chart g w in
  let ps := productive_set g in
  let t := pv_fix (S (S n * Z.to_nat (g_nonterms g))) g w n c ps (repeat [] (S n)) in
  sym_pv g w n ps t x 0.
