(* C03: add_finals (private copy of the accepting state, synthesized final and after-EOI states) preserves the
   properties of a complete LR(0) collection that the LALR(1) theorems need.  The automaton after add_finals is
   related to the collection a0 before it by an origin map h on states (copies are mapped to their original,
   synthesized states have no items); the relation J is an invariant of both folds of add_finals. *)
From Coq Require Import List ZArith Bool Arith Lia.
From TM Require Import Gram.Cfg Gram.Derive Gram.LalrRef Gram.LalrSpec Gram.LalrSpec_proofs Gram.LalrSpec_proofs2
                       Gram.LalrCert Gram.LalrCert_proofs Gram.LalrBuild_proofs Gram.LalrClosure_proofs Gram.LalrDone
                       Gram.LalrLoop_proofs.
Import ListNotations.
Local Open Scope Z_scope.

(* ---------- trans_target on the transition lists add_finals builds ---------- *)
Definition key_is (f s : Z) (e : Z * Z * Z) : bool := let '(f', s', _) := e in (f' =? f) && (s' =? s).
Definition tgt_of (o : option (Z * Z * Z)) : option Z := match o with Some (_, _, t) => Some t | None => None end.

Lemma tt_find a f s : trans_target a f s = tgt_of (find (key_is f s) (a_trans a)).
Proof. reflexivity. Qed.

Lemma tt_app_end sts sts' tr e f s t1 :
  trans_target (mkAut sts' (tr ++ [e])) f s = Some t1 ->
  trans_target (mkAut sts tr) f s = Some t1 \/ (trans_target (mkAut sts tr) f s = None /\ e = (f, s, t1)).
Proof.
  rewrite !tt_find. simpl. rewrite find_app. destruct (find (key_is f s) tr) as [[[f' s'] t']|]; [auto|].
  simpl. destruct e as [[f' s'] t']. simpl. destruct ((f' =? f) && (s' =? s)) eqn:E; [|discriminate].
  simpl. intros [= ->]. apply andb_true_iff in E. destruct E as [E1 E2]. apply Z.eqb_eq in E1, E2. subst. auto.
Qed.

Section Redirect.
Variables (i t c : Z) (tr : list (Z * Z * Z)).
Definition redir (f y : Z) : Z := if (f =? i) && (y =? t) then c else y.
Definition red : list (Z * Z * Z) := map (fun '(f, s, t') => if (f =? i) && (t' =? t) then (f, s, c) else (f, s, t')) tr.
Definition cop : list (Z * Z * Z) := flat_map (fun '(f, s, t') => if f =? t then [(c, s, t')] else []) tr.

Lemma find_red f s : tgt_of (find (key_is f s) red) = option_map (redir f) (tgt_of (find (key_is f s) tr)).
Proof.
  unfold red. induction tr as [|[[f' s'] t'] l IH]; simpl; [reflexivity|].
  destruct ((f' =? i) && (t' =? t)) eqn:E; simpl; destruct ((f' =? f) && (s' =? s)) eqn:E2; simpl; auto.
  - apply andb_true_iff in E2. destruct E2 as [E2 _]. apply Z.eqb_eq in E2. subst f'. unfold redir. rewrite E. reflexivity.
  - apply andb_true_iff in E2. destruct E2 as [E2 _]. apply Z.eqb_eq in E2. subst f'. unfold redir. rewrite E. reflexivity.
Qed.

Lemma find_cop_other f s : f <> c -> find (key_is f s) cop = None.
Proof.
  intros Hf. unfold cop. induction tr as [|[[f' s'] t'] l IH]; simpl; [reflexivity|].
  destruct (f' =? t); simpl; auto. destruct (Z.eqb_spec c f); [congruence|]. simpl. exact IH.
Qed.

Lemma find_cop_c s : tgt_of (find (key_is c s) cop) = tgt_of (find (key_is t s) tr).
Proof.
  unfold cop. induction tr as [|[[f' s'] t'] l IH]; simpl; [reflexivity|].
  destruct (f' =? t); simpl; auto. rewrite Z.eqb_refl. simpl. destruct (s' =? s); simpl; auto.
Qed.

Lemma find_red_none f s : find (key_is f s) tr = None -> find (key_is f s) red = None.
Proof.
  unfold red. induction tr as [|[[f' s'] t'] l IH]; simpl; [reflexivity|].
  destruct ((f' =? f) && (s' =? s)) eqn:E2; [discriminate|]. intros H.
  destruct ((f' =? i) && (t' =? t)); simpl; rewrite E2; auto.
Qed.

Lemma tt_redirect sts sts' f s :
  (forall f' s' t', In (f', s', t') tr -> f' <> c) ->
  trans_target (mkAut sts' (red ++ cop)) f s =
  if f =? c then trans_target (mkAut sts tr) t s else option_map (redir f) (trans_target (mkAut sts tr) f s).
Proof.
  intros Hwf. rewrite !tt_find. simpl. rewrite find_app.
  destruct (Z.eqb_spec f c) as [->|Hne].
  - rewrite find_red_none.
    + rewrite find_cop_c. reflexivity.
    + destruct (find (key_is c s) tr) as [[[f' s'] t']|] eqn:E; auto. apply find_some in E. destruct E as [Hin Hk].
      simpl in Hk. apply andb_true_iff in Hk. destruct Hk as [Hk _]. apply Z.eqb_eq in Hk. subst. exfalso. eapply Hwf; eauto.
  - pose proof (find_red f s) as H. destruct (find (key_is f s) red) as [[[f' s'] t']|] eqn:E.
    + exact H.
    + rewrite find_cop_other by auto. exact H.
Qed.
End Redirect.

Section Finals.
Variable g : grammar.
Variable a0 : automaton.

Definition vin (i : Z) : Prop := 0 <= i /\ exists inp, nth_error (g_inputs g) (Z.to_nat i) = Some inp.
Definition its (st : lstate) : list item := closure g (s_kernel st) (s_seed st).
Definition n0 : Z := Z.of_nat (length (a_states a0)).

Hypothesis Hterms : 0 <= g_terms g.
Hypothesis Hrange : forall r, In r (g_rules g) -> g_terms g <= r_lhs r < g_terms g + g_nonterms g.
Hypothesis H0_starts : starts_present g a0.
Hypothesis H0_seeds : seeds_ok g a0.
Hypothesis H0_kind : forall q st, nth_error (a_states a0) q = Some st -> s_kind st = 0.
Hypothesis H0_complete : aut_complete g a0.
Hypothesis H0_total : aut_total g a0.
Hypothesis H0_strong : forall i gamma q, reach a0 i gamma q -> vin i ->
  forall st it, nth_error (a_states a0) (Z.to_nat q) = Some st -> In it (its st) -> lr0_valid g i gamma it.
Hypothesis H0_tseed : forall f s t, trans_target a0 f s = Some t ->
  0 <= t /\ exists st, nth_error (a_states a0) (Z.to_nat t) = Some st /\ s_seed st = None.

Definition synP (st : lstate) : Prop :=
  s_kernel st = [] /\ s_kind st <> 0 /\ exists j, 0 <= j /\ s_seed st = Some (-1 - j).

Lemma iterate_nil n : iterate n (closure_step g) [] = [].
Proof. induction n as [|n IH]; simpl; auto. Qed.

Lemma synP_items st : synP st -> its st = [].
Proof.
  intros (Hk & _ & j & Hj & Hs). unfold its, closure. rewrite Hk, Hs.
  destruct (rules_of g (-1 - j)) as [|r rs] eqn:E; [simpl; apply iterate_nil|].
  destruct (rules_of_lhs g (-1 - j) r) as (rl & Hrl & Hl); [rewrite E; left; reflexivity|].
  specialize (Hrange rl Hrl). lia.
Qed.

Definition st_at (a : automaton) (q : Z) (st : lstate) : Prop := 0 <= q /\ nth_error (a_states a) (Z.to_nat q) = Some st.

Record J (a : automaton) (h : Z -> Z) : Prop := mkJ {
  j_pre : exists extra, a_states a = a_states a0 ++ extra;
  j_h0 : forall q, 0 <= q < n0 -> h q = q;
  j_st : forall q st, st_at a q st ->
           synP st \/ (s_kind st = 0 /\ st_at a0 (h q) st /\ (n0 <= q -> s_seed st = None));
  j_wf : forall f s t, In (f, s, t) (a_trans a) ->
           0 <= f < Z.of_nat (length (a_states a)) /\ 0 <= t < Z.of_nat (length (a_states a));
  j_tr : forall f s t stf stt, trans_target a f s = Some t -> st_at a f stf -> st_at a t stt ->
           (synP stt /\ (s_kind stf = 0 -> trans_target a0 (h f) s = None)) \/
           (s_kind stf = 0 /\ s_kind stt = 0 /\ trans_target a0 (h f) s = Some (h t));
  j_fw : forall f stf s t0, st_at a f stf -> s_kind stf = 0 -> trans_target a0 (h f) s = Some t0 ->
           exists t, trans_target a f s = Some t /\ h t = t0;
  j_reach : forall q st, st_at a q st -> s_kind st = 0 -> exists i gamma, vin i /\ reach a i gamma q;
  j_shadow : forall f s t stt, In (f, s, t) (a_trans a) -> st_at a t stt -> s_kind stt = 0 -> trans_target a f s = Some t
}.

Lemma len_pos (a : automaton) q st : st_at a q st -> 0 <= q < Z.of_nat (length (a_states a)).
Proof. intros [H1 H2]. assert ((Z.to_nat q < length (a_states a))%nat) by (apply nth_error_Some; congruence). lia. Qed.

Lemma st_at_ex (a : automaton) q : 0 <= q < Z.of_nat (length (a_states a)) -> exists st, st_at a q st.
Proof.
  intros H. destruct (nth_error (a_states a) (Z.to_nat q)) as [st|] eqn:E; [exists st; split; [lia|auto]|].
  apply nth_error_None in E. lia.
Qed.

Lemma tt_targets a h f s t : J a h -> trans_target a f s = Some t ->
  0 <= f < Z.of_nat (length (a_states a)) /\ 0 <= t < Z.of_nat (length (a_states a)).
Proof. intros HJ H. apply trans_target_In in H. eapply j_wf; eauto. Qed.

Lemma synP_kind st : synP st -> s_kind st = 0 -> False.
Proof. intros (_ & H & _) E. auto. Qed.

(* ---------- step (A): a synthesized state and a transition to it at the end of the list ---------- *)
Lemma J_add_syn a h f0 s0 syn :
  J a h -> synP syn -> 0 <= f0 < Z.of_nat (length (a_states a)) ->
  J (mkAut (a_states a ++ [syn]) (a_trans a ++ [(f0, s0, Z.of_nat (length (a_states a)))])) h.
Proof.
  intros HJ Hsyn Hf0. destruct a as [sts tr]. cbn [a_states a_trans] in *.
  set (c := Z.of_nat (length sts)). set (a := mkAut sts tr). set (a' := mkAut (sts ++ [syn]) (tr ++ [(f0, s0, c)])).
  assert (Hold : forall q st, st_at a' q st -> q <> c -> st_at a q st).
  { intros q st [Hq Hst] Hne. split; auto. cbn [a_states a'] in Hst.
    assert ((Z.to_nat q < length (sts ++ [syn]))%nat) by (apply nth_error_Some; congruence).
    rewrite app_length in H. simpl in H. rewrite nth_error_app1 in Hst by (unfold c in Hne; lia). exact Hst. }
  assert (Hc : forall st, st_at a' c st -> st = syn).
  { intros st [_ Hst]. cbn [a_states a'] in Hst. unfold c in Hst.
    rewrite Nat2Z.id, nth_error_app2, Nat.sub_diag in Hst by lia. simpl in Hst. congruence. }
  assert (Hup : forall q st, st_at a q st -> st_at a' q st).
  { intros q st [Hq Hst]. split; auto. cbn [a_states a']. rewrite nth_error_app1; auto. apply nth_error_Some. cbn [a_states a] in Hst. congruence. }
  assert (Hmono : forall f s t, trans_target a f s = Some t -> trans_target a' f s = Some t).
  { intros. eapply trans_target_app_l; eauto. }
  constructor.
  - destruct (j_pre _ _ HJ) as [extra E]. cbn [a_states a] in E. cbn [a_states a']. exists (extra ++ [syn]). rewrite E, app_assoc. reflexivity.
  - apply (j_h0 _ _ HJ).
  - intros q st Hst. destruct (Z.eq_dec q c) as [->|Hne].
    + apply Hc in Hst. subst. auto.
    + apply (j_st _ _ HJ). auto.
  - intros f s t Hin. cbn [a_states a_trans a'] in *. rewrite app_length. simpl.
    apply in_app_or in Hin. destruct Hin as [Hin|[[= <- <- <-]|[]]].
    + pose proof (j_wf _ _ HJ f s t Hin) as H. cbn [a_states a] in H. lia.
    + fold c. lia.
  - intros f s t stf stt Htt Hf Ht. apply (tt_app_end sts) in Htt. destruct Htt as [Htt|[Hnone [= <- <- <-]]].
    + fold a in Htt. destruct (tt_targets a h f s t HJ Htt) as [H1 H2]. cbn [a_states a] in H1, H2.
      apply (j_tr _ _ HJ f s t); auto; apply Hold; auto; unfold c; lia.
    + apply Hc in Ht. subst stt. left. split; auto. intros Hk.
      destruct (trans_target a0 (h f0) s0) as [t0|] eqn:E; auto.
      assert (Hf' : st_at a f0 stf) by (apply Hold; auto; unfold c; lia).
      destruct (j_fw _ _ HJ f0 stf s0 t0 Hf' Hk E) as (t & Ht & _). unfold a in Ht. congruence.
  - intros f stf s t0 Hf Hk E. destruct (Z.eq_dec f c) as [->|Hne].
    + apply Hc in Hf. subst. exfalso. eapply synP_kind; eauto.
    + destruct (j_fw _ _ HJ f stf s t0 (Hold _ _ Hf Hne) Hk E) as (t & Ht & Hh). exists t. split; auto.
  - intros q st Hst Hk. destruct (Z.eq_dec q c) as [->|Hne].
    + apply Hc in Hst. subst. exfalso. eapply synP_kind; eauto.
    + destruct (j_reach _ _ HJ q st (Hold _ _ Hst Hne) Hk) as (i & gamma & Hi & Hr). exists i, gamma. split; auto.
      eapply reach_mono; [|exact Hr]. exact Hmono.
  - intros f s t stt Hin Ht Hk. cbn [a_trans a'] in Hin. apply in_app_or in Hin. destruct Hin as [Hin|[[= <- <- <-]|[]]].
    + apply Hmono. destruct (j_wf _ _ HJ f s t Hin) as [_ H2]. cbn [a_states] in H2.
      apply (j_shadow _ _ HJ f s t stt); auto. apply Hold; auto. unfold c. lia.
    + apply Hc in Ht. subst. exfalso. eapply synP_kind; eauto.
Qed.

(* ---------- step (B): a private copy c of the accepting state t of input i ---------- *)
Lemma vin_lt i : vin i -> 0 <= i < n0.
Proof.
  intros (Hi & [nt e] & Hinp). destruct (H0_starts i nt e Hi Hinp) as (st & Hst & _).
  assert ((Z.to_nat i < length (a_states a0))%nat) by (apply nth_error_Some; congruence). unfold n0. lia.
Qed.

Lemma J_len a h : J a h -> n0 <= Z.of_nat (length (a_states a)).
Proof. intros HJ. destruct (j_pre _ _ HJ) as [extra E]. rewrite E, app_length. unfold n0. lia. Qed.

Lemma J_copy a h i t S st_t :
  J a h -> vin i -> trans_target a i S = Some t -> st_at a t st_t ->
  (exists f s', In (f, s', t) (a_trans a) /\ f <> i) ->
  let c := Z.of_nat (length (a_states a)) in
  J (mkAut (a_states a ++ [st_t]) (red i t c (a_trans a) ++ cop t c (a_trans a))) (fun q => if q =? c then h t else h q).
Proof.
  intros HJ Hvin Hit Hstt (fw & sw & Hinw & Hnew) c. pose proof (vin_lt i Hvin) as Hi. pose proof (J_len a h HJ) as Hlen.
  destruct a as [sts tr]. cbn [a_states a_trans] in *.
  set (a := mkAut sts tr) in *. set (a' := mkAut (sts ++ [st_t]) (red i t c tr ++ cop t c tr)).
  set (h' := fun q => if q =? c then h t else h q).
  assert (Htc : 0 <= t < c) by (apply (len_pos a t st_t Hstt)).
  assert (Hh' : forall q, q <> c -> h' q = h q).
  { intros q Hq. unfold h'. destruct (Z.eqb_spec q c); [contradiction|reflexivity]. }
  assert (Hh'c : h' c = h t) by (unfold h'; rewrite Z.eqb_refl; reflexivity).
  assert (Hwf' : forall f' s' t', In (f', s', t') tr -> f' <> c).
  { intros f' s' t' Hin. pose proof (j_wf _ _ HJ f' s' t' Hin) as H. cbn [a_states a] in H. unfold c. lia. }
  assert (Htt : forall f s, trans_target a' f s =
            if f =? c then trans_target a t s else option_map (redir i t c f) (trans_target a f s)).
  { intros f s. unfold a', a. apply tt_redirect. exact Hwf'. }
  assert (Hold : forall q st, st_at a' q st -> q <> c -> st_at a q st).
  { intros q st [Hq Hst] Hne. split; auto. cbn [a_states a'] in Hst.
    assert (H : (Z.to_nat q < length (sts ++ [st_t]))%nat) by (apply nth_error_Some; congruence).
    rewrite app_length in H. simpl in H. rewrite nth_error_app1 in Hst by (unfold c in Hne; lia). exact Hst. }
  assert (Hc : forall st, st_at a' c st -> st = st_t).
  { intros st [_ Hst]. cbn [a_states a'] in Hst. unfold c in Hst.
    rewrite Nat2Z.id, nth_error_app2, Nat.sub_diag in Hst by lia. simpl in Hst. congruence. }
  assert (Hup : forall q st, st_at a q st -> st_at a' q st).
  { intros q st [Hq Hst]. split; auto. cbn [a_states a']. rewrite nth_error_app1; auto. apply nth_error_Some. cbn [a_states a] in Hst. congruence. }
  assert (Hcat : st_at a' c st_t).
  { split; [unfold c; lia|]. cbn [a_states a']. unfold c. rewrite Nat2Z.id, nth_error_app2, Nat.sub_diag by lia. reflexivity. }
  (* every state of a' is a state of a with the same origin *)
  assert (Horig : forall q st, st_at a' q st -> exists q1, st_at a q1 st /\ h' q = h q1 /\ (q <> c -> q1 = q) /\ (q = c -> q1 = t)).
  { intros q st Hst. destruct (Z.eq_dec q c) as [->|Hne].
    - apply Hc in Hst. subst st. exists t. split; [exact Hstt|]. split; [exact Hh'c|]. split; [congruence|auto].
    - exists q. split; [auto|]. split; [auto|]. split; [auto|congruence]. }
  assert (Hlt : forall f s y, trans_target a f s = Some y -> 0 <= f < c /\ 0 <= y < c).
  { intros f s y H. apply (tt_targets a h f s y HJ H). }
  (* forward transformation of paths *)
  assert (Hpath : forall i' gamma q, reach a i' gamma q -> i' <> c ->
            exists q', reach a' i' gamma q' /\ (q' = q \/ (q = t /\ q' = c))).
  { intros i' gamma q Hr Hi'. induction Hr as [|gamma q X y Hr IH Hx].
    - exists i'. split; [constructor|auto].
    - destruct IH as (q' & Hr' & [->|[-> ->]]).
      + exists (redir i t c q y). split.
        * econstructor; [exact Hr'|]. rewrite Htt. destruct (Hlt _ _ _ Hx) as [H1 _].
          destruct (Z.eqb_spec q c); [lia|]. rewrite Hx. reflexivity.
        * unfold redir. destruct ((q =? i) && (y =? t)) eqn:E; auto.
          apply andb_true_iff in E. destruct E as [_ E]. apply Z.eqb_eq in E. auto.
      + exists y. split; auto. econstructor; [exact Hr'|]. rewrite Htt, Z.eqb_refl. exact Hx. }
  constructor.
  - destruct (j_pre _ _ HJ) as [extra E]. cbn [a_states a] in E. cbn [a_states a']. exists (extra ++ [st_t]). rewrite E, app_assoc. reflexivity.
  - intros q Hq. rewrite Hh' by lia. apply (j_h0 _ _ HJ). exact Hq.
  - intros q st Hst. destruct (Z.eq_dec q c) as [->|Hne].
    + apply Hc in Hst. subst st. destruct (j_st _ _ HJ t st_t Hstt) as [Hs|(Hk & Hat & _)]; [left; exact Hs|right].
      rewrite Hh'c. split; auto. split; auto. intros _.
      destruct (st_at_ex a i ltac:(cbn [a_states a]; fold c; lia)) as [sti Hsti].
      destruct (j_tr _ _ HJ i S t sti st_t Hit Hsti Hstt) as [[Hs _]|(_ & _ & Ha0)]; [exfalso; eapply synP_kind; eauto|].
      destruct (H0_tseed _ _ _ Ha0) as (_ & st' & Hst' & Hseed). destruct Hat as [_ Hat]. congruence.
    + rewrite Hh' by auto. apply (j_st _ _ HJ). auto.
  - intros f s t1 Hin. cbn [a_states a_trans a'] in *. rewrite app_length. simpl. fold c.
    apply in_app_or in Hin. destruct Hin as [Hin|Hin].
    + unfold red in Hin. apply in_map_iff in Hin. destruct Hin as ([[f' s'] t'] & E & Hin).
      pose proof (j_wf _ _ HJ f' s' t' Hin) as H. cbn [a_states a] in H. fold c in H.
      destruct ((f' =? i) && (t' =? t)); injection E as <- <- <-; lia.
    + unfold cop in Hin. apply in_flat_map in Hin. destruct Hin as ([[f' s'] t'] & Hin & E).
      pose proof (j_wf _ _ HJ f' s' t' Hin) as H. cbn [a_states a] in H. fold c in H.
      destruct (f' =? t); [|destruct E]. destruct E as [E|[]]. injection E as <- <- <-. lia.
  - intros f s t1 stf stt Htr Hf Ht1. rewrite Htt in Htr.
    destruct (Horig f stf Hf) as (f1 & Hf1 & Ehf & Hfn & Hfc).
    destruct (Horig t1 stt Ht1) as (t2 & Ht2 & Eht & Htn & Htc2).
    rewrite Ehf, Eht.
    destruct (Z.eqb_spec f c) as [->|Hne].
    + rewrite (Hfc eq_refl) in *. destruct (Hlt _ _ _ Htr) as [_ H2]. rewrite (Htn ltac:(lia)) in *.
      apply (j_tr _ _ HJ t s t1 stf stt); auto.
    + rewrite (Hfn Hne) in *. destruct (trans_target a f s) as [y|] eqn:Ey; [|discriminate]. simpl in Htr. injection Htr as Htr.
      destruct (Hlt _ _ _ Ey) as [_ H2]. unfold redir in Htr. destruct ((f =? i) && (y =? t)) eqn:E.
      * subst t1. rewrite (Htc2 eq_refl) in *. apply andb_true_iff in E. destruct E as [_ E]. apply Z.eqb_eq in E. subst y.
        apply (j_tr _ _ HJ f s t stf stt); auto.
      * subst t1. rewrite (Htn ltac:(lia)) in *. apply (j_tr _ _ HJ f s y stf stt); auto.
  - intros f stf s t0 Hf Hk E. destruct (Horig f stf Hf) as (f1 & Hf1 & Ehf & Hfn & Hfc). rewrite Ehf in E.
    destruct (j_fw _ _ HJ f1 stf s t0 Hf1 Hk E) as (t1 & Ht1 & Hht1). destruct (Hlt _ _ _ Ht1) as [H1 H2].
    rewrite Htt. destruct (Z.eqb_spec f c) as [->|Hne].
    + rewrite (Hfc eq_refl) in *. exists t1. split; auto. rewrite Hh' by lia. exact Hht1.
    + rewrite (Hfn Hne) in *. rewrite Ht1. simpl. eexists. split; [reflexivity|].
      unfold redir. destruct ((f =? i) && (t1 =? t)) eqn:E2.
      * apply andb_true_iff in E2. destruct E2 as [_ E2]. apply Z.eqb_eq in E2. subst t1. rewrite Hh'c. exact Hht1.
      * rewrite Hh' by lia. exact Hht1.
  - intros q st Hst Hk. destruct (Z.eq_dec q c) as [->|Hne].
    + exists i, [S]. split; auto. apply (reach_step a' i [] i S c); [constructor|].
      rewrite Htt. destruct (Z.eqb_spec i c); [lia|]. rewrite Hit. simpl. unfold redir. rewrite !Z.eqb_refl. reflexivity.
    + pose proof (Hold _ _ Hst Hne) as Hst1.
      destruct (j_reach _ _ HJ q st Hst1 Hk) as (i' & gamma & Hvi' & Hr).
      pose proof (vin_lt i' Hvi') as Hi'. destruct (Hpath i' gamma q Hr ltac:(lia)) as (q' & Hr' & [->|[-> ->]]).
      * exists i', gamma. auto.
      * (* the old path now ends in the copy: enter t from the other predecessor *)
        assert (Est : st = st_t) by (destruct Hst1 as [_ H1], Hstt as [_ H2]; congruence). subst st.
        pose proof (j_shadow _ _ HJ fw sw t st_t Hinw Hstt Hk) as Hw.
        destruct (Hlt _ _ _ Hw) as [Hfw _].
        destruct (st_at_ex a fw ltac:(cbn [a_states a]; fold c; lia)) as [stw Hstw].
        destruct (j_tr _ _ HJ fw sw t stw st_t Hw Hstw Hstt) as [[Hs _]|(Hkw & _ & _)]; [exfalso; eapply synP_kind; eauto|].
        destruct (j_reach _ _ HJ fw stw Hstw Hkw) as (i2 & gamma2 & Hvi2 & Hr2).
        pose proof (vin_lt i2 Hvi2) as Hi2. destruct (Hpath i2 gamma2 fw Hr2 ltac:(lia)) as (q2 & Hr2' & Hq2).
        exists i2, (gamma2 ++ [sw]). split; auto. econstructor; [exact Hr2'|]. rewrite Htt.
        destruct Hq2 as [->|[-> ->]].
        -- destruct (Z.eqb_spec fw c); [lia|]. rewrite Hw. simpl. unfold redir.
           destruct (Z.eqb_spec fw i); [contradiction|]. reflexivity.
        -- rewrite Z.eqb_refl. exact Hw.
  - intros f s t1 stt Hin Ht1 Hk. cbn [a_trans a'] in Hin. rewrite Htt.
    destruct (Horig t1 stt Ht1) as (t2 & Ht2 & _ & Htn & Htc2).
    apply in_app_or in Hin. destruct Hin as [Hin|Hin].
    + unfold red in Hin. apply in_map_iff in Hin. destruct Hin as ([[f' s'] t'] & E & Hin).
      pose proof (j_wf _ _ HJ f' s' t' Hin) as H. cbn [a_states a] in H. fold c in H.
      destruct ((f' =? i) && (t' =? t)) eqn:E2; injection E as <- <- <-.
      * rewrite (Htc2 eq_refl) in *. apply andb_true_iff in E2. destruct E2 as [E2 E3]. apply Z.eqb_eq in E2, E3. subst f' t'.
        destruct (Z.eqb_spec i c); [lia|]. rewrite (j_shadow _ _ HJ i s' t stt Hin Ht2 Hk). simpl.
        unfold redir. rewrite !Z.eqb_refl. reflexivity.
      * rewrite (Htn ltac:(lia)) in *. destruct (Z.eqb_spec f' c); [lia|].
        rewrite (j_shadow _ _ HJ f' s' t' stt Hin Ht2 Hk). simpl. unfold redir. rewrite E2. reflexivity.
    + unfold cop in Hin. apply in_flat_map in Hin. destruct Hin as ([[f' s'] t'] & Hin & E).
      pose proof (j_wf _ _ HJ f' s' t' Hin) as H. cbn [a_states a] in H. fold c in H.
      destruct (Z.eqb_spec f' t) as [->|]; [|destruct E]. destruct E as [E|[]]. injection E as <- <- <-.
      rewrite Z.eqb_refl. rewrite (Htn ltac:(lia)) in *. apply (j_shadow _ _ HJ t s' t' stt Hin Ht2 Hk).
Qed.

(* ---------- the two folds of add_finals ---------- *)
Hypothesis H0_uniq : forall f s t, In (f, s, t) (a_trans a0) -> trans_target a0 f s = Some t /\ 0 <= f < n0 /\ 0 <= t < n0.
Hypothesis H0_reach : forall q st, st_at a0 q st -> exists i gamma, vin i /\ reach a0 i gamma q.

Lemma J_init : J a0 (fun q => q).
Proof.
  constructor.
  - exists []. rewrite app_nil_r. reflexivity.
  - auto.
  - intros q st Hst. right. split; [eapply H0_kind; apply Hst|]. split; auto.
    intros Hq. pose proof (len_pos a0 q st Hst) as H. unfold n0 in Hq. lia.
  - intros f s t Hin. destruct (H0_uniq f s t Hin) as (_ & H1 & H2). auto.
  - intros f s t stf stt Htt [_ Hf] [_ Ht]. right. split; [eapply H0_kind; eauto|]. split; [eapply H0_kind; eauto|auto].
  - intros f stf s t0 _ _ E. exists t0. auto.
  - intros q st Hst _. apply (H0_reach q st Hst).
  - intros f s t stt Hin _ _. apply (H0_uniq f s t Hin).
Qed.

Definition fin1 (acc : automaton * list Z) (x : Z * (Z * bool)) : automaton * list Z :=
  let '(a, lasts) := acc in let '(i, inp) := x in
  match trans_target a i (fst inp) with
  | Some t =>
      if existsb (fun '(f, _, t') => (t' =? t) && negb (f =? i)) (a_trans a) then
        let c := Z.of_nat (length (a_states a)) in
        let st := nth (Z.to_nat t) (a_states a) (mkState [] None 0) in
        let redirected := map (fun '(f, s, t') => if (f =? i) && (t' =? t) then (f, s, c) else (f, s, t')) (a_trans a) in
        let copied := flat_map (fun '(f, s, t') => if f =? t then [(c, s, t')] else []) (a_trans a) in
        (mkAut (a_states a ++ [st]) (redirected ++ copied), lasts ++ [c])
      else (a, lasts ++ [t])
  | None => let t := Z.of_nat (length (a_states a)) in
            (mkAut (a_states a ++ [mkState [] (Some (-1 - i)) 1]) (a_trans a ++ [(i, fst inp, t)]), lasts ++ [t])
  end.

Definition fin2 (lasts : list Z) (acc : automaton * list Z) (x : Z * (Z * bool)) : automaton * list Z :=
  let '(a, finals) := acc in let '(i, inp) := x in
  let lst := nth (Z.to_nat i) lasts 0 in
  if snd inp then
    let t := Z.of_nat (length (a_states a)) in
    (mkAut (a_states a ++ [mkState [] (Some (-1 - i)) 2]) (a_trans a ++ [(lst, 0, t)]), finals ++ [t])
  else (a, finals ++ [lst]).

Definition inputs_ix : list (Z * (Z * bool)) := combine (zrange (Z.of_nat (length (g_inputs g)))) (g_inputs g).

Lemma add_finals_eq a :
  add_finals g a = let '(a1, lasts) := fold_left fin1 inputs_ix (a, []) in fold_left (fin2 lasts) inputs_ix (a1, []).
Proof. reflexivity. Qed.

Lemma inputs_ix_vin i inp : In (i, inp) inputs_ix -> vin i.
Proof. intros H. apply in_combine_zrange in H. destruct H as [H1 H2]. split; eauto. Qed.

Definition lasts_ok (a : automaton) (lasts : list Z) : Prop :=
  Forall (fun l => 0 <= l < Z.of_nat (length (a_states a))) lasts.

Lemma lasts_ok_grow a a' lasts l :
  (length (a_states a) <= length (a_states a'))%nat -> lasts_ok a lasts -> 0 <= l < Z.of_nat (length (a_states a')) ->
  lasts_ok a' (lasts ++ [l]).
Proof.
  intros Hle Hok Hl. apply Forall_app. split; [|constructor; auto].
  eapply Forall_impl; [|exact Hok]. intros x Hx. simpl in Hx. lia.
Qed.

Lemma syn_state_synP i k : 0 <= i -> k <> 0 -> synP (mkState [] (Some (-1 - i)) k).
Proof. intros Hi Hk. split; [reflexivity|]. split; [exact Hk|]. exists i. auto. Qed.

Lemma fin1_inv acc x : In x inputs_ix ->
  (exists h, J (fst acc) h) /\ lasts_ok (fst acc) (snd acc) ->
  (exists h, J (fst (fin1 acc x)) h) /\ lasts_ok (fst (fin1 acc x)) (snd (fin1 acc x)).
Proof.
  destruct acc as [a lasts], x as [i inp]. intros Hin [[h HJ] Hok]. cbn [fst snd] in *.
  pose proof (inputs_ix_vin i inp Hin) as Hvin. pose proof (vin_lt i Hvin) as Hi. pose proof (J_len a h HJ) as Hlen.
  unfold fin1. destruct (trans_target a i (fst inp)) as [t|] eqn:Ett.
  - destruct (tt_targets a h _ _ _ HJ Ett) as [_ Ht].
    destruct (existsb _ (a_trans a)) eqn:Eex.
    + cbv zeta. cbn [fst snd]. split.
      * eexists. apply (J_copy a h i t (fst inp)); auto.
        -- split; [lia|]. apply nth_error_nth'. lia.
        -- apply existsb_exists in Eex. destruct Eex as ([[f s'] t'] & Hin' & E).
           apply andb_true_iff in E. destruct E as [E1 E2]. apply Z.eqb_eq in E1. subst t'.
           apply negb_true_iff, Z.eqb_neq in E2. eauto.
      * apply (lasts_ok_grow a); auto; cbn [a_states]; rewrite app_length; simpl; lia.
    + cbn [fst snd]. split; eauto. apply (lasts_ok_grow a); auto.
  - cbv zeta. cbn [fst snd]. split.
    + exists h. apply J_add_syn; auto; [apply syn_state_synP; lia|lia].
    + apply (lasts_ok_grow a); auto; cbn [a_states]; rewrite app_length; simpl; lia.
Qed.

Lemma fin2_inv lasts n1 acc x : In x inputs_ix -> Forall (fun l => 0 <= l < n1) lasts ->
  (exists h, J (fst acc) h) /\ n1 <= Z.of_nat (length (a_states (fst acc))) ->
  (exists h, J (fst (fin2 lasts acc x)) h) /\ n1 <= Z.of_nat (length (a_states (fst (fin2 lasts acc x)))).
Proof.
  destruct acc as [a finals], x as [i inp]. intros Hin Hok [[h HJ] Hn1]. cbn [fst snd] in *.
  pose proof (inputs_ix_vin i inp Hin) as Hvin. pose proof (vin_lt i Hvin) as Hi. pose proof (J_len a h HJ) as Hlen.
  unfold fin2. cbv zeta. destruct (snd inp); cbn [fst snd]; [|eauto]. split.
  - exists h. apply J_add_syn; auto; [apply syn_state_synP; lia|].
    destruct (nth_in_or_default (Z.to_nat i) lasts 0) as [H|H].
    + rewrite Forall_forall in Hok. apply Hok in H. lia.
    + rewrite H. lia.
  - cbn [a_states]. rewrite app_length. lia.
Qed.

Theorem add_finals_J : exists h, J (fst (add_finals g a0)) h.
Proof.
  rewrite add_finals_eq.
  pose proof (fold_left_inv (fun acc => (exists h, J (fst acc) h) /\ lasts_ok (fst acc) (snd acc)) fin1 inputs_ix (a0, [])) as H1.
  destruct (fold_left fin1 inputs_ix (a0, [])) as [a1 lasts]. cbn [fst snd] in H1.
  destruct H1 as [HJ1 Hok1].
  - split; [exists (fun q => q); apply J_init|constructor].
  - intros acc x Hin Hacc. apply fin1_inv; auto.
  - pose proof (fold_left_inv (fun acc => (exists h, J (fst acc) h) /\
        Z.of_nat (length (a_states a1)) <= Z.of_nat (length (a_states (fst acc)))) (fin2 lasts) inputs_ix (a1, [])) as H2.
    apply H2.
    + cbn [fst]. split; [exact HJ1|lia].
    + intros acc x Hin Hacc. apply (fin2_inv lasts (Z.of_nat (length (a_states a1)))); auto.
Qed.

(* ---------- what the invariant gives ---------- *)
Lemma snoc_split {A} (l g1 rest : list A) x X : l ++ [x] = g1 ++ X :: rest ->
  (rest = [] /\ l = g1 /\ x = X) \/ exists rest', rest = rest' ++ [x] /\ l = g1 ++ X :: rest'.
Proof.
  induction rest as [|y rest' _] using rev_ind.
  - intros H. apply app_inj_tail in H. destruct H as [-> ->]. auto.
  - intros H. change (g1 ++ X :: rest' ++ [y]) with (g1 ++ (X :: rest') ++ [y]) in H. rewrite app_assoc in H.
    apply app_inj_tail in H. destruct H as [-> ->]. right. eauto.
Qed.

Lemma lr0_valid_prefix i gamma it : lr0_valid g i gamma it ->
  forall g1 X rest, gamma = g1 ++ X :: rest -> exists it1, lr0_valid g i g1 it1 /\ sym_after g it1 = Some X.
Proof.
  induction 1 as [nt eoi r Hi Hinp Hr|gamma it B r Hv IH Es Et Hr|gamma it X0 Hv IH Es]; intros g1 X rest E.
  - destruct g1; discriminate.
  - eapply IH; eauto.
  - apply snoc_split in E. destruct E as [(-> & -> & ->)|(rest' & -> & ->)]; eauto.
Qed.

Lemma lr0_valid_vin i gamma it : lr0_valid g i gamma it -> vin i.
Proof. induction 1; auto. split; eauto. Qed.

Definition Dead (i : Z) (gamma : list Z) : Prop :=
  exists g1 X rest q1, gamma = g1 ++ X :: rest /\ reach a0 i g1 q1 /\ trans_target a0 q1 X = None.

Lemma dead_no_item i gamma it : Dead i gamma -> lr0_valid g i gamma it -> False.
Proof.
  intros (g1 & X & rest & q1 & -> & Hr & Hnone) Hv.
  destruct (lr0_valid_prefix _ _ _ Hv g1 X rest eq_refl) as (it1 & Hv1 & Es).
  destruct (H0_complete i g1 q1 it1 Hr Hv1) as (Hq1 & st & Hst & Hit).
  destruct (H0_total q1 st it1 X Hq1 Hst Hit Es) as [q' Hq']. congruence.
Qed.

Section Result.
Variable a : automaton.
Variable h : Z -> Z.
Hypothesis HJ : J a h.

Lemma J_low q st : 0 <= q < n0 -> st_at a q st -> st_at a0 q st.
Proof.
  intros Hq [H1 H2]. destruct (j_pre _ _ HJ) as [extra E]. rewrite E in H2. rewrite nth_error_app1 in H2 by (unfold n0 in Hq; lia).
  split; auto.
Qed.

Lemma J_kind_cases q st : st_at a q st ->
  (synP st /\ its st = []) \/ (s_kind st = 0 /\ st_at a0 (h q) st /\ (n0 <= q -> s_seed st = None)).
Proof. intros H. destruct (j_st _ _ HJ q st H) as [Hs|Hk]; [left; split; auto; apply synP_items; auto|right; auto]. Qed.

Lemma fin_starts_present : starts_present g a.
Proof.
  intros i nt e Hi Hinp. destruct (H0_starts i nt e Hi Hinp) as (st & Hst & H).
  exists st. split; auto. destruct (j_pre _ _ HJ) as [extra E]. rewrite E. rewrite nth_error_app1; auto.
  apply nth_error_Some. congruence.
Qed.

Lemma fin_seeds_ok : seeds_ok g a.
Proof.
  intros q st nt Hq Hst Hseed Hkind.
  destruct (J_kind_cases q st (conj Hq Hst)) as [[Hs _]|(_ & Hat & Hn)]; [exfalso; eapply synP_kind; eauto|].
  destruct (Z_lt_le_dec q n0) as [Hlt|Hge]; [|rewrite (Hn Hge) in Hseed; discriminate].
  rewrite (j_h0 _ _ HJ q ltac:(lia)) in Hat. destruct Hat as [_ Hat]. eapply H0_seeds; eauto.
Qed.

(* a path of a is a path of a0 through the origins, or it has left the collection a0 over a missing transition *)
Lemma fin_backward i gamma q : reach a i gamma q -> vin i ->
  exists stq, st_at a q stq /\ ((s_kind stq = 0 /\ reach a0 i gamma (h q)) \/ (synP stq /\ Dead i gamma)).
Proof.
  intros Hr Hvin. pose proof (vin_lt i Hvin) as Hi. pose proof (J_len a h HJ) as Hlen.
  induction Hr as [|gamma q X q' Hr IH Hx].
  - destruct (st_at_ex a i ltac:(lia)) as [st Hst]. exists st. split; auto. left.
    pose proof (J_low i st Hi Hst) as [_ H0]. split; [eapply H0_kind; eauto|].
    rewrite (j_h0 _ _ HJ i Hi). constructor.
  - destruct IH as (stq & Hstq & IH). destruct (tt_targets a h _ _ _ HJ Hx) as [_ Hq'].
    destruct (st_at_ex a q' Hq') as [stq' Hstq']. exists stq'. split; auto.
    destruct (j_tr _ _ HJ q X q' stq stq' Hx Hstq Hstq') as [[Hs Hnone]|(Hk & Hk' & Hsome)].
    + right. split; auto. destruct IH as [[Hk Hr0]|[_ (g1 & X1 & rest & q1 & -> & Hr1 & Hn1)]].
      * exists gamma, X, [], (h q). auto.
      * exists g1, X1, (rest ++ [X]), q1. rewrite <- app_assoc. auto.
    + left. split; auto. destruct IH as [[_ Hr0]|[Hs _]]; [|exfalso; eapply synP_kind; eauto].
      econstructor; eauto.
Qed.

Lemma fin_aut_complete : aut_complete g a.
Proof.
  intros i gamma q it Hr Hv. destruct (fin_backward i gamma q Hr (lr0_valid_vin _ _ _ Hv)) as (stq & Hstq & [[Hk Hr0]|[_ Hd]]).
  - split; [apply Hstq|]. exists stq. split; [apply Hstq|].
    destruct (J_kind_cases q stq Hstq) as [[Hs _]|(_ & [_ Hat] & _)]; [exfalso; eapply synP_kind; eauto|].
    destruct (H0_complete i gamma (h q) it Hr0 Hv) as (_ & st & Hst & Hit). congruence.
  - exfalso. eapply dead_no_item; eauto.
Qed.

Lemma fin_aut_sound : aut_sound g a.
Proof.
  intros q st it Hq Hst Hit.
  destruct (J_kind_cases q st (conj Hq Hst)) as [[_ He]|(Hk & Hat & _)]; [unfold its in He; rewrite He in Hit; destruct Hit|].
  destruct (j_reach _ _ HJ q st (conj Hq Hst) Hk) as (i & gamma & Hvin & Hr). exists i, gamma. split; auto.
  destruct (fin_backward i gamma q Hr Hvin) as (stq & [_ Hstq] & [[_ Hr0]|[Hs _]]).
  - destruct Hat as [_ Hat]. eapply H0_strong; eauto.
  - assert (stq = st) by congruence. subst. exfalso. eapply synP_kind; eauto.
Qed.

Lemma fin_aut_total : aut_total g a.
Proof.
  intros q st it s Hq Hst Hit Es.
  destruct (J_kind_cases q st (conj Hq Hst)) as [[_ He]|(Hk & [Hhq Hat] & _)]; [unfold its in He; rewrite He in Hit; destruct Hit|].
  destruct (H0_total (h q) st it s Hhq Hat Hit Es) as [t0 Ht0].
  destruct (j_fw _ _ HJ q st s t0 (conj Hq Hst) Hk Ht0) as (t & Ht & _). eauto.
Qed.
End Result.
End Finals.

(* ---------- the reference automaton of build_automaton ---------- *)
Theorem build_automaton_ok g fuel :
  wf_grammar g = true -> ref_done g fuel = true ->
  let a := fst (build_automaton g fuel) in
  seeds_ok g a /\ aut_sound g a /\ starts_present g a /\ aut_complete g a /\ aut_total g a.
Proof.
  intros Hwf Hd. pose proof (wf_grammar_terms g Hwf) as Hterms. destruct (wf_grammar_range g Hwf) as [Hr1 Hr2].
  unfold build_automaton. fold (start_states g).
  destruct (build_loop_inv2 g fuel _ 0 (start_INV g) Hd) as (k & Hk & HI).
  set (a0 := build_loop fuel g (mkAut (start_states g) []) 0) in *.
  assert (A1 : starts_present g a0) by (eapply inv_starts_present; eauto).
  assert (A2 : seeds_ok g a0) by (eapply inv_seeds_ok; eauto).
  assert (A3 : forall q st, nth_error (a_states a0) q = Some st -> s_kind st = 0) by (intros q st; eapply inv_kind; eauto).
  assert (A4 : aut_complete g a0) by (eapply inv_aut_complete; eauto).
  assert (A5 : aut_total g a0) by (eapply inv_aut_total; eauto).
  assert (A6 : forall i gamma q, reach a0 i gamma q -> vin g i ->
            forall st it, nth_error (a_states a0) (Z.to_nat q) = Some st -> In it (its g st) -> lr0_valid g i gamma it).
  { intros i gamma q Hr [Hi Hinp]. eapply inv_strong_sound; eauto. }
  assert (A7 : forall f s t, trans_target a0 f s = Some t ->
            0 <= t /\ exists st, nth_error (a_states a0) (Z.to_nat t) = Some st /\ s_seed st = None).
  { intros f s t H. destruct (inv_trans g a0 k HI f s t H) as (_ & st & _ & Ht & Hst & _). split; auto.
    eexists. split; [exact Hst|reflexivity]. }
  assert (A8 : forall f s t, In (f, s, t) (a_trans a0) -> trans_target a0 f s = Some t /\ 0 <= f < n0 a0 /\ 0 <= t < n0 a0).
  { intros f s t H. apply (inv_trans_uniq g a0 k HI f s t H). }
  assert (A9 : forall q st, st_at a0 q st -> exists i gamma, vin g i /\ reach a0 i gamma q).
  { intros q st [Hq Hst]. destruct (build_loop_sound_input g fuel q st Hq Hst) as (i & gamma & Hi & Hr & _). exists i, gamma. auto. }
  destruct (add_finals_J g a0 A1 A3 A7 A8 A9) as [h HJ].
  cbv zeta. split; [eapply fin_seeds_ok; eauto|]. split; [eapply fin_aut_sound; eauto|].
  split; [eapply fin_starts_present; eauto|]. split; [eapply fin_aut_complete; eauto|eapply fin_aut_total; eauto].
Qed.
