(* C07 (and a generalisation of the soundness half of C01): soundness and crash-freedom of the parse loop for
   machines whose action may depend on the tokens AFTER the next one (LALR(k) rows), from abstract conditions on
   the machine and an LR(0) item certificate.  ValidatorK.v discharges the conditions by a boolean check. *)
From Coq Require Import List ZArith Bool Arith Lia.
From TM Require Import Gram.Cfg Gram.PTables Gram.Run Gram.Derive Gram.Validator Gram.Validator_proofs.
Import ListNotations.
Local Open Scope Z_scope.

(* the loop stripped of offsets and traces, with the real lookahead window *)
Definition astepk (m : machine) (c : aconfig) : astep_result :=
  let '(st, inp, n) := c in
  let a := match inp with x :: _ => x | [] => 0 end in
  match m_act m (snd (hd (0, -1) st)) a (tl inp) with
  | Reduce rule =>
      let ln := Z.to_nat (m_rule_len m rule) in
      if (length st <=? ln)%nat then AFail true
      else let rest := skipn ln st in
           let s := m_goto m (snd (hd (0, -1) rest)) (m_rule_sym m rule) in
           if s =? -1 then AFail false else ANext ((m_rule_sym m rule, s) :: rest, inp, n)
  | Shift q => ANext ((a, q) :: st, (if a =? 0 then inp else tl inp), n + 1)
  | _ => AFail false
  end.

Fixpoint arunk (fuel : nat) (m : machine) (end_state : Z) (c : aconfig) : aoutcome * aconfig :=
  match fuel with
  | O => (AFuel, c)
  | S f =>
      if snd (hd (0, -1) (fst (fst c))) =? end_state then (AAccept, c)
      else match astepk m c with
           | ANext c' => arunk f m end_state c'
           | AFail true => (ACrash, c)
           | AFail false => (AError, c)
           end
  end.

Definition aparsek (fuel : nat) (m : machine) (finals : list Z) (i : nat) (w : list Z) : aoutcome * aconfig :=
  arunk fuel m (nth i finals (-1)) ([(0, Z.of_nat i)], w, 0).

Section K.
Variable g : grammar.
Variable m : machine.
Variable nstates : Z.
Variable finals : list Z.
Variable ann : cert.

Notation T := (vT g).
Notation NS := (vNS g).
Notation NR := (nrules g).
Notation NI := (ninputs g).
Notation items := (items ann).
Notation has_item := (has_item ann).
Notation trans := (m_goto m).
Notation arule := (arule g).
Notation final_of := (final_of finals).

(* ---- the conditions (all about the machine and the certificate; ValidatorK.check_k implies them) ---- *)
Hypothesis L_rules :
  1 <= T /\ 0 <= g_nonterms g /\
  (forall rl, In rl (g_rules g) -> T <= r_lhs rl < NS /\ forall s, In s (r_rhs rl) -> 1 <= s < NS) /\
  (forall inp, In inp (g_inputs g) -> T <= fst inp < NS).
Hypothesis L_ninputs : Z.of_nat NI <= nstates.
Hypothesis L_trans : forall p X, 0 <= p < nstates -> 0 <= X < NS -> 0 <= trans p X ->
  Z.of_nat NI <= trans p X < nstates /\
  forall r d' L, In (r, S d', L) (items (trans p X)) ->
    exists rl, arule r = Some rl /\ nth_error (r_rhs rl) d' = Some X /\ has_item p r d' = true.
Hypothesis L_reduce : forall p a more r, 0 <= p < nstates -> 0 <= a < T -> m_act m p a more = Reduce r ->
  exists rn rl, r = Z.of_nat rn /\ nth_error (g_rules g) rn = Some rl /\ has_item p rn (length (r_rhs rl)) = true /\
    m_rule_len m r = Z.of_nat (length (r_rhs rl)) /\ m_rule_sym m r = r_lhs rl.
Hypothesis L_shift : forall p a more q, 0 <= p < nstates -> 0 <= a < T -> m_act m p a more = Shift q ->
  q = trans p a /\ 0 <= q.
Hypothesis L_start : forall i r d L, (i < NI)%nat -> In (r, d, L) (items (Z.of_nat i)) -> d = O.
Hypothesis L_final : forall i nt eoi, nth_error (g_inputs g) i = Some (nt, eoi) ->
  Z.of_nat NI <= nstates /\ (i < NI)%nat /\
  has_item (final_of i) (NR + i) (if eoi : bool then 2 else 1) = true /\
  forall q, has_item q (NR + i) 0 = true -> q = Z.of_nat i.
Hypothesis L_goto_def : forall b r L rl, In (r, O, L) (items b) -> nth_error (g_rules g) r = Some rl -> 0 <= m_goto m b (r_lhs rl).

Lemma has_item_In q r d : has_item q r d = true <-> exists L, In (r, d, L) (items q).
Proof.
  unfold Validator.has_item. rewrite existsb_exists. split.
  - intros ([[r' d'] L] & Hin & E). apply andb_true_iff in E. destruct E as [E1 E2].
    apply Nat.eqb_eq in E1. apply Nat.eqb_eq in E2. subst. eauto.
  - intros (L & Hin). exists (r, d, L). split; [exact Hin|]. rewrite !Nat.eqb_refl. reflexivity.
Qed.

(* ================= soundness on the stripped loop ================= *)
Variable i : nat.
Hypothesis Hi : (i < NI)%nat.

Inductive stk : list (Z * Z) -> list Z -> Prop :=
| stk_bot s : stk [(s, Z.of_nat i)] []
| stk_cons X q b rest w1 w2 :
    stk (b :: rest) w1 -> 0 <= X < NS -> trans (snd b) X = q -> 0 <= q -> derives g X w2 ->
    stk ((X, q) :: b :: rest) (w1 ++ w2).

Lemma stk_state st w : stk st w -> 0 <= snd (hd (0, -1) st) < nstates.
Proof.
  induction 1 as [s | X q b rest w1 w2 Hs IH HX Hq Hq0 Hd]; simpl.
  - pose proof L_ninputs. lia.
  - simpl in IH. subst q. destruct (L_trans _ _ IH HX Hq0) as [H _]. lia.
Qed.

Lemma stk_nonbottom X q b rest w : stk ((X, q) :: b :: rest) w -> Z.of_nat NI <= q.
Proof.
  intros H. inversion H as [|X' q' b' rest' w1 w2 Hs HX Hq Hq0 Hd]; subst.
  pose proof (stk_state _ _ Hs) as Hb. simpl in Hb. destruct (L_trans _ _ Hb HX Hq0) as [H1 _]. lia.
Qed.

Lemma spelled d : forall st w r L rl, stk st w -> In (r, d, L) (items (snd (hd (0, -1) st))) -> arule r = Some rl ->
  (d < length st)%nat /\ rev (map fst (firstn d st)) = firstn d (r_rhs rl) /\ has_item (snd (nth d st (0, -1))) r 0 = true.
Proof.
  induction d as [|d' IH]; intros st w r L rl Hs Hin Hr.
  - inversion Hs; subst; simpl in *; (split; [lia|split; [reflexivity|apply has_item_In; eauto]]).
  - inversion Hs as [s | X q b rest w1 w2 Hs' HX Hq Hq0 Hd]; subst; simpl in Hin.
    + apply (L_start _ _ _ _ Hi) in Hin. discriminate.
    + pose proof (stk_state _ _ Hs') as Hb. simpl in Hb.
      destruct (L_trans _ _ Hb HX Hq0) as [_ H2]. destruct (H2 _ _ _ Hin) as (rl' & Hr' & Hnth & Hhas).
      rewrite Hr in Hr'. injection Hr' as <-.
      apply has_item_In in Hhas. destruct Hhas as (L' & Hin').
      destruct (IH (b :: rest) w1 r L' rl Hs' Hin' Hr) as (Hlen & Hrev & Hh0).
      split; [simpl in *; lia|]. split.
      * change (firstn (S d') ((X, trans (snd b) X) :: b :: rest)) with ((X, trans (snd b) X) :: firstn d' (b :: rest)).
        simpl map. simpl rev. rewrite Hrev. symmetry. apply firstn_S_nth_error. exact Hnth.
      * exact Hh0.
Qed.

Lemma derives_seq_app xs ys w1 w2 : derives_seq g xs w1 -> derives_seq g ys w2 -> derives_seq g (xs ++ ys) (w1 ++ w2).
Proof.
  induction 1 as [|x xs' u1 u2 Hx Hxs IH]; simpl; intros Hy; [exact Hy|].
  rewrite <- app_assoc. constructor; auto.
Qed.

Lemma stk_split n : forall st w, stk st w -> (n < length st)%nat ->
  exists w1 w2, w = w1 ++ w2 /\ stk (skipn n st) w1 /\ derives_seq g (rev (map fst (firstn n st))) w2.
Proof.
  induction n as [|n IH]; intros st w Hs Hlen.
  - exists w, []. rewrite app_nil_r. simpl. repeat split; [exact Hs|constructor].
  - inversion Hs as [s | X q b rest w1 w2 Hs' HX Hq Hq0 Hd]; subst; simpl in Hlen; [lia|].
    destruct (IH (b :: rest) w1 Hs') as (u1 & u2 & E & Hs1 & Hd1); [simpl; lia|].
    exists u1, (u2 ++ w2). subst w1. rewrite app_assoc. split; [reflexivity|]. split; [exact Hs1|].
    change (firstn (S n) ((X, trans (snd b) X) :: b :: rest)) with ((X, trans (snd b) X) :: firstn n (b :: rest)).
    simpl map. simpl rev. apply derives_seq_app; [exact Hd1|].
    rewrite <- (app_nil_r w2). constructor; [exact Hd|constructor].
Qed.

Definition nxt (inp : list Z) : Z := match inp with x :: _ => x | [] => 0 end.
Definition toks_ok (inp : list Z) : Prop := Forall (fun a => 1 <= a < T) inp.

Lemma nxt_range inp : toks_ok inp -> 0 <= nxt inp < T.
Proof.
  destruct L_rules as (HT & _). intros H. destruct inp as [|a r]; simpl; [lia|]. inversion H; subst. lia.
Qed.

Section WS.
Variable ws : list Z.
Hypothesis Hws : toks_ok ws.

Definition inv (c : aconfig) : Prop :=
  let '(st, inp, n) := c in
  toks_ok inp /\ exists cons k, stk st cons /\ cons ++ inp = ws ++ repeat 0 k /\ (k <> O -> inp = []) /\ n = Z.of_nat (length cons).

Lemma astep_inv c c' : inv c -> astepk m c = ANext c' -> inv c'.
Proof.
  destruct c as [[st inp] n]. intros (Hok & cons & k & Hs & Hstream & Hk & Hn). unfold astepk.
  pose proof (stk_state _ _ Hs) as Hq. pose proof (nxt_range _ Hok) as Ha. fold (nxt inp).
  destruct (m_act m (snd (hd (0, -1) st)) (nxt inp) (tl inp)) as [q'|r| |row] eqn:Hact; try discriminate.
  - (* shift *)
    intros E. injection E as <-.
    assert (Hst : exists b rest, st = b :: rest) by (inversion Hs; eauto). destruct Hst as (b & rest & ->).
    simpl in Hq, Hact.
    destruct (L_shift _ _ _ _ Hq Ha Hact) as [Htr0 Hq'].
    assert (Htr : trans (snd b) (nxt inp) = q') by (symmetry; exact Htr0).
    assert (Hder : derives g (nxt inp) [nxt inp]).
    { constructor. unfold is_term. apply andb_true_iff. split; [apply Z.leb_le|apply Z.ltb_lt]; unfold vT in Ha; lia. }
    destruct L_rules as (_ & HN & _).
    assert (HX : 0 <= nxt inp < NS) by (unfold vNS, vT in *; lia).
    destruct inp as [|a inp']; simpl.
    + split; [constructor|]. exists (cons ++ [0]), (S k). split; [apply stk_cons; auto|].
      rewrite app_nil_r in *. split; [|split; [reflexivity|rewrite app_length; simpl; lia]]. rewrite Hstream.
      rewrite <- app_assoc. f_equal. change [0] with (repeat 0 1). rewrite <- repeat_app. f_equal. lia.
    + inversion Hok as [|a' l' Ha' Hok']; subst. simpl in *.
      destruct (a =? 0) eqn:E0; [apply Z.eqb_eq in E0; lia|].
      split; [exact Hok'|]. exists (cons ++ [a]), k. split; [apply stk_cons; auto|].
      rewrite <- app_assoc. simpl. split; [exact Hstream|]. split; [|rewrite app_length; simpl; lia].
      intros Hk'. specialize (Hk Hk'). discriminate.
  - (* reduce *)
    destruct (L_reduce _ _ _ _ Hq Ha Hact) as (rn & rl & -> & Hrn & Hhas & Hlen & Hsym).
    rewrite Hlen, Hsym, Nat2Z.id.
    destruct (length st <=? length (r_rhs rl))%nat eqn:El; [discriminate|]. apply Nat.leb_gt in El.
    destruct (m_goto m (snd (hd (0, -1) (skipn (length (r_rhs rl)) st))) (r_lhs rl) =? -1) eqn:Eg; [discriminate|].
    intros E. injection E as <-.
    apply has_item_In in Hhas. destruct Hhas as (L & Hin).
    assert (Har : arule rn = Some rl).
    { unfold Validator.arule. assert (Hlt : (rn <? NR)%nat = true) by (apply Nat.ltb_lt, nth_error_Some; rewrite Hrn; discriminate).
      rewrite Hlt. exact Hrn. }
    destruct (spelled _ _ _ _ _ _ Hs Hin Har) as (_ & Hrev & Hh0).
    rewrite firstn_all in Hrev.
    destruct (stk_split _ _ _ Hs El) as (w1 & w2 & -> & Hs1 & Hd2). rewrite Hrev in Hd2.
    assert (Hrest : exists b rest, skipn (length (r_rhs rl)) st = b :: rest) by (inversion Hs1; eauto).
    destruct Hrest as (b & rest & Erest). rewrite Erest in *. simpl.
    assert (Hnth : nth (length (r_rhs rl)) st (0, -1) = b).
    { rewrite <- (firstn_skipn (length (r_rhs rl)) st) at 1. rewrite app_nth2; rewrite firstn_length_le by lia; [|lia].
      rewrite Nat.sub_diag, Erest. reflexivity. }
    rewrite Hnth in Hh0. apply has_item_In in Hh0. destruct Hh0 as (L0 & Hin0).
    pose proof (L_goto_def _ _ _ _ Hin0 Hrn) as Hg0.
    destruct L_rules as (_ & _ & HR & _). destruct (HR rl (nth_error_In _ _ Hrn)) as [Hlhs _].
    split; [exact Hok|]. exists (w1 ++ w2), k. split; [|split; [assumption|split; assumption]].
    apply stk_cons; auto; [lia|].
    econstructor; [apply (nth_error_In _ _ Hrn)|exact Hd2].
Qed.

Lemma astep_no_crash c : inv c -> astepk m c <> AFail true.
Proof.
  destruct c as [[st inp] n]. intros (Hok & cons & k & Hs & Hstream & Hk & Hn). unfold astepk.
  pose proof (stk_state _ _ Hs) as Hq. pose proof (nxt_range _ Hok) as Ha. fold (nxt inp).
  destruct (m_act m (snd (hd (0, -1) st)) (nxt inp) (tl inp)) as [q'|r| |row] eqn:Hact; try discriminate.
  destruct (L_reduce _ _ _ _ Hq Ha Hact) as (rn & rl & -> & Hrn & Hhas & Hlen & Hsym).
  rewrite Hlen, Hsym, Nat2Z.id.
  apply has_item_In in Hhas. destruct Hhas as (L & Hin).
  assert (Har : arule rn = Some rl).
  { unfold Validator.arule. assert (Hlt : (rn <? NR)%nat = true) by (apply Nat.ltb_lt, nth_error_Some; rewrite Hrn; discriminate).
    rewrite Hlt. exact Hrn. }
  destruct (spelled _ _ _ _ _ _ Hs Hin Har) as (Hl & _ & _).
  destruct (length st <=? length (r_rhs rl))%nat eqn:El; [apply Nat.leb_le in El; lia|].
  destruct (_ =? -1); discriminate.
Qed.

Lemma arun_inv fuel : forall c o c', inv c -> arunk fuel m (final_of i) c = (o, c') -> inv c' /\ o <> ACrash.
Proof.
  induction fuel as [|f IH]; intros c o c' Hinv; simpl.
  - intros E. injection E as <- <-. split; [exact Hinv|discriminate].
  - destruct (snd (hd (0, -1) (fst (fst c))) =? final_of i).
    + intros E. injection E as <- <-. split; [exact Hinv|discriminate].
    + destruct (astepk m c) as [c1|[|]] eqn:Es.
      * apply IH. eapply astep_inv; eauto.
      * exfalso. eapply astep_no_crash; eauto.
      * intros E. injection E as <- <-. split; [exact Hinv|discriminate].
Qed.

Lemma arun_accept_state fuel : forall c c', arunk fuel m (final_of i) c = (AAccept, c') ->
  snd (hd (0, -1) (fst (fst c'))) = final_of i.
Proof.
  induction fuel as [|f IH]; intros c c'; simpl; [discriminate|].
  destruct (snd (hd (0, -1) (fst (fst c))) =? final_of i) eqn:E.
  - intros H. injection H as <-. apply Z.eqb_eq. exact E.
  - destruct (astepk m c) as [c1|[|]]; try discriminate. apply IH.
Qed.

Lemma inv_init : inv ([(0, Z.of_nat i)], ws, 0).
Proof.
  split; [exact Hws|]. exists [], O. split; [constructor|]. simpl. rewrite app_nil_r. split; [reflexivity|split; [congruence|reflexivity]].
Qed.

Lemma derives_term a w : 0 <= a < T -> derives g a w -> w = [a].
Proof.
  intros Ha H. inversion H as [a' Hterm | rl w' Hin Hseq]; subst; [reflexivity|].
  destruct L_rules as (_ & _ & HR & _). destruct (HR _ Hin) as [Hl _]. lia.
Qed.

Lemma derives_no_zero :
  (forall X w, derives g X w -> X <> 0 -> ~ In 0 w) /\
  (forall xs w, derives_seq g xs w -> (forall x, In x xs -> x <> 0) -> ~ In 0 w).
Proof.
  apply derives_mutind.
  - intros a _ Ha [E|[]]. congruence.
  - intros rl w Hin Hseq IH _. apply IH. intros x Hx.
    destruct L_rules as (_ & _ & HR & _). destruct (HR _ Hin) as [_ Hs]. specialize (Hs _ Hx). lia.
  - intros _ [].
  - intros x xs w1 w2 Hx IHx Hxs IHxs Hall Hin. apply in_app_or in Hin. destruct Hin as [Hin|Hin].
    + apply (IHx (Hall x (or_introl eq_refl)) Hin).
    + apply IHxs; [|exact Hin]. intros y Hy. apply Hall. right. exact Hy.
Qed.

Lemma toks_no_zero : ~ In 0 ws.
Proof. intros H. unfold toks_ok in Hws. rewrite Forall_forall in Hws. apply Hws in H. lia. Qed.

Lemma app_zero_eq (a b x y : list Z) : ~ In 0 a -> ~ In 0 b -> a ++ 0 :: x = b ++ 0 :: y -> a = b.
Proof.
  revert b. induction a as [|h a IH]; intros [|h' b] Ha Hb E; simpl in *.
  - reflexivity.
  - injection E as <- _. exfalso. apply Hb. left. reflexivity.
  - injection E as -> _. exfalso. apply Ha. left. reflexivity.
  - injection E as -> E. f_equal. apply IH; auto.
Qed.

Lemma app_prefix_repeat (a x b : list Z) k : ~ In 0 a -> a ++ x = b ++ repeat 0 k -> exists s, b = a ++ s.
Proof.
  revert b. induction a as [|h a IH]; intros b Ha E; simpl in *.
  - exists b. reflexivity.
  - destruct b as [|h' b]; simpl in E.
    + destruct k; simpl in E; [discriminate|]. injection E as -> _. exfalso. apply Ha. left. reflexivity.
    + injection E as -> E. destruct (IH b) as (s & ->); auto. exists s. reflexivity.
Qed.

(* the stripped loop accepts only sentences *)
Theorem arun_sound fuel nt eoi c' :
  nth_error (g_inputs g) i = Some (nt, eoi) ->
  aparsek fuel m finals i ws = (AAccept, c') ->
  if eoi : bool then derives g nt ws else exists p s, ws = p ++ s /\ derives g nt p.
Proof.
  intros Hinp Hrun. unfold aparsek in Hrun. fold (final_of i) in Hrun.
  destruct (arun_inv _ _ _ _ inv_init Hrun) as [Hinv _].
  pose proof (arun_accept_state _ _ _ Hrun) as Hfin.
  destruct c' as [[st inp] n]. simpl in Hfin. destruct Hinv as (Hok & cons & k & Hs & Hstream & Hk & Hn).
  destruct (L_final _ _ _ Hinp) as (_ & _ & Hhas & Huniq).
  destruct L_rules as (HT & _ & _ & HI). pose proof (HI _ (nth_error_In _ _ Hinp)) as Hnt. simpl in Hnt.
  assert (Har : arule (NR + i) = Some (mkRule (NS + Z.of_nat i) (if eoi : bool then [nt; 0] else [nt]) 0)).
  { unfold Validator.arule. assert (E : (NR + i <? NR)%nat = false) by (apply Nat.ltb_ge; lia). rewrite E.
    replace (NR + i - NR)%nat with i by lia. unfold aug_rule. rewrite Hinp. reflexivity. }
  apply has_item_In in Hhas. destruct Hhas as (L & Hin). rewrite <- Hfin in Hin.
  destruct (spelled _ _ _ _ _ _ Hs Hin Har) as (Hlen & Hrev & Hh0).
  apply Huniq in Hh0.
  destruct eoi; simpl in *.
  - destruct st as [|e1 [|e2 [|e3 rest]]]; simpl in Hlen; try lia. simpl in Hrev, Hh0.
    injection Hrev as E2 E1.
    inversion Hs as [|X1 q1 b1 r1 u1 v1 Hs1 HX1 Hq1 Hq10 Hd1]; subst.
    inversion Hs1 as [|X2 q2 b2 r2 u2 v2 Hs2 HX2 Hq2 Hq20 Hd2]; subst.
    assert (rest = []).
    { destruct rest as [|e4 rest]; [reflexivity|]. destruct e3 as [X3 q3]. apply stk_nonbottom in Hs2. simpl in Hh0. lia. }
    subst rest. inversion Hs2; subst. simpl in *. subst.
    apply derives_term in Hd1; [|lia]. subst v1.
    assert (Hnz : ~ In 0 v2) by (apply (proj1 derives_no_zero _ _ Hd2); lia).
    destruct k as [|k].
    + exfalso. apply toks_no_zero. simpl in Hstream. rewrite app_nil_r in Hstream. rewrite <- Hstream.
      apply in_or_app. left. apply in_or_app. right. left. reflexivity.
    + rewrite (Hk ltac:(discriminate)) in Hstream. rewrite app_nil_r in Hstream. simpl in Hstream.
      apply app_zero_eq in Hstream; [subst; exact Hd2|exact Hnz|exact toks_no_zero].
  - destruct st as [|e1 [|e2 rest]]; simpl in Hlen; try lia. simpl in Hrev, Hh0.
    injection Hrev as E1.
    inversion Hs as [|X1 q1 b1 r1 u1 v1 Hs1 HX1 Hq1 Hq10 Hd1]; subst.
    assert (rest = []).
    { destruct rest as [|e4 rest]; [reflexivity|]. destruct e2 as [X3 q3]. apply stk_nonbottom in Hs1. simpl in Hh0. lia. }
    subst rest. inversion Hs1; subst. simpl in *. subst.
    assert (Hnz : ~ In 0 v1) by (apply (proj1 derives_no_zero _ _ Hd1); lia).
    destruct (app_prefix_repeat _ _ _ _ Hnz Hstream) as (sfx & ->). exists v1, sfx. split; [reflexivity|exact Hd1].
Qed.


(* ================= the real loop (Run.run_loop, with offsets and trace) refines the stripped loop ================= *)
Definition proj (c : config) : aconfig :=
  (map (fun e => (e_sym e, e_state e)) (c_stack c), map t_sym (c_input c), c_shifted c).

Definition cwf (c : config) : Prop := c_stack c <> [] /\ c_state c = e_state (hd (mkEntry 0 0 0 0) (c_stack c)).

Lemma proj_top c : cwf c -> snd (hd (0, -1) (fst (fst (proj c)))) = c_state c.
Proof. intros [Hne Hst]. unfold proj. simpl. destruct (c_stack c); [congruence|]. simpl in *. congruence. Qed.

Lemma map_tl {A B} (f : A -> B) l : map f (tl l) = tl (map f l).
Proof. destruct l; reflexivity. Qed.

Lemma step_sim eoi_off c : cwf c ->
  match step m eoi_off c with
  | Continue c' => astepk m (proj c) = ANext (proj c') /\ cwf c'
  | Stop (Crash _) _ => astepk m (proj c) = AFail true
  | Stop (SyntaxError _ _ k) _ => astepk m (proj c) = AFail false /\ k = c_shifted c
  | Stop _ _ => False
  end.
Proof.
  intros Hwf. pose proof (proj_top _ Hwf) as Htop. unfold step, astepk. unfold proj in *. simpl in Htop.
  rewrite Htop.
  assert (Hnx : t_sym (next_tok eoi_off (c_input c)) = match map t_sym (c_input c) with x :: _ => x | [] => 0 end).
  { destruct (c_input c); reflexivity. }
  rewrite Hnx. rewrite <- (map_tl t_sym (c_input c)).
  destruct (m_act m (c_state c) match map t_sym (c_input c) with x :: _ => x | [] => 0 end (map t_sym (tl (c_input c)))) as [q|r| |row] eqn:Hact.
  - (* shift *) simpl. split.
    + rewrite <- Hnx. destruct (t_sym (next_tok eoi_off (c_input c)) =? 0); [reflexivity|]. rewrite map_tl. reflexivity.
    + split; [discriminate|reflexivity].
  - (* reduce *) rewrite map_length.
    destruct (length (c_stack c) <=? Z.to_nat (m_rule_len m r))%nat eqn:El; [reflexivity|].
    rewrite skipn_map.
    assert (Hb : snd (hd (0, -1) (map (fun e => (e_sym e, e_state e)) (skipn (Z.to_nat (m_rule_len m r)) (c_stack c)))) =
                 match skipn (Z.to_nat (m_rule_len m r)) (c_stack c) with b :: _ => e_state b | [] => -1 end).
    { destruct (skipn (Z.to_nat (m_rule_len m r)) (c_stack c)); reflexivity. }
    rewrite Hb.
    destruct (m_goto m _ (m_rule_sym m r) =? -1) eqn:Eg.
    + split; reflexivity.
    + simpl. split; [reflexivity|]. split; [discriminate|reflexivity].
  - split; reflexivity.
  - split; reflexivity.
Qed.

Lemma run_sim eoi_off e fuel : forall c, cwf c ->
  match fst (run_loop fuel m eoi_off e c) with
  | Accept => fst (arunk fuel m e (proj c)) = AAccept
  | SyntaxError _ _ k => fst (arunk fuel m e (proj c)) = AError /\ k = snd (snd (arunk fuel m e (proj c)))
  | Crash _ => fst (arunk fuel m e (proj c)) = ACrash
  | OutOfFuel => fst (arunk fuel m e (proj c)) = AFuel
  end.
Proof.
  induction fuel as [|f IH]; intros c Hwf; [reflexivity|].
  cbn [run_loop arunk]. rewrite (proj_top _ Hwf).
  destruct (c_state c =? e); [reflexivity|].
  pose proof (step_sim eoi_off c Hwf) as Hs.
  destruct (step m eoi_off c) as [c1|o c1].
  - destruct Hs as [Hs Hwf1]. rewrite Hs. apply IH. exact Hwf1.
  - destruct o as [|off eoff k|why|]; try contradiction.
    + destruct Hs as [Hs ->]. rewrite Hs. simpl. split; reflexivity.
    + rewrite Hs. reflexivity.
Qed.

Lemma toks_from_syms off w : map t_sym (toks_from off w) = w.
Proof. revert off. induction w as [|a w IH]; intros off; simpl; [reflexivity|]. rewrite IH. reflexivity. Qed.

Lemma parse_sim fuel :
  match fst (parse fuel m finals i ws) with
  | Accept => fst (aparsek fuel m finals i ws) = AAccept
  | SyntaxError _ _ k => fst (aparsek fuel m finals i ws) = AError /\ k = snd (snd (aparsek fuel m finals i ws))
  | Crash _ => fst (aparsek fuel m finals i ws) = ACrash
  | OutOfFuel => fst (aparsek fuel m finals i ws) = AFuel
  end.
Proof.
  unfold parse, run, aparsek.
  pose proof (run_sim (Z.of_nat (length ws)) (nth i finals (-1)) fuel
                (mkConfig [mkEntry 0 0 0 (Z.of_nat i)] (Z.of_nat i) (toks_of ws) 0 [])) as H.
  unfold proj in H. simpl in H. unfold toks_of in H. rewrite toks_from_syms in H. apply H.
  split; [discriminate|reflexivity].
Qed.

Theorem parse_sound fuel nt eoi :
  nth_error (g_inputs g) i = Some (nt, eoi) ->
  fst (parse fuel m finals i ws) = Accept ->
  if eoi : bool then derives g nt ws else exists p s, ws = p ++ s /\ derives g nt p.
Proof.
  intros Hinp Hacc. pose proof (parse_sim fuel) as H. rewrite Hacc in H.
  destruct (aparsek fuel m finals i ws) as [o c'] eqn:E. simpl in H. subst o.
  eapply arun_sound; eauto.
Qed.


Theorem arun_no_crash fuel : fst (aparsek fuel m finals i ws) <> ACrash.
Proof.
  unfold aparsek. fold (final_of i). destruct (arunk fuel m (final_of i) ([(0, Z.of_nat i)], ws, 0)) as [o c] eqn:E.
  simpl. eapply arun_inv; [apply inv_init|exact E].
Qed.


Theorem parse_never_crashes_k fuel why : fst (parse fuel m finals i ws) <> Crash why.
Proof.
  intros Hc. pose proof (parse_sim fuel) as H. rewrite Hc in H. exact (arun_no_crash fuel H).
Qed.

End WS.
End K.
