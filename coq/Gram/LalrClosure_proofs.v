(* C03: closure g kernel seed is closed under the closure step for every grammar whose rule heads are
   nonterminals in range: the S(N) rounds of closure_step always suffice (every round that does not reach the
   fixpoint completes the rules of at least one more nonterminal). *)
From Coq Require Import List ZArith Bool Arith Lia.
From TM Require Import Gram.Cfg Gram.LalrRef Gram.LalrSpec Gram.LalrSpec_proofs Gram.LalrCert Gram.LalrCert_proofs.
Import ListNotations.
Local Open Scope Z_scope.

Lemma filter_negb_lt {A} (p q : A -> bool) l :
  (forall x, In x l -> p x = true -> q x = true) ->
  (exists x, In x l /\ q x = true /\ p x = false) ->
  (length (filter (fun x => negb (q x)) l) < length (filter (fun x => negb (p x)) l))%nat.
Proof.
  induction l as [|y l IH]; intros Hm (x & Hx & Hq & Hp); [destruct Hx|].
  assert (Hle : forall l', (forall x, In x l' -> p x = true -> q x = true) ->
              (length (filter (fun x => negb (q x)) l') <= length (filter (fun x => negb (p x)) l'))%nat).
  { induction l' as [|z l' IH']; intros H; simpl; [lia|].
    specialize (IH' (fun x Hx => H x (or_intror Hx))). pose proof (H z (or_introl eq_refl)) as Hz.
    destruct (p z), (q z); simpl; try lia; discriminate (Hz eq_refl). }
  simpl. destruct Hx as [->|Hx].
  - rewrite Hq, Hp. simpl. specialize (Hle l (fun x Hx => Hm x (or_intror Hx))). lia.
  - specialize (IH (fun x Hx => Hm x (or_intror Hx)) (ex_intro _ x (conj Hx (conj Hq Hp)))).
    pose proof (Hm y (or_introl eq_refl)) as Hy.
    destruct (p y), (q y); simpl; try lia; discriminate (Hy eq_refl).
Qed.

Lemma filter_length_le {A} (p : A -> bool) l : (length (filter p l) <= length l)%nat.
Proof. induction l as [|x l IH]; simpl; [lia|]. destruct (p x); simpl; lia. Qed.

Section Clo.
Variable g : grammar.

Lemma rules_of_lhs nt r : In r (rules_of g nt) -> exists rl, In rl (g_rules g) /\ r_lhs rl = nt.
Proof.
  unfold rules_of. rewrite in_flat_map. intros ([i rl] & Hin & Hr).
  destruct (Z.eqb_spec (r_lhs rl) nt) as [E|E]; [|destruct Hr].
  exists rl. split; auto. eapply in_combine_r; eauto.
Qed.

Definition closedP (its : list item) : Prop :=
  forall it s r, In it its -> sym_after g it = Some s -> is_term g s = false -> In r (rules_of g s) -> In (r, 0) its.

Definition addf (acc : list item) (it : item) : list item :=
  match sym_after g it with
  | Some s => if is_term g s then acc else fold_left (fun acc r => ins_item (r, 0) acc) (rules_of g s) acc
  | None => acc
  end.

Lemma addf_fold_In l : forall acc y,
  In y (fold_left addf l acc) <->
  In y acc \/ exists it s r, In it l /\ sym_after g it = Some s /\ is_term g s = false /\ In r (rules_of g s) /\ y = (r, 0).
Proof.
  induction l as [|x l IH]; intros acc y; simpl.
  - split; [auto|]. intros [H|(it & s & r & [] & _)]; auto.
  - rewrite IH. unfold addf. split.
    + intros [H|(it & s & r & Hin & H)].
      * destruct (sym_after g x) as [s|] eqn:Es; auto. destruct (is_term g s) eqn:Et; auto.
        apply add_rules_In in H. destruct H as [H|(r & Hr & ->)]; auto.
        right. exists x, s, r. auto.
      * right. exists it, s, r. tauto.
    + intros [H|(it & s & r & [->|Hin] & Es & Et & Hr & ->)].
      * left. destruct (sym_after g x) as [s|]; auto. destruct (is_term g s); auto. apply add_rules_In. auto.
      * left. rewrite Es, Et. apply add_rules_In. right. eauto.
      * right. exists it, s, r. auto.
Qed.

Lemma closure_step_In its y :
  In y (closure_step g its) <->
  In y its \/ exists it s r, In it its /\ sym_after g it = Some s /\ is_term g s = false /\ In r (rules_of g s) /\ y = (r, 0).
Proof. exact (addf_fold_In its its y). Qed.

Lemma closed_step its : closedP its -> closedP (closure_step g its).
Proof.
  intros Hc.
  assert (Hsame : forall y, In y (closure_step g its) -> In y its).
  { intros y Hy. apply closure_step_In in Hy. destruct Hy as [Hy|(it & s & r & Hin & Es & Et & Hr & ->)]; eauto. }
  intros it s r Hin Es Et Hr. apply closure_step_incl. apply Hsame in Hin. eauto.
Qed.

(* all rules of nonterminal B are present as items with the dot at 0 *)
Definition covb (its : list item) (B : Z) : bool := forallb (fun r => mem_item (r, 0) its) (rules_of g B).

Definition closedb (its : list item) : bool :=
  forallb (fun it => match sym_after g it with Some s => is_term g s || covb its s | None => true end) its.

Lemma closedb_closedP its : closedb its = true -> closedP its.
Proof.
  unfold closedb, closedP. rewrite forallb_forall. intros H it s r Hin Es Et Hr.
  specialize (H it Hin). rewrite Es, Et in H. simpl in H. unfold covb in H. rewrite forallb_forall in H.
  apply mem_item_In. auto.
Qed.

Lemma forallb_false_ex {A} (f : A -> bool) l : forallb f l = false -> exists x, In x l /\ f x = false.
Proof.
  induction l as [|x l IH]; simpl; [discriminate|]. destruct (f x) eqn:E; simpl.
  - intros H. destruct (IH H) as (y & Hy & Hf). eauto.
  - intros _. eauto.
Qed.

Lemma closedb_false its : closedb its = false ->
  exists it s, In it its /\ sym_after g it = Some s /\ is_term g s = false /\ covb its s = false.
Proof.
  unfold closedb. intros H. apply forallb_false_ex in H. destruct H as (it & Hin & Hf). exists it.
  destruct (sym_after g it) as [s|]; [|discriminate]. exists s. apply orb_false_iff in Hf. tauto.
Qed.

Hypothesis Hrange : forall r, In r (g_rules g) -> g_terms g <= r_lhs r < g_terms g + g_nonterms g.

Definition ntU : list Z := map (fun n => g_terms g + n) (zrange (g_nonterms g)).

Lemma ntU_length : length ntU = Z.to_nat (g_nonterms g).
Proof. unfold ntU, zrange. rewrite !map_length, seq_length. reflexivity. Qed.

Lemma uncovered_in_ntU its B : covb its B = false -> In B ntU.
Proof.
  unfold covb. intros H. destruct (rules_of g B) as [|r rs] eqn:E; [discriminate|].
  destruct (rules_of_lhs B r) as (rl & Hrl & Hl); [rewrite E; left; reflexivity|].
  specialize (Hrange rl Hrl). unfold ntU. apply in_map_iff. exists (B - g_terms g). split; [lia|].
  apply in_zrange. lia.
Qed.

Definition unc (its : list item) : nat := length (filter (fun B => negb (covb its B)) ntU).

Lemma covb_mono its its' B : incl its its' -> covb its B = true -> covb its' B = true.
Proof.
  unfold covb. rewrite !forallb_forall. intros Hi H r Hr. apply mem_item_In. apply Hi. apply mem_item_In. auto.
Qed.

Lemma iterate_closed n : forall its, (unc its < n)%nat -> closedP (iterate n (closure_step g) its).
Proof.
  induction n as [|n IH]; intros its Hn; [lia|]. simpl.
  destruct (closedb its) eqn:Ec.
  - apply iterate_inv; [apply closed_step, closedb_closedP; exact Ec|intros; apply closed_step; auto].
  - apply closedb_false in Ec. destruct Ec as (it & s & Hin & Es & Et & Hcov).
    apply IH. enough (unc (closure_step g its) < unc its)%nat by lia.
    unfold unc. apply filter_negb_lt.
    + intros B _. apply covb_mono, closure_step_incl.
    + exists s. split; [eapply uncovered_in_ntU; eauto|]. split; auto.
      unfold covb. apply forallb_forall. intros r Hr. apply mem_item_In. apply closure_step_In. right.
      exists it, s, r. auto.
Qed.

Theorem closure_closed kernel seed : closedP (closure g kernel seed).
Proof.
  unfold closure. apply iterate_closed. unfold unc.
  match goal with |- (length (filter ?p ?l) < _)%nat => pose proof (filter_length_le p l) as H end.
  rewrite ntU_length in H. lia.
Qed.

(* the form used by the certificate (first conjunct of cert_complete_state) *)
Corollary closure_closed_b kernel seed it s :
  In it (closure g kernel seed) -> sym_after g it = Some s ->
  is_term g s || forallb (fun r => mem_item (r, 0) (closure g kernel seed)) (rules_of g s) = true.
Proof.
  intros Hin Es. destruct (is_term g s) eqn:Et; [reflexivity|]. simpl. apply forallb_forall. intros r Hr.
  apply mem_item_In. eapply closure_closed; eauto.
Qed.
End Clo.
