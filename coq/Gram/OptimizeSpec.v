(* C05 obligations as finite, exhaustive boolean checks over all cells of one table set. *)
From Coq Require Import List ZArith Bool.
From TM Require Import Gram.PTables Gram.Optimize.
Import ListNotations.
Local Open Scope Z_scope.

(* every state x terminal cell decodes identically; every existing goto decodes identically *)
Definition check_enc (t : default_enc) (o : disp_enc) (terms : Z) : bool :=
  let states := zlength (d_action t) in
  let syms := zlength (d_goto t) - 1 in
  forallb (fun s => forallb (fun a => act_eqb (action_opt o s a) (action_default t s a)) (zseq terms)) (zseq states)
  && forallb (fun s => forallb (fun x =>
        let q := goto_state t s x in if q >=? 0 then goto_opt o terms s x =? q else true)
      (map (fun i => terms + i) (zseq (syms - terms)))) (zseq states).

(* the reductions of a Lalr row, and the most frequent ones *)
Definition row_reductions (t : default_enc) (s : Z) : list Z :=
  let a0 := zn (d_action t) s in
  if a0 <? -2 then filter (fun a => 0 <=? a) (map snd (lalr_row (S (length (d_lalr t))) (d_lalr t) (- a0 - 3))) else [].

Definition is_most_frequent (r : Z) (l : list Z) : bool :=
  (0 <? count_of r l) && forallb (fun r' => count_of r' l <=? count_of r l) l.

(* with defaultReduce: shifts and reductions unchanged, explicit (nonassoc) errors stay errors, an implicit
   error may only become a most frequent reduction of its state (or stay an error when there is none) *)
Definition cell_ok_dr (t : default_enc) (o : disp_enc) (s a : Z) : bool :=
  let a0 := zn (d_action t) s in
  match action_default t s a with
  | Err =>
      if a0 <? -2 then
        match lalr_find (S (length (d_lalr t))) (d_lalr t) (- a0 - 3) a with
        | Some _ => act_eqb (action_opt o s a) Err         (* explicit entry: nonassoc error *)
        | None =>
            match action_opt o s a with
            | Reduce r => is_most_frequent r (row_reductions t s)
            | Err => match row_reductions t s with [] => true | _ => false end
            | _ => false                                       (* never a shift *)
            end
        end
      else act_eqb (action_opt o s a) Err
  | d => act_eqb (action_opt o s a) d
  end.

Definition check_enc_dr (t : default_enc) (o : disp_enc) (terms : Z) : bool :=
  let states := zlength (d_action t) in
  let syms := zlength (d_goto t) - 1 in
  forallb (fun s => forallb (fun a => cell_ok_dr t o s a) (zseq terms)) (zseq states)
  && forallb (fun s => forallb (fun x =>
        let q := goto_state t s x in if q >=? 0 then goto_opt o terms s x =? q else true)
      (map (fun i => terms + i) (zseq (syms - terms)))) (zseq states).
