(* C07, completeness side: check_kc = true implies that the parse loop with deep LALR(k) rows accepts every sentence.
   The proof follows C01's completeness proof (the parser retraces the derivation); the lookahead invariant carries
   strings of up to k terminals instead of single terminals, and the decision of a deep row on the actual remaining
   input is obtained from the check of the row walk on the lookahead string that the remaining input begins with. *)
From Coq Require Import List ZArith Bool Arith Lia.
From TM Require Import Gram.Cfg Gram.PTables Gram.Run Gram.Derive Gram.Validator Gram.Validator_proofs Gram.LRSound
                       Gram.OptimizeSpec_proofs Gram.ValidatorK Gram.ValidatorK_proofs Gram.ValidatorKC.
Import ListNotations.
Local Open Scope Z_scope.

(* ================= string sets ================= *)
Lemma zl_eqb_iff a : forall b, zl_eqb a b = true <-> a = b.
Proof.
  induction a as [|x a IH]; intros [|y b]; simpl; split; intros H; try reflexivity; try discriminate.
  - apply andb_true_iff in H. destruct H as [H1 H2]. apply Z.eqb_eq in H1. apply IH in H2. subst. reflexivity.
  - injection H as -> ->. rewrite Z.eqb_refl. simpl. apply IH. reflexivity.
Qed.

Lemma smem_In x l : smem x l = true <-> In x l.
Proof.
  unfold smem. rewrite existsb_exists. split.
  - intros (y & Hy & E). apply zl_eqb_iff in E. subst. exact Hy.
  - intros H. exists x. split; [exact H|]. apply zl_eqb_iff. reflexivity.
Qed.

Lemma sadd_In x l y : In y (sadd x l) <-> y = x \/ In y l.
Proof.
  unfold sadd. destruct (smem x l) eqn:E.
  - apply smem_In in E. split; [auto|]. intros [->|H]; auto.
  - simpl. split; intros [H|H]; auto.
Qed.

Lemma ssubset_incl a b : ssubset a b = true -> incl a b.
Proof. unfold ssubset. rewrite forallb_forall. intros H x Hx. apply smem_In. auto. Qed.

Lemma fold_mono {E} (F : list (list Z) -> E -> list (list Z)) :
  (forall acc e x, In x acc -> In x (F acc e)) -> forall l acc x, In x acc -> In x (fold_left F l acc).
Proof. intros HF l. induction l as [|e l IH]; intros acc x Hx; simpl; [exact Hx|]. apply IH. apply HF. exact Hx. Qed.

Lemma fold_hit {E} (F : list (list Z) -> E -> list (list Z)) :
  (forall acc e x, In x acc -> In x (F acc e)) ->
  forall l acc e x, In e l -> (forall acc', In x (F acc' e)) -> In x (fold_left F l acc).
Proof.
  intros HF l. induction l as [|e0 l IH]; intros acc e x Hin Hx; simpl; [destruct Hin|].
  destruct Hin as [->|Hin].
  - apply fold_mono; [exact HF|apply Hx].
  - eapply IH; eauto.
Qed.

Lemma firstn_app_short {A} k (a b : list A) : (k <= length a)%nat -> firstn k (a ++ b) = firstn k a.
Proof.
  intros H. rewrite firstn_app. replace (k - length a)%nat with O by lia. simpl. apply app_nil_r.
Qed.

Lemma concat_k_In k A B a b : In a A -> In b B -> In (firstn k (a ++ b)) (concat_k k A B).
Proof.
  intros Ha Hb. unfold concat_k.
  set (G := fun (acc : list (list Z)) (b0 : list Z) => sadd (firstn k (a ++ b0)) acc).
  assert (HG : forall a0 acc e x, In x acc -> In x (sadd (firstn k (a0 ++ e)) acc)).
  { intros a0 acc e x Hx. apply sadd_In. right. exact Hx. }
  eapply fold_hit with (e := a); [| exact Ha |].
  - intros acc e x Hx. destruct (k <=? length e)%nat.
    + apply sadd_In. right. exact Hx.
    + apply fold_mono; [apply HG|exact Hx].
  - intros acc'. destruct (k <=? length a)%nat eqn:E.
    + apply Nat.leb_le in E. apply sadd_In. left. apply firstn_app_short. exact E.
    + eapply fold_hit with (e := b); [apply HG|exact Hb|]. intros acc2. apply sadd_In. left. reflexivity.
Qed.

Lemma firstn_app_l1 {A} k : forall (a y : list A), firstn k (firstn k a ++ y) = firstn k (a ++ y).
Proof.
  induction k as [|k IH]; intros a y; [reflexivity|].
  destruct a as [|x a]; [reflexivity|]. simpl. f_equal. apply IH.
Qed.

Lemma firstn_app_l2 {A} (b : list A) j : forall k a, (k <= j)%nat -> firstn k (a ++ firstn j b) = firstn k (a ++ b).
Proof.
  intros k a. revert k. induction a as [|x a IH]; intros k Hk; simpl.
  - rewrite firstn_firstn. f_equal. lia.
  - destruct k as [|k]; [reflexivity|]. simpl. f_equal. apply IH. lia.
Qed.

(* ================= windows: a lookahead string and the remaining inputs that begin with it ================= *)
Definition wmatch (w inp : list Z) : Prop := exists n z, inp ++ repeat 0 n = w ++ z.

Lemma wmatch_nil inp : wmatch [] inp.
Proof. exists O, inp. simpl. apply app_nil_r. Qed.

Lemma wmatch_firstn j w inp : wmatch w inp -> wmatch (firstn j w) inp.
Proof.
  intros (n & z & E). exists n, (skipn j w ++ z). rewrite app_assoc, firstn_skipn. exact E.
Qed.

Lemma wmatch_app u w inp : wmatch w inp -> wmatch (u ++ w) (u ++ inp).
Proof. intros (n & z & E). exists n, z. rewrite <- !app_assoc. f_equal. exact E. Qed.

Lemma wmatch_firstn_app k w y inp : wmatch (firstn k y) inp -> wmatch (firstn k (w ++ y)) (w ++ inp).
Proof.
  intros H. rewrite <- (firstn_app_l2 y k k w (le_n k)). apply wmatch_firstn. apply wmatch_app. exact H.
Qed.

Lemma wmatch_z1 j : wmatch (firstn j [0]) [].
Proof. exists 1%nat, (skipn j [0]). rewrite firstn_skipn. reflexivity. Qed.

Lemma wmatch_nozero w : forall inp, wmatch w inp -> ~ In 0 w -> exists ext, inp = w ++ ext.
Proof.
  induction w as [|a w IH]; intros inp (n & z & E) Hnz; [exists inp; reflexivity|].
  destruct inp as [|b inp]; simpl in E.
  - destruct n as [|n]; simpl in E; [discriminate|]. injection E as E0 _. exfalso. apply Hnz. left. auto.
  - injection E as -> E. destruct (IH inp) as (ext & ->).
    + exists n, z. exact E.
    + intros H. apply Hnz. right. exact H.
    + exists ext. reflexivity.
Qed.

Lemma wmatch_zero w : forall inp, wmatch w inp -> has_zero w = true -> ~ In 0 inp -> inp = real_of w.
Proof.
  induction w as [|a w IH]; intros inp (n & z & E) Hz Hnz; [discriminate|].
  change (has_zero (a :: w)) with ((0 =? a) || has_zero w) in Hz. simpl real_of. rewrite Z.eqb_sym in Hz.
  destruct (a =? 0) eqn:Ea.
  - apply Z.eqb_eq in Ea. subst a. destruct inp as [|b inp]; [reflexivity|].
    simpl in E. injection E as -> _. exfalso. apply Hnz. left. reflexivity.
  - simpl in Hz. apply Z.eqb_neq in Ea. destruct inp as [|b inp]; simpl in E.
    + destruct n as [|n]; simpl in E; [discriminate|]. injection E as E0 _. congruence.
    + injection E as -> E. f_equal. apply IH; [exists n, z; exact E|exact Hz|].
      intros H. apply Hnz. right. exact H.
Qed.

(* ================= the row walk ================= *)
Lemma walk_dec_deep t : forall more a v, walk_dec t a more = Some v ->
  forall f ext, (length more <= f)%nat -> deep_walk f t a (more ++ ext) = v.
Proof.
  induction more as [|x more IH]; intros a v H f ext Hf; simpl in H.
  - destruct (a <? -2) eqn:E; [discriminate|]. injection H as <-.
    destruct f; simpl; [reflexivity|]. rewrite E. reflexivity.
  - destruct (a <? -2) eqn:E.
    + destruct f as [|f]; [simpl in Hf; lia|]. simpl. rewrite E. apply IH; [exact H|simpl in Hf; lia].
    + injection H as <-. destruct f; simpl; [reflexivity|]. rewrite E. reflexivity.
Qed.

Lemma default_act_of t q a more :
  default_act t q a more =
  act_of t q a (let a0 := zn (d_action t) q in
                let a1 := if a0 <? -2 then lalr_lookup t a0 a else a0 in
                if a1 <? -2 then deep_walk (S (S (length more))) t a1 more else a1).
Proof. reflexivity. Qed.

Lemma decided_sound t q a rest e : decided t q a rest e = true -> forall ext, default_act t q a (rest ++ ext) = e.
Proof.
  unfold decided. intros H ext. rewrite default_act_of. cbv zeta in *.
  set (a1 := if zn (d_action t) q <? -2 then lalr_lookup t (zn (d_action t) q) a else zn (d_action t) q) in *.
  destruct (walk_dec t a1 rest) as [v|] eqn:W; [|discriminate]. apply act_eqb_eq in H.
  destruct (a1 <? -2) eqn:E1.
  - rewrite (walk_dec_deep t rest a1 v W); [exact H|]. rewrite app_length. lia.
  - destruct rest; simpl in W; rewrite E1 in W; injection W as <-; exact H.
Qed.

Section ActOk.
Variable g : grammar.
Variable t : default_enc.

Lemma act_ok_sound q w e inp :
  act_ok g t q w e = true -> wmatch w inp -> LRSound.toks_ok g inp -> 1 <= vT g ->
  default_act t q (LRSound.nxt inp) (tl inp) = e.
Proof.
  intros H Hm Hok HT. unfold act_ok in H.
  assert (Hnz : ~ In 0 inp).
  { intros Hin. unfold LRSound.toks_ok in Hok. rewrite Forall_forall in Hok. apply Hok in Hin. lia. }
  destruct (has_zero w) eqn:Hz.
  - rewrite <- (wmatch_zero w inp Hm Hz Hnz) in H. apply act_eqb_eq in H. exact H.
  - assert (Hwz : ~ In 0 w).
    { intros Hin. unfold has_zero in Hz. assert (existsb (Z.eqb 0) w = true); [|congruence].
      apply existsb_exists. exists 0. split; [exact Hin|reflexivity]. }
    destruct (wmatch_nozero w inp Hm Hwz) as (ext & ->).
    destruct w as [|a rest].
    + simpl app. rewrite forallb_forall in H.
      assert (Ha : 0 <= LRSound.nxt ext < vT g).
      { destruct ext as [|b ext']; simpl; [lia|]. inversion Hok; subst. lia. }
      specialize (H _ (proj2 (in_zrange0 _ _) Ha)).
      exact (decided_sound t q _ [] e H (tl ext)).
    + simpl. exact (decided_sound t q a rest e H ext).
Qed.
End ActOk.

(* ================= the stripped loop with the real lookahead window: reachability ================= *)
Section Reach.
Variable m : machine.

Inductive areachk : aconfig -> aconfig -> Prop :=
| ark_refl c : areachk c c
| ark_step c c1 c2 : astepk m c = ANext c1 -> areachk c1 c2 -> areachk c c2.

Lemma areachk_trans a b c : areachk a b -> areachk b c -> areachk a c.
Proof. induction 1; eauto using areachk. Qed.

Lemma areachk_one a b : astepk m a = ANext b -> areachk a b.
Proof. intros H. eapply ark_step; [exact H|apply ark_refl]. Qed.

Lemma areachk_accept e c c' : areachk c c' -> snd (hd (0, -1) (fst (fst c'))) = e ->
  exists fuel c'', arunk fuel m e c = (AAccept, c'').
Proof.
  induction 1 as [c|c c1 c2 Hs Hr IH]; intros He.
  - exists 1%nat, c. simpl. rewrite He, Z.eqb_refl. reflexivity.
  - destruct (snd (hd (0, -1) (fst (fst c))) =? e) eqn:E.
    + exists 1%nat, c. simpl. rewrite E. reflexivity.
    + destruct (IH He) as (fuel & c'' & Hrun). exists (S fuel), c''. simpl. rewrite E, Hs. exact Hrun.
Qed.
End Reach.

(* ================= completeness from abstract conditions on the tables and a k-lookahead certificate =================
   The two ORACLE conditions A_shift / A_reduce say what the loop must answer on every remaining input that begins with
   a lookahead string of the certificate; everything else is closure of the certificate.  check_kc discharges all of
   them (section PKC below). *)
Section Abs.
Variable g : grammar.
Variable t : default_enc.
Variable rule_len rule_sym : list Z.
Variable finals : list Z.
Variable k : nat.
Variable ftk : fk_table.
Variable kann : kcert.

Notation m := (default_machine t rule_len rule_sym).
Notation T := (vT g).
Notation NS := (vNS g).
Notation NR := (nrules g).
Notation NI := (ninputs g).
Notation kitems := (kitems kann).
Notation trans := (goto_state t).
Notation arule := (arule g).
Notation final_of := (final_of finals).
Notation fseq := (firstk_seq g k ftk).
Notation toks_ok := (LRSound.toks_ok g).
Notation nxt := LRSound.nxt.

Hypothesis C_rules :
  1 <= T /\ 0 <= g_nonterms g /\
  (forall rl, In rl (g_rules g) -> T <= r_lhs rl < NS /\ forall s, In s (r_rhs rl) -> 1 <= s < NS) /\
  (forall inp, In inp (g_inputs g) -> T <= fst inp < NS).
Hypothesis A_firstk : forall rl, In rl (g_rules g) -> incl (fseq (r_rhs rl)) (fk_get ftk (r_lhs rl)).
Hypothesis A_advance : forall q r d L rl X, In (r, d, L) (kitems q) -> arule r = Some rl -> nth_error (r_rhs rl) d = Some X ->
  0 <= trans q X /\ exists L', In (r, S d, L') (kitems (trans q X)) /\ incl L L'.
Hypothesis C_closure : forall q r d L rl X r' rl',
  In (r, d, L) (kitems q) -> arule r = Some rl -> nth_error (r_rhs rl) d = Some X -> T <= X ->
  nth_error (g_rules g) r' = Some rl' -> r_lhs rl' = X ->
  exists L0, In (r', O, L0) (kitems q) /\ incl (concat_k k (fseq (skipn (S d) (r_rhs rl))) L) L0.
Hypothesis C_rule_tabs : forall r rl, nth_error (g_rules g) r = Some rl ->
  zn rule_len (Z.of_nat r) = Z.of_nat (length (r_rhs rl)) /\ zn rule_sym (Z.of_nat r) = r_lhs rl.
Hypothesis C_inputs : forall i nt eoi, nth_error (g_inputs g) i = Some (nt, eoi) ->
  (exists L, In ((NR + i)%nat, O, L) (kitems (Z.of_nat i)) /\ In [] L) /\
  (if eoi : bool then trans (trans (Z.of_nat i) nt) 0 = final_of i else trans (Z.of_nat i) nt = final_of i).
(* ORACLE: a terminal after the dot is shifted on every remaining input that begins with a string of X FIRST_k(beta L) *)
Hypothesis A_shift : forall q r d L rl X w inp,
  In (r, d, L) (kitems q) -> arule r = Some rl -> nth_error (r_rhs rl) d = Some X -> X < T ->
  In w (concat_k k [firstn k [X]] (concat_k k (fseq (skipn (S d) (r_rhs rl))) L)) -> wmatch w inp -> toks_ok inp ->
  default_act t q (nxt inp) (tl inp) = Shift (trans q X).
(* ORACLE: a completed item is reduced on every remaining input that begins with one of its lookahead strings *)
Hypothesis A_reduce : forall q r d L rl w inp,
  In (r, d, L) (kitems q) -> nth_error (g_rules g) r = Some rl -> d = length (r_rhs rl) -> In w L ->
  wmatch w inp -> toks_ok inp -> default_act t q (nxt inp) (tl inp) = Reduce (Z.of_nat r).

(* ---- FIRST_k ---- *)
Lemma firstk_sound :
  (forall X w, derives g X w -> In (firstn k w) (firstk_sym g k ftk X)) /\
  (forall xs w, derives_seq g xs w -> In (firstn k w) (fseq xs)).
Proof.
  apply derives_mutind.
  - intros a Ha. unfold firstk_sym. unfold is_term in Ha. apply andb_true_iff in Ha. destruct Ha as [_ Ha].
    unfold vT. rewrite Ha. left. reflexivity.
  - intros rl w Hin Hseq IH.
    destruct C_rules as (_ & _ & HR & _). destruct (HR _ Hin) as [Hl _].
    unfold firstk_sym. destruct (r_lhs rl <? T) eqn:E; [apply Z.ltb_lt in E; lia|].
    apply (A_firstk _ Hin). exact IH.
  - left. destruct k; reflexivity.
  - intros x xs w1 w2 Hx IHx Hxs IHxs. simpl.
    rewrite <- (firstn_app_l2 w2 k k w1 (le_n k)). rewrite <- firstn_app_l1.
    apply concat_k_In; assumption.
Qed.

(* the remaining input begins with a string of FIRST_k(gamma L) *)
Definition sfk (gamma : list Z) (L : list (list Z)) (tl_in : list Z) : Prop :=
  exists u l, derives_seq g gamma u /\ In l L /\ wmatch (firstn k (u ++ l)) tl_in.

Lemma sfk_incl gamma L L' tl_in : incl L L' -> sfk gamma L tl_in -> sfk gamma L' tl_in.
Proof. intros Hi (u & l & H1 & H2 & H3). exists u, l. auto. Qed.

Lemma sfk_app xs w2 rest L tl_in : derives_seq g xs w2 -> sfk rest L tl_in -> sfk (xs ++ rest) L (w2 ++ tl_in).
Proof.
  intros Hxs (u & l & H1 & H2 & H3). exists (w2 ++ u), l. split; [apply LRSound.derives_seq_app; assumption|].
  split; [exact H2|]. rewrite <- app_assoc. apply wmatch_firstn_app. exact H3.
Qed.

(* the string of the closure / shift clauses that the remaining input begins with *)
Lemma sfk_string beta L tl_in : sfk beta L tl_in ->
  exists x, In x (concat_k k (fseq beta) L) /\ wmatch x tl_in /\ firstn k x = x.
Proof.
  intros (u & l & H1 & H2 & H3). exists (firstn k (u ++ l)). split; [|split; [exact H3|]].
  - rewrite <- firstn_app_l1. apply concat_k_In; [apply (proj2 firstk_sound); exact H1|exact H2].
  - rewrite firstn_firstn. f_equal. lia.
Qed.

Lemma toks_ok_app a b : toks_ok (a ++ b) -> toks_ok a /\ toks_ok b.
Proof. unfold LRSound.toks_ok. rewrite Forall_app. auto. Qed.

Lemma arule_real r rl : nth_error (g_rules g) r = Some rl -> arule r = Some rl.
Proof.
  intros H. unfold Validator.arule.
  assert (Hlt : (r <? NR)%nat = true) by (apply Nat.ltb_lt, nth_error_Some; rewrite H; discriminate).
  rewrite Hlt. exact H.
Qed.

Notation top st := (snd (hd (0, -1) st)).

Definition P_sym (X : Z) (w : list Z) : Prop :=
  forall st n r rl d L tl_in,
    st <> [] -> In (r, d, L) (kitems (top st)) -> arule r = Some rl -> nth_error (r_rhs rl) d = Some X ->
    sfk (skipn (S d) (r_rhs rl)) L tl_in -> toks_ok (w ++ tl_in) ->
    exists n' L', areachk m (st, w ++ tl_in, n) ((X, trans (top st) X) :: st, tl_in, n') /\
      In (r, S d, L') (kitems (trans (top st) X)) /\ incl L L'.

Definition P_seq (xs : list Z) (w : list Z) : Prop :=
  forall st n r rl d L tl_in rest,
    st <> [] -> In (r, d, L) (kitems (top st)) -> arule r = Some rl -> skipn d (r_rhs rl) = xs ++ rest ->
    sfk rest L tl_in -> toks_ok (w ++ tl_in) ->
    exists st' n' L', areachk m (st, w ++ tl_in, n) (st' ++ st, tl_in, n') /\ length st' = length xs /\
      In (r, (d + length xs)%nat, L') (kitems (top (st' ++ st))) /\ incl L L'.

Lemma completeness_core_k : (forall X w, derives g X w -> P_sym X w) /\ (forall xs w, derives_seq g xs w -> P_seq xs w).
Proof.
  destruct C_rules as (HT1 & _ & HR & _).
  apply derives_mutind; unfold P_sym, P_seq.
  - (* terminal *)
    intros a Ha st n r rl d L tl_in Hne Hin Hr HX Hf Hok.
    destruct (A_advance _ _ _ _ _ _ Hin Hr HX) as (Hq0 & (L' & Hin' & Hinc)).
    assert (HaT : a < T) by (unfold is_term in Ha; apply andb_true_iff in Ha; destruct Ha as [_ Ha]; apply Z.ltb_lt in Ha; exact Ha).
    destruct (sfk_string _ _ _ Hf) as (x & Hx & Hmx & _).
    assert (Hact : default_act t (top st) (nxt (a :: tl_in)) (tl (a :: tl_in)) = Shift (trans (top st) a)).
    { apply (A_shift _ _ _ _ _ _ (firstn k (firstn k [a] ++ x)) _ Hin Hr HX HaT); [| |exact Hok].
      - apply concat_k_In; [left; reflexivity|exact Hx].
      - rewrite firstn_app_l1. apply wmatch_firstn. apply (wmatch_app [a]). exact Hmx. }
    simpl in Hok. inversion Hok as [|a' l' Ha' _]; subst.
    exists (n + 1), L'. split; [|split; assumption]. apply areachk_one. unfold astepk. simpl in Hact |- *.
    rewrite Hact. destruct (a =? 0) eqn:E; [apply Z.eqb_eq in E; lia|]. reflexivity.
  - (* rule *)
    intros rl' w Hinr Hseq IH st n r rl d L tl_in Hne Hin Hr HX Hf Hok.
    destruct (HR _ Hinr) as [Hlhs _].
    destruct (In_nth_error _ _ Hinr) as (r' & Hr').
    destruct (C_closure _ _ _ _ _ _ _ _ Hin Hr HX ltac:(lia) Hr' eq_refl) as (L0 & Hin0 & HL0).
    destruct (sfk_string _ _ _ Hf) as (x & Hx & Hmx & Hxk).
    pose proof (HL0 _ Hx) as Hx0.
    destruct (IH st n r' rl' O L0 tl_in [] Hne Hin0 (arule_real _ _ Hr')) as (st' & n' & L0' & Hreach & Hlen & Hitem & Hinc0).
    { simpl. rewrite app_nil_r. reflexivity. }
    { exists [], x. split; [constructor|]. split; [exact Hx0|]. simpl. rewrite Hxk. exact Hmx. }
    { exact Hok. }
    simpl in Hitem.
    destruct (A_advance _ _ _ _ _ _ Hin Hr HX) as (Hq0 & (L' & Hin' & Hinc)).
    apply toks_ok_app in Hok. destruct Hok as [_ Hok2].
    pose proof (A_reduce _ _ _ _ _ _ _ Hitem Hr' eq_refl (Hinc0 _ Hx0) Hmx Hok2) as Hact.
    destruct (C_rule_tabs _ _ Hr') as [Hlen2 Hsym2].
    exists n', L'. split; [|split; assumption].
    eapply areachk_trans; [exact Hreach|]. apply areachk_one. unfold astepk. fold (nxt tl_in).
    cbn [m_act default_machine m_rule_len m_rule_sym m_goto]. rewrite Hact.
    rewrite Hlen2, Hsym2, Nat2Z.id.
    assert (El : (length (st' ++ st) <=? length (r_rhs rl'))%nat = false).
    { apply Nat.leb_gt. rewrite app_length. destruct st; [congruence|simpl; lia]. }
    rewrite El. rewrite <- Hlen. rewrite skipn_app, skipn_all, Nat.sub_diag. simpl skipn. simpl app.
    destruct (trans (top st) (r_lhs rl') =? -1) eqn:Eg; [apply Z.eqb_eq in Eg; lia|]. reflexivity.
  - (* nil *)
    intros st n r rl d L tl_in rest Hne Hin Hr Hsk Hf Hok.
    exists [], n, L. simpl. rewrite Nat.add_0_r. repeat split; [apply ark_refl|exact Hin|apply incl_refl].
  - (* cons *)
    intros x xs w1 w2 Hx IHx Hxs IHxs st n r rl d L tl_in rest Hne Hin Hr Hsk Hf Hok.
    simpl in Hsk. apply skipn_nth_error_cons in Hsk. destruct Hsk as [Hnth Hsk].
    rewrite <- app_assoc in Hok.
    destruct (IHx st n r rl d L (w2 ++ tl_in) Hne Hin Hr Hnth) as (n1 & L1 & Hreach1 & Hin1 & Hinc1).
    { rewrite Hsk. apply sfk_app; assumption. }
    { exact Hok. }
    apply toks_ok_app in Hok. destruct Hok as [_ Hok2].
    destruct (IHxs ((x, trans (top st) x) :: st) n1 r rl (S d) L1 tl_in rest) as (st' & n2 & L2 & Hreach2 & Hlen & Hitem & Hinc2);
      [discriminate|exact Hin1|exact Hr|exact Hsk|eapply sfk_incl; eauto|exact Hok2|].
    exists (st' ++ [(x, trans (top st) x)]), n2, L2.
    rewrite <- !app_assoc. simpl. repeat split.
    + eapply areachk_trans; [exact Hreach1|exact Hreach2].
    + rewrite app_length. simpl. lia.
    + replace (d + S (length xs))%nat with (S d + length xs)%nat by lia. exact Hitem.
    + eapply incl_tran; eauto.
Qed.

Variable i : nat.
Variable ws : list Z.
Hypothesis Hws : toks_ok ws.

Theorem arun_complete_k nt eoi :
  nth_error (g_inputs g) i = Some (nt, eoi) ->
  (if eoi : bool then derives g nt ws else exists p s, ws = p ++ s /\ derives g nt p) ->
  exists fuel c', aparsek fuel m finals i ws = (AAccept, c').
Proof.
  intros Hinp Hsent. destruct (C_inputs _ _ _ Hinp) as ((L & Hin & HL) & Hwire).
  assert (Har : arule (NR + i) = Some (mkRule (NS + Z.of_nat i) (if eoi : bool then [nt; 0] else [nt]) 0)).
  { unfold Validator.arule. assert (E : (NR + i <? NR)%nat = false) by (apply Nat.ltb_ge; lia). rewrite E.
    replace (NR + i - NR)%nat with i by lia. unfold aug_rule. rewrite Hinp. reflexivity. }
  destruct C_rules as (HT & _).
  unfold aparsek. fold (final_of i).
  destruct eoi.
  - destruct (proj1 completeness_core_k _ _ Hsent [(0, Z.of_nat i)] 0 (NR + i)%nat _ O L [] ltac:(discriminate) Hin Har eq_refl)
      as (n1 & L1 & Hreach & Hin1 & Hinc).
    { exists [0], []. split; [|split; [exact HL|]].
      - simpl. change [0] with ([0] ++ []). constructor; [|constructor].
        constructor. unfold is_term. apply andb_true_iff. split; [reflexivity|apply Z.ltb_lt; unfold vT in HT; lia].
      - rewrite app_nil_r. apply wmatch_z1. }
    { rewrite app_nil_r. exact Hws. }
    rewrite app_nil_r in Hreach. simpl in Hreach, Hin1.
    assert (Hact : default_act t (trans (Z.of_nat i) nt) 0 [] = Shift (trans (trans (Z.of_nat i) nt) 0)).
    { apply (A_shift _ _ _ _ _ _ (firstn k (firstn k [0] ++ firstn k ([] ++ []))) [] Hin1 Har eq_refl); [lia| | |constructor].
      - apply concat_k_In; [left; reflexivity|]. apply concat_k_In; [left; reflexivity|].
        apply Hinc. exact HL.
      - apply wmatch_firstn. simpl app. rewrite firstn_nil, app_nil_r. apply wmatch_z1. }
    eapply areachk_accept with (c' := ((0, trans (trans (Z.of_nat i) nt) 0) :: [(nt, trans (Z.of_nat i) nt); (0, Z.of_nat i)], [], n1 + 1)).
    + eapply areachk_trans; [exact Hreach|]. apply areachk_one. unfold astepk. simpl. simpl in Hact. rewrite Hact. reflexivity.
    + simpl. exact Hwire.
  - destruct Hsent as (p & s & Eq & Hd). subst ws.
    destruct (proj1 completeness_core_k _ _ Hd [(0, Z.of_nat i)] 0 (NR + i)%nat _ O L s ltac:(discriminate) Hin Har eq_refl)
      as (n1 & L1 & Hreach & Hin1 & Hinc).
    { exists [], []. split; [constructor|]. split; [exact HL|]. simpl. destruct k; apply wmatch_nil. }
    { exact Hws. }
    eapply areachk_accept; [exact Hreach|]. simpl. exact Hwire.
Qed.

Theorem parse_complete_abs nt eoi :
  nth_error (g_inputs g) i = Some (nt, eoi) -> sentence g nt eoi ws ->
  exists fuel, fst (parse fuel m finals i ws) = Accept.
Proof.
  intros Hinp Hsent. destruct (arun_complete_k _ _ Hinp Hsent) as (fuel & c' & Hrun). exists fuel.
  pose proof (LRSound.parse_sim m finals i ws fuel) as H. rewrite Hrun in H. simpl in H.
  destruct (fst (parse fuel m finals i ws)) as [|off eoff kk|why|]; try reflexivity; try discriminate.
  destruct H as [H _]. discriminate.
Qed.

End Abs.

(* ================= check_kc implies completeness ================= *)
Section PKC.
Variable g : grammar.
Variable t : default_enc.
Variable rule_len rule_sym : list Z.
Variable nstates : Z.
Variable finals : list Z.
Variable k : nat.
Variable ftk : fk_table.
Variable kann : kcert.
Hypothesis Hchk : check_kc g t rule_len rule_sym nstates finals k ftk kann = true.

Notation m := (default_machine t rule_len rule_sym).
Notation T := (vT g).
Notation NS := (vNS g).
Notation NR := (nrules g).
Notation NI := (ninputs g).
Notation kitems := (kitems kann).
Notation trans := (goto_state t).
Notation arule := (arule g).
Notation final_of := (final_of finals).
Notation fseq := (firstk_seq g k ftk).
Notation toks_ok := (LRSound.toks_ok g).
Notation nxt := LRSound.nxt.

Lemma parts_kc :
  chk_rules g = true /\ kc_ann_len nstates kann = true /\ kc_rule_tabs g rule_len rule_sym = true /\
  kc_firstk g k ftk = true /\ kc_advance g t nstates k ftk kann = true /\ kc_closure g nstates k ftk kann = true /\
  kc_reduce g t nstates kann = true /\ kc_inputs g t nstates finals kann = true.
Proof. generalize Hchk. unfold check_kc. rewrite !andb_true_iff. tauto. Qed.

Lemma C_rules :
  1 <= T /\ 0 <= g_nonterms g /\
  (forall rl, In rl (g_rules g) -> T <= r_lhs rl < NS /\ forall s, In s (r_rhs rl) -> 1 <= s < NS) /\
  (forall inp, In inp (g_inputs g) -> T <= fst inp < NS).
Proof.
  destruct parts_kc as (H & _). unfold chk_rules in H. rewrite !andb_true_iff in H.
  destruct H as [[[H1 H0] H2] H3]. apply Z.leb_le in H1. apply Z.leb_le in H0.
  rewrite forallb_forall in H2. rewrite forallb_forall in H3. repeat split; auto.
  - apply H2 in H. rewrite !andb_true_iff in H. lia.
  - apply H2 in H. rewrite !andb_true_iff in H. lia.
  - apply H2 in H. rewrite !andb_true_iff in H. destruct H as [_ H]. rewrite forallb_forall in H.
    apply H in H4. rewrite andb_true_iff in H4. lia.
  - apply H2 in H. rewrite !andb_true_iff in H. destruct H as [_ H]. rewrite forallb_forall in H.
    apply H in H4. rewrite andb_true_iff in H4. lia.
  - apply H3 in H. rewrite andb_true_iff in H. lia.
  - apply H3 in H. rewrite andb_true_iff in H. lia.
Qed.

Lemma kitem_state q it : In it (kitems q) -> 0 <= q < nstates.
Proof.
  destruct parts_kc as (_ & Hl & _). unfold kc_ann_len in Hl. apply Z.leb_le in Hl.
  unfold ValidatorKC.kitems. destruct (q <? 0) eqn:E; [intros []|]. apply Z.ltb_ge in E.
  intros Hin. destruct (lt_dec (Z.to_nat q) (length kann)) as [Hlt|Hge]; [lia|].
  rewrite nth_overflow in Hin by lia. destruct Hin.
Qed.

Lemma kitem_incl_In q r d L : kitem_incl kann q r d L = true -> exists L', In (r, d, L') (kitems q) /\ incl L L'.
Proof.
  unfold kitem_incl. rewrite existsb_exists. intros ([[r' d'] L'] & Hin & E).
  rewrite !andb_true_iff in E. destruct E as [[E1 E2] E3]. apply Nat.eqb_eq in E1. apply Nat.eqb_eq in E2. subst.
  exists L'. split; [exact Hin|apply ssubset_incl; exact E3].
Qed.

Lemma C_advance q r d L rl X : In (r, d, L) (kitems q) -> arule r = Some rl -> nth_error (r_rhs rl) d = Some X ->
  0 <= trans q X /\ (exists L', In (r, S d, L') (kitems (trans q X)) /\ incl L L') /\
  (X < T -> forall w, In w (concat_k k [firstn k [X]] (concat_k k (fseq (skipn (S d) (r_rhs rl))) L)) ->
            act_ok g t q w (Shift (trans q X)) = true).
Proof.
  intros Hin Hr HX. pose proof (kitem_state _ _ Hin) as Hq.
  destruct parts_kc as (_ & _ & _ & _ & H & _). unfold kc_advance in H. rewrite forallb_forall in H.
  specialize (H q (proj2 (in_zrange0 _ _) Hq)). rewrite forallb_forall in H. specialize (H _ Hin). cbv beta iota in H.
  rewrite Hr, HX in H. cbv zeta in H. rewrite !andb_true_iff in H. destruct H as [[H1 H2] H3]. apply Z.leb_le in H1.
  split; [exact H1|]. split; [apply kitem_incl_In; exact H2|].
  intros HT w Hw. assert (E : (X <? T) = true) by (apply Z.ltb_lt; exact HT). rewrite E in H3.
  rewrite forallb_forall in H3. apply H3. exact Hw.
Qed.

Lemma C_closure q r d L rl X r' rl' :
  In (r, d, L) (kitems q) -> arule r = Some rl -> nth_error (r_rhs rl) d = Some X -> T <= X ->
  nth_error (g_rules g) r' = Some rl' -> r_lhs rl' = X ->
  exists L0, In (r', O, L0) (kitems q) /\ incl (concat_k k (fseq (skipn (S d) (r_rhs rl))) L) L0.
Proof.
  intros Hin Hr HX HT Hr' Hl. pose proof (kitem_state _ _ Hin) as Hq.
  destruct parts_kc as (_ & _ & _ & _ & _ & H & _). unfold kc_closure in H. rewrite forallb_forall in H.
  specialize (H q (proj2 (in_zrange0 _ _) Hq)). rewrite forallb_forall in H. specialize (H _ Hin). cbv beta iota in H.
  rewrite Hr, HX in H. destruct (X <? T) eqn:E; [apply Z.ltb_lt in E; lia|]. cbv zeta in H.
  rewrite forallb_forall in H. specialize (H r').
  assert (Hs : In r' (seq 0 NR)) by (apply in_seq; split; [lia|]; simpl; apply nth_error_Some; rewrite Hr'; discriminate).
  specialize (H Hs). rewrite Hr' in H. rewrite Hl, Z.eqb_refl in H.
  apply kitem_incl_In in H. exact H.
Qed.

Lemma C_reduce q r d L rl w : In (r, d, L) (kitems q) -> nth_error (g_rules g) r = Some rl -> d = length (r_rhs rl) ->
  In w L -> act_ok g t q w (Reduce (Z.of_nat r)) = true.
Proof.
  intros Hin Hr Hd Hw. pose proof (kitem_state _ _ Hin) as Hq.
  destruct parts_kc as (_ & _ & _ & _ & _ & _ & H & _). unfold kc_reduce in H. rewrite forallb_forall in H.
  specialize (H q (proj2 (in_zrange0 _ _) Hq)). rewrite forallb_forall in H. specialize (H _ Hin). cbv beta iota in H.
  assert (Hlt : (r <? NR)%nat = true) by (apply Nat.ltb_lt, nth_error_Some; rewrite Hr; discriminate).
  rewrite Hlt, Hr in H. subst d. rewrite Nat.eqb_refl in H. rewrite forallb_forall in H. apply H. exact Hw.
Qed.

Lemma C_rule_tabs r rl : nth_error (g_rules g) r = Some rl ->
  zn rule_len (Z.of_nat r) = Z.of_nat (length (r_rhs rl)) /\ zn rule_sym (Z.of_nat r) = r_lhs rl.
Proof.
  intros Hr. destruct parts_kc as (_ & _ & H & _). unfold kc_rule_tabs in H. rewrite forallb_forall in H.
  assert (Hs : In r (seq 0 NR)) by (apply in_seq; split; [lia|]; simpl; apply nth_error_Some; rewrite Hr; discriminate).
  specialize (H r Hs). rewrite Hr in H. apply andb_true_iff in H. destruct H as [H1 H2].
  apply Z.eqb_eq in H1. apply Z.eqb_eq in H2. auto.
Qed.

Lemma C_inputs i nt eoi : nth_error (g_inputs g) i = Some (nt, eoi) ->
  (exists L, In ((NR + i)%nat, O, L) (kitems (Z.of_nat i)) /\ In [] L) /\
  (if eoi : bool then trans (trans (Z.of_nat i) nt) 0 = final_of i else trans (Z.of_nat i) nt = final_of i).
Proof.
  intros Hinp. destruct parts_kc as (_ & _ & _ & _ & _ & _ & _ & H). unfold kc_inputs in H.
  apply andb_true_iff in H. destruct H as [_ H]. rewrite forallb_forall in H. specialize (H i).
  assert (Hs : In i (seq 0 NI)).
  { apply in_seq. split; [lia|]. simpl. apply nth_error_Some. unfold ninputs. rewrite Hinp. discriminate. }
  specialize (H Hs). rewrite Hinp in H. rewrite andb_true_iff in H. destruct H as [H1 H2].
  apply kitem_incl_In in H1. destruct H1 as (L & Hin & Hinc). split.
  - exists L. split; [exact Hin|]. apply Hinc. left. reflexivity.
  - destruct eoi; apply Z.eqb_eq; exact H2.
Qed.


Lemma C_firstk rl : In rl (g_rules g) -> incl (fseq (r_rhs rl)) (fk_get ftk (r_lhs rl)).
Proof.
  intros Hin. destruct parts_kc as (_ & _ & _ & H & _). unfold kc_firstk in H. rewrite forallb_forall in H.
  specialize (H _ Hin). apply ssubset_incl in H. exact H.
Qed.

(* every sentence is accepted *)
Theorem parse_complete_kc i ws nt eoi :
  toks_ok ws -> nth_error (g_inputs g) i = Some (nt, eoi) -> sentence g nt eoi ws ->
  exists fuel, fst (parse fuel m finals i ws) = Accept.
Proof.
  destruct C_rules as (HT1 & _).
  intros Hws. apply (parse_complete_abs g t rule_len rule_sym finals k ftk kann C_rules C_firstk); try exact Hws.
  - intros q r d L rl X Hin Hr HX. destruct (C_advance _ _ _ _ _ _ Hin Hr HX) as (H1 & H2 & _). auto.
  - exact C_closure.
  - exact C_rule_tabs.
  - exact C_inputs.
  - intros q r d L rl X w inp Hin Hr HX HT Hw Hm Hok.
    destruct (C_advance _ _ _ _ _ _ Hin Hr HX) as (_ & _ & Hsh).
    exact (act_ok_sound g t _ _ _ _ (Hsh HT w Hw) Hm Hok HT1).
  - intros q r d L rl w inp Hin Hr Hd Hw Hm Hok.
    exact (act_ok_sound g t _ _ _ _ (C_reduce _ _ _ _ _ _ Hin Hr Hd Hw) Hm Hok HT1).
Qed.

End PKC.

(* ================= the two layers, packaged ================= *)
(* closure of the certificate: everything check_kc checks EXCEPT the answers of the table cells / deep rows *)
Definition cert_closed (g : grammar) (t : default_enc) (rule_len rule_sym finals : list Z) (k : nat) (ftk : fk_table) (kann : kcert) : Prop :=
  (1 <= vT g /\ 0 <= g_nonterms g /\
   (forall rl, In rl (g_rules g) -> vT g <= r_lhs rl < vNS g /\ forall s, In s (r_rhs rl) -> 1 <= s < vNS g) /\
   (forall inp, In inp (g_inputs g) -> vT g <= fst inp < vNS g)) /\
  (forall rl, In rl (g_rules g) -> incl (firstk_seq g k ftk (r_rhs rl)) (fk_get ftk (r_lhs rl))) /\
  (forall q r d L rl X, In (r, d, L) (kitems kann q) -> arule g r = Some rl -> nth_error (r_rhs rl) d = Some X ->
     0 <= goto_state t q X /\ exists L', In (r, S d, L') (kitems kann (goto_state t q X)) /\ incl L L') /\
  (forall q r d L rl X r' rl',
     In (r, d, L) (kitems kann q) -> arule g r = Some rl -> nth_error (r_rhs rl) d = Some X -> vT g <= X ->
     nth_error (g_rules g) r' = Some rl' -> r_lhs rl' = X ->
     exists L0, In (r', O, L0) (kitems kann q) /\ incl (concat_k k (firstk_seq g k ftk (skipn (S d) (r_rhs rl))) L) L0) /\
  (forall r rl, nth_error (g_rules g) r = Some rl ->
     zn rule_len (Z.of_nat r) = Z.of_nat (length (r_rhs rl)) /\ zn rule_sym (Z.of_nat r) = r_lhs rl) /\
  (forall i nt eoi, nth_error (g_inputs g) i = Some (nt, eoi) ->
     (exists L, In ((nrules g + i)%nat, O, L) (kitems kann (Z.of_nat i)) /\ In [] L) /\
     (if eoi : bool then goto_state t (goto_state t (Z.of_nat i) nt) 0 = final_of finals i
      else goto_state t (Z.of_nat i) nt = final_of finals i)).

(* the ORACLE: on every remaining input [inp] that begins with a lookahead string of the certificate, the loop (cell,
   Lalr row, deep rows walked over [tl inp]) answers the action of the item that carries the string *)
Definition rows_agree (g : grammar) (t : default_enc) (k : nat) (ftk : fk_table) (kann : kcert) : Prop :=
  (forall q r d L rl X w inp,
     In (r, d, L) (kitems kann q) -> arule g r = Some rl -> nth_error (r_rhs rl) d = Some X -> X < vT g ->
     In w (concat_k k [firstn k [X]] (concat_k k (firstk_seq g k ftk (skipn (S d) (r_rhs rl))) L)) ->
     wmatch w inp -> LRSound.toks_ok g inp ->
     default_act t q (LRSound.nxt inp) (tl inp) = Shift (goto_state t q X)) /\
  (forall q r d L rl w inp,
     In (r, d, L) (kitems kann q) -> nth_error (g_rules g) r = Some rl -> d = length (r_rhs rl) -> In w L ->
     wmatch w inp -> LRSound.toks_ok g inp ->
     default_act t q (LRSound.nxt inp) (tl inp) = Reduce (Z.of_nat r)).

Theorem complete_of_oracle g t rule_len rule_sym finals k ftk kann :
  cert_closed g t rule_len rule_sym finals k ftk kann -> rows_agree g t k ftk kann ->
  forall i ws nt eoi, LRSound.toks_ok g ws -> nth_error (g_inputs g) i = Some (nt, eoi) -> sentence g nt eoi ws ->
  exists fuel, fst (parse fuel (default_machine t rule_len rule_sym) finals i ws) = Accept.
Proof.
  intros (H1 & H2 & H3 & H4 & H5 & H6) (H7 & H8) i ws nt eoi Hws.
  exact (parse_complete_abs g t rule_len rule_sym finals k ftk kann H1 H2 H3 H4 H5 H6 H7 H8 i ws Hws nt eoi).
Qed.

(* check_kc establishes both layers *)
Theorem check_kc_conditions g t rule_len rule_sym nstates finals k ftk kann :
  check_kc g t rule_len rule_sym nstates finals k ftk kann = true ->
  cert_closed g t rule_len rule_sym finals k ftk kann /\ rows_agree g t k ftk kann.
Proof.
  intros Hchk.
  pose proof (C_rules _ _ _ _ _ _ _ _ _ Hchk) as HR. destruct HR as (HT1 & HR).
  split; [split; [exact (conj HT1 HR)|]; repeat split|split].
  - exact (C_firstk _ _ _ _ _ _ _ _ _ Hchk).
  - destruct (C_advance _ _ _ _ _ _ _ _ _ Hchk _ _ _ _ _ _ H H0 H1) as (Ha & _). exact Ha.
  - destruct (C_advance _ _ _ _ _ _ _ _ _ Hchk _ _ _ _ _ _ H H0 H1) as (_ & Ha & _). exact Ha.
  - exact (C_closure _ _ _ _ _ _ _ _ _ Hchk).
  - exact (proj1 (C_rule_tabs _ _ _ _ _ _ _ _ _ Hchk _ _ H)).
  - exact (proj2 (C_rule_tabs _ _ _ _ _ _ _ _ _ Hchk _ _ H)).
  - exact (proj1 (C_inputs _ _ _ _ _ _ _ _ _ Hchk _ _ _ H)).
  - exact (proj2 (C_inputs _ _ _ _ _ _ _ _ _ Hchk _ _ _ H)).
  - intros q r d L rl X w inp Hin Hr HX HT Hw Hm Hok.
    destruct (C_advance _ _ _ _ _ _ _ _ _ Hchk _ _ _ _ _ _ Hin Hr HX) as (_ & _ & Hsh).
    exact (act_ok_sound g t _ _ _ _ (Hsh HT w Hw) Hm Hok HT1).
  - intros q r d L rl w inp Hin Hr Hd Hw Hm Hok.
    exact (act_ok_sound g t _ _ _ _ (C_reduce _ _ _ _ _ _ _ _ _ Hchk _ _ _ _ _ _ Hin Hr Hd Hw) Hm Hok HT1).
Qed.

(* both checks together: the accepted language is exactly the language of the grammar *)
Theorem exact_language_k g t rule_len rule_sym nstates finals ann k ftk kann :
  check_k g t rule_len rule_sym nstates finals ann = true ->
  check_kc g t rule_len rule_sym nstates finals k ftk kann = true ->
  forall i ws nt eoi,
  LRSound.toks_ok g ws -> nth_error (g_inputs g) i = Some (nt, eoi) ->
  ((exists fuel, fst (parse fuel (default_machine t rule_len rule_sym) finals i ws) = Accept) <-> sentence g nt eoi ws).
Proof.
  intros H1 H2 i ws nt eoi Hws Hi. split.
  - intros (fuel & H). exact (parse_sound_k g t rule_len rule_sym nstates finals ann H1 i nt eoi ws fuel Hi Hws H).
  - exact (parse_complete_kc g t rule_len rule_sym nstates finals k ftk kann H2 i ws nt eoi Hws Hi).
Qed.
