"""Per-property configuration of ./check (what to run, how many cases, what counts as non-trivial)."""

HARNESS_TIMEOUT = 1500
DRIVER_TIMEOUT = 1500
SEARCH_BUDGET_S = 240

TRUSTED_BASE = [
    "Coq 8.16.1 kernel (coqc; vm_compute used, native_compute not used)",
    "no Axiom/Parameter/Admitted in the development (scanned on every run); Print Assumptions output is copied into this file",
    "extraction: Coq Extraction with ExtrOcamlBasic only (bool, option, unit, list, prod, sumbool, sumor mapped to OCaml types), no Extract Constant; OCaml 4.13.1",
    "unverified glue: ocaml/io.ml, ocaml/p_*.ml (case parsing/printing, oracle plumbing), harness/ (Go generators, canonicalisation), check (Python diff)",
    "hand-written Gallina model tied to /repo only by the correspondence run (model output = implementation output on every generated case)",
]

PROPS = {}

NOT_APPLICABLE = {
    "C17": "acceptance of text/template + go/format output by the Go type-checker: no executable Gallina model of those can be written here (DESIGN.md §8); generated packages are still built by other properties' correspondences",
}

PROPS["C25"] = {
    "runs": [
        {"cmd": "c25.op", "quick": 6000, "thorough": 100000, "thorough_seeds": 3},
        {"cmd": "c25.closure", "quick": 3000, "thorough": 40000, "thorough_seeds": 3},
    ],
    "nontrivial": lambda c: c["input"].count(" ") >= 6,
    "rule": "c25.op: random pairs of sorted finite/co-finite sets over universes of 3..16 ints, random reuse buffer; "
            "c25.closure: random equation systems of 2..7 nodes (union/intersection/complement, DAG and cyclic) built through the public API; "
            "distinct = distinct input text; non-trivial = at least 6 tokens",
    "modelled": "util/container/intset.go (Merge, Intersect, Complement, Equals, combine/intersect/subtract), "
                "util/set/closure.go (Compute, closure, slowClosure) and util/graph/tarjan.go mirrored step by step; "
                "the interner and buffer reuse are abstracted away (pure values)",
    "partial": "set algebra: universal theorems. closure: model + correspondence + naive-fixpoint oracle (theorems about closure are in Props/C25.v as listed)",
    "level_text": "Universal Coq theorems: Merge/Intersect/Complement/Equals of the sorted-list representation denote union/intersection/complement/equality over the infinite universe Z and keep the representation sorted. The closure solver (Tarjan order, union and slow paths) is modelled step by step and compared with util/set on thousands of generated systems per run, each also judged by an independent naive stratified-fixpoint oracle.",
    "level_note": "Trusted: Coq kernel, extraction (ExtrOcamlBasic), OCaml/Go/Python glue. The model is hand-written; buffer reuse and interning are abstracted (which is exactly how the aliasing defect fixed in 24d11eb surfaced as a correspondence break). Systems with < 2 nodes are outside scope (Tarjan returns early).",
    "technique": "Coq proof over a Gallina model + extracted-model differential correspondence",
    "assumptions": ["systems are built through the public API (complements have exactly one operand; >= 2 nodes: Tarjan returns early below that)"],
}

PROPS["C26"] = {
    "runs": [
        {"cmd": "c26.exhaustive", "quick": 3, "thorough": 4},
        {"cmd": "c26.exhaustive", "quick": 2, "thorough": 1},
        {"cmd": "c26.random", "quick": 1500, "thorough": 20000, "thorough_seeds": 2},
    ],
    "nontrivial": lambda c: c["input"].count("(") >= 3,
    "soft_kinds": ("c26.tarjan", "c26.longest"),
    "rule": "c26.exhaustive: every directed graph (no parallel edges) on exactly k vertices (k=2,3 quick; 1,4 thorough = 65536 graphs); "
            "c26.random: 1..8 (5%: 9..16) vertices, random density, one third DAGs (half of them relabelled), parallel edges and self loops allowed; "
            "four cases per graph (transpose, closure, tarjan, longest path); distinct = distinct (kind, graph); non-trivial = at least 2 vertices",
    "modelled": "util/graph/transpose.go, matrix.go (Closure, Graph), tarjan.go, path.go mirrored step by step (recursion by fuel = vertex count + 1)",
    "partial": "transpose and Matrix.Closure: universal theorems about the model. Tarjan and LongestPath: certifying checkers proved sound for all graphs and all outputs "
               "(C26_scc_certificate_sound, C26_longest_path_certificate_sound) and evaluated on the implementation's real output for every generated graph; "
               "a direct proof that the Tarjan/DFS models always pass their certificate is not done",
    "level_text": "Universal Coq theorems: Transpose reverses every edge with multiplicity; the in-place Warshall loop of Matrix.Closure yields exactly reachability (proved from the loop invariant). "
                  "For Tarjan and LongestPath, boolean certificates (partition, mutual reachability, reverse topological order, onStack contract; nil iff cyclic, valid path, maximal among all paths) are proved sound for every graph and every output, "
                  "then evaluated on graph.Tarjan/LongestPath output for all graphs <= 3 vertices (quick) / 4 vertices (thorough) and random larger ones; step-by-step models are compared too.",
    "level_note": "Trusted: Coq kernel, extraction, glue. Tarjan/LongestPath correctness is per-output (certificate) rather than a once-and-for-all theorem about the algorithm. Graphs with < 2 vertices: Tarjan returns early (the property statement excludes them).",
    "technique": "Coq proof (Warshall invariant, transpose) + proved-sound certificate checkers run on every implementation output + model correspondence",
    "assumptions": ["edges name vertices < n (Go would panic otherwise)"],
}

PROPS["C24"] = {
    "runs": [{"cmd": "c24.random", "quick": 4000, "thorough": 60000, "thorough_seeds": 2}],
    "nontrivial": lambda c: True,
    "rule": "random byte-mode rule sets (1-4 rules over literals, classes, repetition, alternation; one third with bytes >= 0x80) compiled by lex.Compile(scanBytes, no backtracking); "
            "c24.pack: all 256 rows and the onEoi array of shiftdfa.Pack vs the model; c24.wf: the theorem's hypothesis wf24b evaluated on the same real tables; c24.scan: 12 random byte strings per packed automaton through Scanner.Scan and Tables.Scan; distinct = distinct tables/text sets",
    "modelled": "shiftdfa.Pack, Scanner.Scan (64-bit rows in N with explicit mod 2^64), lex.Tables.Scan (byte and rune decoding) mirrored; lex.Compile itself is not modelled here (its output tables are the input)",
    "partial": "",
    "level_text": "Universal Coq theorem C24_pack_scan_agrees: for every well-formed table set accepted by the model of Pack and every byte string, the packed scanner (64-bit rows, shifts and masks modelled in N with explicit mod 2^64) returns exactly what the model of lex.Tables.Scan returns. The model of Pack is compared with shiftdfa.Pack on all 256 rows + onEoi for thousands of compiled rule sets per run, the well-formedness hypothesis is evaluated on those real tables, and every sampled scan is compared with both implementations.",
    "level_note": "Trusted: Coq kernel, extraction, glue; hook shiftdfa/verif_hooks.go only exposes the private table.",
    "technique": "Coq proof over a bit-level Gallina model + extracted-model differential correspondence",
    "assumptions": ["tables come from lex.Compile (well-formed: sorted symbol map starting at 0, targets within the table)"],
}

PROPS["C28"] = {
    "runs": [
        {"cmd": "c28.exhaustive", "quick": 4, "thorough": 5},
        {"cmd": "c28.names", "quick": 6000, "thorough": 100000, "thorough_seeds": 2},
        {"cmd": "c28.grammar", "quick": 150, "thorough": 1500},
    ],
    "nontrivial": lambda c: len(c["input"]) > 12,
    "rule": "c28.exhaustive: every ID-syntax name up to length k over {a,B,z,_,Z,-,0,9} and every quoted body of <= 2 atoms over 17 atoms; c28.names: random IDs, quoted ids (escapes, Latin-1, astral, invalid UTF-8) and raw byte strings; all four styles per name; c28.grammar: grammars declaring two near-colliding terminals/nonterminals through compiler.Compile",
    "modelled": "util/ident/id.go Produce (UTF-8 range loop, charName, hex fallback, all four styles) step by step; IsValid restricted to ASCII output; the ID bookkeeping of compiler/resolver.go (ids map + error on reuse)",
    "partial": "the statement 'every admitted name gets a non-empty identifier' is false on the pinned code for `_`-only names (non-UpperCase styles) and `''`: known findings, proved as C28_nonempty_refuted",
    "level_text": "Universal Coq theorems about the step-by-step model of ident.Produce: for every byte string and each of the four styles the result is ASCII [A-Za-z0-9_] not starting with a digit (valid whenever non-empty); every quoted name and every name with an ASCII letter/digit gives a non-empty identifier; the unrestricted non-emptiness claim is refuted in Coq by `_` and `''` (two known findings); the resolver keeps IDs unique unless it reports an error. The model is compared byte for byte with ident.Produce on exhaustive short names and random long ones (Latin-1, astral, invalid UTF-8), and the collision report is compared through compiler.Compile.",
    "level_note": "Trusted: Coq kernel, extraction, glue. Names are restricted to the tm ID / quoted_id token syntax for the validity oracle (raw byte strings only feed the correspondence).",
    "technique": "Coq proof over a Gallina model of Produce + extracted-model differential correspondence",
    "assumptions": [],
}

PROPS["C27"] = {
    "runs": [
        {"cmd": "c27.exhaustive", "quick": 4, "thorough": 6},
        {"cmd": "c27.random", "quick": 2500, "thorough": 40000, "thorough_seeds": 2},
    ],
    "nontrivial": lambda c: c["input"].count(" ") >= 3,
    "rule": "c27.exhaustive: all pairs of sequences of length <= k over 3 symbols (k=4: 14 641 pairs quick; k=6: 1.19 M thorough); c27.random: texts of 0..13 (1/6: 15..54) lines, b independent or an edited copy of a (deletions, insertions, replacements, inserted runs of up to 19 fresh lines); per pair: the lcs edit script and the rendered unified diff parsed back into hunks",
    "modelled": "util/diff/diff.go lcs, trace, middle (with the shared buffer threaded through the recursion), chunk.merge, LineDiff's hunk builder (hunk.add with elision, writeTo) in structured form; strings.Split/Sprintf are replaced by line ids (harness maps them back)",
    "partial": "minimality is certified per output against the proved LCS bound; a direct proof that Myers' middle-snake search always attains it is not done",
    "level_text": "Coq theorems: every script accepted by script_ok turns a into b; for trace/lcs with ANY middle-snake oracle the produced script is accepted (so script correctness does not depend on Myers' search); no valid script is cheaper than |a|+|b|-2*LCS (quadratic LCS proved); the faithful model (middle included) is compared chunk for chunk with diff.lcs and hunk for hunk with LineDiff, and each implementation output is checked for validity, minimal cost and hunk application.",
    "level_note": "Trusted: Coq kernel, extraction, glue (the harness parses LineDiff's text back into hunks). Runs longer than 14 lines are elided by hunk.add by design (known finding).",
    "technique": "Coq proof (script semantics, oracle-independent trace correctness, LCS lower bound) + per-output certificate + model correspondence",
    "assumptions": ["lines are compared through interned ids (as LineDiff does)"],
}

PROPS["C08"] = {
    "runs": [{"cmd": "c08.random", "quick": 6000, "thorough": 120000, "thorough_seeds": 2}],
    "nontrivial": lambda c: c["input"].count("(") >= 6,
    "rule": "random sets of 2..6 lookahead alternatives over up to 5 predicate inputs: decision lists (exclusive by construction, shuffled), corrupted decision lists (flipped polarity, dropped literal, swapped order) and unstructured sets; for accepted sets all 2^n truth assignments are enumerated against the returned rule",
    "modelled": "lalr/lookahead.go newLookaheadRule (order graph, DFS with depth, pickLookahead, swap-remove bookkeeping) and the generated if/else-if chain of go_parser.go.tmpl that evaluates a LookaheadRule",
    "partial": "the grouping of alternatives per parser state (ruleAction/addRule/compile) is exercised through the table-level properties, not modelled here",
    "level_text": "Universal Coq theorem: whenever the model of newLookaheadRule accepts a set, then for EVERY assignment of predicate outcomes under which some alternative's conjunction holds, the generated decision chain returns that alternative (hence accepted sets are mutually exclusive). The model is compared with lalr.newLookaheadRule (rule text and error kind) on thousands of sets; for each accepted set the implementation's own rule is evaluated on all 2^n assignments, and exclusivity and consistent ordering are checked.",
    "level_note": "Trusted: Coq kernel, extraction, glue; hook lalr/verif_hooks.go (VerifNewLookaheadRule copies the slice and calls newLookaheadRule).",
    "technique": "Coq proof over a Gallina model of newLookaheadRule + extracted-model differential correspondence + exhaustive assignment enumeration",
    "assumptions": ["at least two alternatives (the planner only builds rules for conflicts)"],
}

PROPS["C05"] = {
    "runs": [{"cmd": "c05.random", "quick": 700, "thorough": 12000, "thorough_seeds": 2}],
    "nontrivial": lambda c: len(c["input"]) > 60,
    "rule": "random CFGs (1-5 nonterminals, 1-5 terminals, empty rules, several inputs, no-eoi inputs, conflicting grammars included; one third with random %left/%right/%nonassoc groups) compiled by lalr.Compile; each DefaultEnc is optimized with and without defaultReduce; distinct = distinct (tables, mode)",
    "modelled": "lalr/optimize.go (Optimize, pickDefault, pack with the stable sort, allocator.place with hash-keyed dedupe, first-fit scan over taken/usedBase, end-of-table fallback) and both table decoders of go_parser.go.tmpl (lalr, gotoState linear/binary, the Optimized branches)",
    "partial": "the per-table check is exhaustive over all cells (a finite space) and proved to imply the property for that table set; a once-and-for-all proof that the model of Optimize always passes it (the allocator invariants) is not done",
    "level_text": "For each sampled grammar the property is decided for ALL state x terminal cells and all gotos by a Coq-proved exhaustive check (check_enc / check_enc_dr: same shift/reduce/error; with defaultReduce explicit nonassoc errors stay errors, implicit errors may only become a most frequent reduction, never a shift) evaluated on the implementation's own compressed arrays; the step-by-step model of Optimize is compared with all seven arrays of lalr.Optimize.",
    "level_note": "Trusted: Coq kernel, extraction, glue. Universal over cells and decoders, sampled over grammars. Tables with LALR(k) rows are out of scope (Optimize rejects them).",
    "technique": "Coq-proved exhaustive per-table validator + extracted-model differential correspondence",
    "assumptions": ["tables come from lalr.Compile"],
}

PROPS["C06"] = {
    "runs": [{"cmd": "c06.random", "quick": 500, "thorough": 8000, "thorough_seeds": 2}],
    "nontrivial": lambda c: len(c["input"]) > 80,
    "rule": "random CFGs with duplicated rule shapes, random Action/Type/Flags per rule (so that rule classes are non-trivial), state markers, several inputs and no-eoi inputs, compiled by lalr.Compile with and without MinimizeDFA; per grammar 8 token strings per input (random derivations, mutated sentences, random strings)",
    "modelled": "lalr/minimize.go (rule classes, signatures with first-occurrence numbering, Moore refinement until the class count is stable, rebuilding Action/FinalStates/Markers/Goto/FromTo incl. edge sort + compaction) and the parser main loop (Gram/Run.v) on both table sets",
    "partial": "",
    "level_text": "Coq theorems (Props/C06.v) about the quotient: when the finite exhaustive check check_min passes for (tables, minimized tables, remapping), runs of the two parsers from every entry state proceed in lock step on EVERY token sequence. check_min is evaluated on the implementation's minimized tables with the model's remapping as certificate; the model of minimize is compared array for array with lalr; runs of both table sets are compared on sampled inputs.",
    "level_note": "Trusted: Coq kernel, extraction, glue. Inputs with duplicate (nonterminal, eoi) pairs are out of scope (the entry functions would collide; see DESIGN F8). Tables with LALR(k) rows are outside the theorem (compared by runs only).",
    "technique": "Coq simulation proof from a checked quotient certificate + extracted-model differential correspondence",
    "assumptions": ["tables come from lalr.Compile"],
}

PROPS["C03"] = {
    "runs": [{"cmd": "c03.random", "quick": 500, "thorough": 8000, "thorough_seeds": 2}],
    "nontrivial": lambda c: len(c["input"]) > 60,
    "rule": "random CFGs (1-5 nonterminals, 1-5 terminals, empty and mutually recursive nullable rules, several inputs, no-eoi inputs; a quarter with precedence groups / %prec; a sixth with non-zero %expect values), conflicting grammars included; per grammar the full state machine (kernels, reductions, transitions, lookahead sets), the tables, conflict counts and the error decision",
    "modelled": "lalr/compile.go: computeStates (LR(0) collection incl. final-state synthesis, lr0 flags, addShift), initLalr, buildLA's result (as the least solution of closure/goto propagation), populateTables, ruleAction/resolvePrec, conflict counting, reportConflicts' error decision. Not modelled: the DeRemer-Pennello machinery itself (empties, lookback, SCC unions) - its result is what is compared; .greedy; runtime lookahead rules",
    "partial": "the reference lookahead sets are the least fixpoint of the LALR(1) propagation constraints computed by a naive iteration; the proof that this least fixpoint equals the inductive LR(1)-validity definition is not done",
    "level_text": "A reference LALR(1) construction written in Gallina (worklist LR(0) collection over kernels, lookaheads as the least solution of closure/goto propagation, expected Action/Lalr/Goto/FromTo, precedence resolution, conflict counts) is compared with textmapper's states, lookahead sets, tables, SR/RR counts and error decision, state by state and cell by cell; the property oracle judges every (state, terminal) cell of the implementation's tables against the canonical cell.",
    "level_note": "Trusted: Coq kernel, extraction, glue; hook lalr/verif_hooks.go VerifCompile replays Compile's phases and copies the states. States are identified by their kernel as textmapper does (start and final states apart).",
    "technique": "executable Gallina reference construction + extracted-model differential correspondence (theorems in Props/C03.v cover the precedence/cell layer)",
    "assumptions": ["no .greedy markers, no runtime lookahead nonterminals"],
}

PROPS["C04"] = {
    "runs": [{"cmd": "c04.random", "quick": 600, "thorough": 10000, "thorough_seeds": 2}],
    "nontrivial": lambda c: "((0 " in c["input"] or "((1 " in c["input"] or "((2 " in c["input"],
    "rule": "expression grammars E -> E op E | op E | E op | ( E ) | id | E E with 1-4 operators, random %left/%right/%nonassoc groups (some operators undeclared, some declared twice), %prec markers; every (state, terminal) cell of the tables lalr builds is compared with the cell the precedence model prescribes; distinct = distinct grammars; non-trivial = at least one precedence group",
    "modelled": "lalr/compile.go resolvePrec (rule precedence = %prec else last terminal, group comparison, associativity), ruleAction, the conflictBuilder ambiguity bookkeeping, the per-cell fold of populateTables (-3 -> -2), on top of the reference LALR(1) automaton of C03",
    "partial": "behaviour-level observation through generated parsers (tree shapes) is covered by the parser run properties, not here",
    "level_text": "Universal Coq theorems about the model of the cell fold: a shift against one reduction is decided exactly by the documented comparison (higher group wins; equal: left reduces, right shifts, nonassoc yields an error cell; any undeclared side: unresolved conflict, shift kept); unresolved reduce/reduce keeps the earlier rule; once unresolved a cell's action is frozen. The model's cells are compared with every cell of lalr's tables for expression grammars with random precedence declarations.",
    "level_note": "Trusted: Coq kernel, extraction, glue; hook VerifCompile. Uses the reference automaton of C03 for the lookahead sets.",
    "technique": "Coq proof over a Gallina model of resolvePrec/ruleAction + extracted-model differential correspondence on all table cells",
    "assumptions": ["no runtime lookahead nonterminals in the conflicting cells"],
}
