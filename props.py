"""Per-property configuration of ./check (what to run, how many cases, what counts as non-trivial)."""

HARNESS_TIMEOUT = 1500
DRIVER_TIMEOUT = 1500
SEARCH_BUDGET_S = 240

TRUSTED_BASE = [
    "Coq 8.16.1 kernel (coqc; vm_compute used, native_compute not used)",
    "no Axiom/Parameter/Admitted in the development (scanned on every run); Print Assumptions output is copied into this file",
    "extraction: Coq Extraction with ExtrOcamlBasic only (bool, option, unit, list, prod, sumbool, sumor mapped to OCaml types), no Extract Constant; OCaml 4.13.1",
    "unverified glue: ocaml/io.ml, ocaml/p_*.ml (case parsing/printing, oracle plumbing), harness/ (Go generators, canonicalisation), check (Python diff)",
    "hand-written Gallina model tied to /repo only by the correspondence run (model output = implementation output on every generated case)",
]

PROPS = {}

NOT_APPLICABLE = {
    "C17": "acceptance of text/template + go/format output by the Go type-checker: no executable Gallina model of those can be written here (DESIGN.md §8); generated packages are still built by other properties' correspondences",
}

import glob as _glob, os as _os
for _f in sorted(_glob.glob(_os.path.join(_os.path.dirname(_os.path.abspath(__file__)), "propsd", "C*.py"))):
    exec(compile(open(_f).read(), _f, "exec"))
