#!/usr/bin/env python3
"""Regenerates MANIFEST.json from props.py (so the manifest can never drift from what ./check runs)."""
import json, os, subprocess, sys
ROOT = os.path.dirname(os.path.abspath(__file__))
sys.path.insert(0, ROOT)
import props as P

ALL = [json.loads(l)["id"] for l in open(os.path.join(ROOT, "properties.jsonl"))]
NA = P.NOT_APPLICABLE
hooks_commits = [l.strip() for l in open(os.path.join(ROOT, "MANIFEST.hooks"))] if os.path.exists(os.path.join(ROOT, "MANIFEST.hooks")) else []
hooks_commits = [l.split()[0] for l in hooks_commits if l and not l.startswith("#")]
checks = []
for pid in ALL:
    if pid not in P.PROPS:
        continue
    c = P.PROPS[pid]
    checks.append({
        "property_id": pid,
        "quick_cmd": "./check %s --tier quick" % pid,
        "thorough_cmd": "./check %s --tier thorough" % pid,
        "evidence_file": "/verif/evidence/%s.json" % pid,
        "replay_cmd_template": "./check %s --replay {path}" % pid,
        "engine": "coq-model+correspondence",
        "level_claimed": {"category": c.get("level", "proof"), "text": c["level_text"], "design_ref": "DESIGN.md §6 " + pid},
        "level_note": c["level_note"],
        "technique": c["technique"],
    })
na = []
for pid in ALL:
    if pid not in P.PROPS:
        na.append({"property_id": pid, "reason": NA.get(pid, "check not built yet in this session; not claimed until its model, theorems and correspondence exist")})
m = {
    "version": 1,
    "setup_cmd": "./check --setup",
    "hooks": {
        "guard": "verif",
        "enable": "go build -tags verif (the harness module /verif/harness replaces github.com/inspirer/textmapper with /repo)",
        "baseline_off_cmd": "cd /repo && GOFLAGS=-mod=mod GOPROXY=off go test -vet=off -count=1 ./...",
        "source_commits": hooks_commits,
        "add_only": True,
    },
    "engines": [{"name": "coq-model+correspondence", "path": "/verif/check",
                 "serves_properties": [c["property_id"] for c in checks],
                 "kind_free_text": "Coq 8.16.1 theorems about hand-written Gallina models (coq/), models extracted to OCaml (ocaml/) and run against the Go implementation (harness/) on generated cases; ./check orchestrates, diffs and writes evidence"}],
    "checks": checks,
    "not_applicable": na,
    "notes": "See DESIGN.md. Level 'proof' = the theorems in coq/Props/<id>.v are re-checked by coqc on every run and the model they are about is compared with the implementation on every run; what is universal and what is sampled is stated per check.",
}
json.dump(m, open(os.path.join(ROOT, "MANIFEST.json"), "w"), indent=1)
print("MANIFEST.json: %d checks, %d not_applicable" % (len(checks), len(na)))
