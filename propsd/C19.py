PROPS["C19"] = {
    "runs": [{"cmd": "c19.random", "quick": 30, "thorough": 400, "thorough_seeds": 3}],
    "nontrivial": lambda c: len(c["input"]) > 200,
    "rule": "random conflict-free list grammars whose item nonterminals get error rules (X: error | error t | t error t' | t error), random arrows, with/without optimizeTables and fixWhitespace; "
            "each grammar is generated twice: with the error rules (recovering parser) and without them (plain parser); per grammar 16 inputs: sentences, sentences through an error rule with the error replaced by random tokens, "
            "and sentences with deleted/replaced/inserted tokens, with random blanks; the recovering parser runs with handlers that never stop, stop at the first and at the second error",
    "modelled": "go_parser.go.tmpl with IsRecovering: the main loop's error branch (recovering counter, lastErr, handler), recoverFromError (recoverPos, afterErr bit set, skipBrokenCode, reduceAll incl. its stack2 simulation, error range computation, pushing the error entry). "
                "Not modelled: recoveryScope markers, pending reported tokens and invalid-token coverage, parsers/js/parser_impl.go",
    "partial": "proved: transparency, error positions, termination of the recovery loop, progress after recovery (the loop replays reduceAll's reductions and shifts the token; each episode consumes a token or ends the parse), "
               "termination of the whole recovering parse RELATIVE to termination of the plain loop's reduction sequences. An explicit fuel bound ((|input|+1)*(2R+3)+R+1 iterations) is proved under a uniform bound R on plain reduction sequences (C19_recovering_parse_fuel_bound). Not proved: those hypotheses about the plain loop's reductions from the C01 validator conditions, and panic-freedom of reduceAll (monitored under a time limit / recover()).",
    "level_text": "Coq theorems (Props/C19.v) for EVERY table set, event table, input, error handler and fuel: on inputs the loop accepts without recovery, the recovering loop accepts with the same stack and events and never calls the handler; "
                  "every reported error is the range of an input token (or of end-of-input) and error offsets never decrease; the loop inside recoverFromError terminates. "
                  "Progress (for LALR(1) tables whose reduceAll shift test agrees with the loop; both hold for the default and the optimized encoding): after a successful recoverFromError the main loop performs exactly the reductions reduceAll simulated on its state stack (at most 4*(|stack|+1)+64, input and error list untouched) and then shifts the next token or is in the end state, "
                  "so every recovery episode consumes an input token or ends the parse; consequently the recovering parse terminates for every input and handler whenever the plain loop's reduction sequences do (C19_recovering_parse_terminates). "
                  "The model is compared with generated recovering parsers (result, handler calls, listener events) under three handler policies, and an independent oracle checks on the implementation's answers: no crash or hang, error ranges inside the input and ordered, "
                  "and — against a parser generated from the same grammar without its error rules — no error and identical events/result on every sentence.",
    "level_note": "Trusted: Coq kernel, extraction, glue. 'Without recovery' is realised twice: as the plain loop on the same tables (theorem) and as the grammar minus its error rules (oracle).",
    "technique": "Coq proof over a Gallina model of the recovering loop (all handlers) + extracted-model differential correspondence with generated parsers + recovering-vs-plain oracle",
    "assumptions": ["token offsets are non-decreasing (lexer property, C12)"],
}
