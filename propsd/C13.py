PROPS["C13"] = {
    "runs": [{"cmd": "c13.expand", "quick": 300, "thorough": 6000, "thorough_seeds": 2},
             {"cmd": "c13.tm", "quick": 150, "thorough": 3000, "thorough_seeds": 2, "oracle_only": True}],
    "nontrivial": lambda c: c["input"].count("(") >= 20,
    "rule": "c13.expand: random extended models (2-4 terminals incl. quoted/mixed-case names, 1-4 nonterminals, 1-3 rules each, nesting depth 1-3) "
            "built through the public syntax.Model/Expr API: optional, nested choice, sequence, '*'/'+' lists with and without (multi-symbol) separators, "
            "right-recursive flag, sets (union/intersection/complement of terminals), lookaheads, state markers, commands, arrow/assign/append/prec wrappers, "
            "provisional-name collisions (same name, different content); fed to syntax.Expand and to the model, outputs compared exactly (names, order after "
            "Rearrange, rule trees); c13.tm: the same generator restricted to constructs with a plain textual form, printed as .tm text and compiled by "
            "compiler.Compile, grammar.Parser.Rules read back; both judged by the language oracle (all words up to length 3-5 over all terminals, every original "
            "nonterminal); distinct = distinct input text, non-trivial = at least 20 tree nodes; c13.tm spells every second nonterminal with several rules partly through an 'extend' clause (the first rule or all but the last stay in the base definition)",
    "modelled": "syntax/expand.go: Expand (both phases), expandRule, expandExpr, extractNonterm (ProvisionalName, Equal, name_N suffixes), sortTail, "
                "concat/multiConcat/collapseEmpty, list and optional rule synthesis; syntax/syntax.go: Expr.Equal, Model.Rearrange; util/ident.Produce (C28 model) inside ProvisionalName; "
                "DefaultExpandOptions and untyped symbols (no synthesised list/optional commands), group = 0 (models not produced by Instantiate)",
    "partial": "C13_expand_correct_wf covers the whole model of Expand under the STATIC boolean ExpandWf.wf_model (references of the input in range; every list separator reached by expandExpr expands to one alternative, n_alts sep = 1); "
               "C13_wf_model_checks proves that wf_model implies the run-time side conditions expand_checks (no Fatal branch, references stay in range through phase 1, the sortTail permutation is a permutation - phase-1 loop invariant) for every model; "
               "both booleans are still evaluated on every generated model (verdicts bad:side-conditions-... / bad:static-well-formedness-...). The bridge to Derive.derives is C13_flat_table_is_cfg for tables of flat choices and (this round) C13_table_with_sets_is_cfg for tables that still hold set nonterminals (one rule per terminal of the resolved set; the resolved terminals must be exactly the set's denotation and lie in [0,T): C15) and lookahead nonterminals (empty rule), i.e. every table to_cfg accepts; "
               "C13_expand_correct_derives states the full property with derivations of the plain grammar on the right; hypotheses: wf_model, the two executable conditions to_cfg = Some g and nonneg_rules g (no negative symbol), both evaluated by the glue on the implementation's output of every case, and correctly resolved sets (setterms = setden inside [0,T)); the shape of the output table is derived from the success of to_cfg. Not proved: that to_cfg always succeeds on the output of Expand (per rule: C13_expand_shape; checked per case). compiler/syntax.go convertPart/convertRules are covered by the .tm end-to-end oracle only (no model); updateArgRefs/CmdArgs/Pos belong to C16",
    "level_text": "Universal Coq theorems: C13_expand_correct_wf - for every statically well-formed model (wf_model: references in range, simple separators; no hypothesis about the run of the pass) and every original nonterminal X, the language of X in the extended notation "
                  "(least solution of the value equations: optional, nested choice, sequence, wrappers, lists with separators, sets, lookaheads) equals the language of perm(X) in the table produced by the model of "
                  "syntax.Expand (phase 1 with extraction and reuse by Equal, sortTail/Rearrange, phase 2 list and optional rules); C13_flat_table_is_cfg - the least solution of a table of flat choices is exactly "
                  "Derive.derives of the plain grammar read from it; C13_wf_model_checks - wf_model implies the run-time side conditions (no Fatal branch, references in range, sortTail builds a permutation) for every model; plus the per-step theorems (expandExpr, a whole nonterminal, multiConcat = product, list rules unfold, Equal-sound reuse, sugar-free shape, "
                  "extracted lists are non-empty or separator-free). The step-by-step model is compared exactly with syntax.Expand, and the implementation's own output "
                  "(from the API and from compiler.Compile on generated .tm text) is checked against the extended-notation semantics on all short words.",
    "level_note": "Trusted: Coq kernel, extraction, OCaml/Go/Python glue; Derive.v chart recogniser and the ExtLang.v recogniser are specification oracles (not proved here). "
                  "Known finding: a set(...) without terminals yields a nonterminal deriving the empty string (kept by syntax/set_test.go).",
    "technique": "Coq proof over a Gallina model of syntax.Expand + extracted-model differential correspondence + language oracle (all short words) on the implementation's output, incl. .tm end-to-end",
    "assumptions": ["ExpandOptions = DefaultExpandOptions, untyped symbols", "separators expand to a single alternative (the compiler only builds terminal sequences)",
                    "expansion stays below ExpansionLimit (65536 rules per rule)"],
}
