PROPS["C13"] = {
    "runs": [{"cmd": "c13.expand", "quick": 300, "thorough": 6000, "thorough_seeds": 2},
             {"cmd": "c13.tm", "quick": 150, "thorough": 3000, "thorough_seeds": 2, "oracle_only": True}],
    "nontrivial": lambda c: c["input"].count("(") >= 20,
    "rule": "c13.expand: random extended models (2-4 terminals incl. quoted/mixed-case names, 1-4 nonterminals, 1-3 rules each, nesting depth 1-3) "
            "built through the public syntax.Model/Expr API: optional, nested choice, sequence, '*'/'+' lists with and without (multi-symbol) separators, "
            "right-recursive flag, sets (union/intersection/complement of terminals), lookaheads, state markers, commands, arrow/assign/append/prec wrappers, "
            "provisional-name collisions (same name, different content); fed to syntax.Expand and to the model, outputs compared exactly (names, order after "
            "Rearrange, rule trees); c13.tm: the same generator restricted to constructs with a plain textual form, printed as .tm text and compiled by "
            "compiler.Compile, grammar.Parser.Rules read back; both judged by the language oracle (all words up to length 3-5 over all terminals, every original "
            "nonterminal); distinct = distinct input text, non-trivial = at least 20 tree nodes",
    "modelled": "syntax/expand.go: Expand (both phases), expandRule, expandExpr, extractNonterm (ProvisionalName, Equal, name_N suffixes), sortTail, "
                "concat/multiConcat/collapseEmpty, list and optional rule synthesis; syntax/syntax.go: Expr.Equal, Model.Rearrange; util/ident.Produce (C28 model) inside ProvisionalName; "
                "DefaultExpandOptions and untyped symbols (no synthesised list/optional commands), group = 0 (models not produced by Instantiate)",
    "partial": "the whole-model statement (ext_lang M X w <-> derives (expand M) X w) is not one theorem: proved are the universal per-step equivalences "
               "(expandExpr / expandRule / a whole nonterminal for every expression kind incl. lists, sets, reuse; the phase-2 list and optional rules are a correct "
               "unfolding), missing is the least-fixpoint gluing and the consistency of the Rearrange permutation; compiler/syntax.go convertPart/convertRules "
               "are covered by the .tm end-to-end oracle only (no model); updateArgRefs/CmdArgs/Pos belong to C16",
    "level_text": "Universal Coq theorems: for every expression e (any nesting of optional, choice, sequence, lists with separators, sets, lookaheads, wrappers), "
                  "every expander state and every interpretation of the nonterminals that gives each extracted nonterminal the meaning of the expression it was extracted from, "
                  "the alternatives produced by expandExpr denote exactly the language of e (multiConcat = product of languages; reuse by Expr.Equal is sound); the same for a whole "
                  "nonterminal (rules, %prec, collapseEmpty); the rules written for an extracted list/optional denote the list (left/right recursive, with/without separator); "
                  "every produced alternative is free of sugar. The step-by-step model is compared exactly with syntax.Expand, and the implementation's own output "
                  "(from the API and from compiler.Compile on generated .tm text) is checked against the extended-notation semantics on all short words.",
    "level_note": "Trusted: Coq kernel, extraction, OCaml/Go/Python glue; Derive.v chart recogniser and the ExtLang.v recogniser are specification oracles (not proved here). "
                  "Known finding: a set(...) without terminals yields a nonterminal deriving the empty string (kept by syntax/set_test.go).",
    "technique": "Coq proof over a Gallina model of syntax.Expand + extracted-model differential correspondence + language oracle (all short words) on the implementation's output, incl. .tm end-to-end",
    "assumptions": ["ExpandOptions = DefaultExpandOptions, untyped symbols", "separators expand to a single alternative (the compiler only builds terminal sequences)",
                    "expansion stays below ExpansionLimit (65536 rules per rule)"],
}
