PROPS["C26"] = {
    "runs": [
        {"cmd": "c26.exhaustive", "quick": 3, "thorough": 4},
        {"cmd": "c26.exhaustive", "quick": 2, "thorough": 1},
        {"cmd": "c26.random", "quick": 1500, "thorough": 20000, "thorough_seeds": 2},
    ],
    "nontrivial": lambda c: c["input"].count("(") >= 3,
    "soft_kinds": ("c26.tarjan", "c26.longest"),
    "rule": "c26.exhaustive: every directed graph (no parallel edges) on exactly k vertices (k=2,3 quick; 1,4 thorough = 65536 graphs); "
            "c26.random: 1..8 (5%: 9..16) vertices, random density, one third DAGs (half of them relabelled), parallel edges and self loops allowed; "
            "four cases per graph (transpose, closure, tarjan, longest path); distinct = distinct (kind, graph); non-trivial = at least 2 vertices",
    "modelled": "util/graph/transpose.go, matrix.go (Closure, Graph), tarjan.go, path.go mirrored step by step (recursion by fuel = vertex count + 1)",
    "partial": "transpose and Matrix.Closure: universal theorems about the model. Tarjan and LongestPath: certifying checkers proved sound for all graphs and all outputs "
               "(C26_scc_certificate_sound, C26_longest_path_certificate_sound) and evaluated on the implementation's real output for every generated graph; "
               "a direct proof that the Tarjan/DFS models always pass their certificate is not done",
    "level_text": "Universal Coq theorems: Transpose reverses every edge with multiplicity; the in-place Warshall loop of Matrix.Closure yields exactly reachability (proved from the loop invariant). "
                  "For Tarjan and LongestPath, boolean certificates (partition, mutual reachability, reverse topological order, onStack contract; nil iff cyclic, valid path, maximal among all paths) are proved sound for every graph and every output, "
                  "then evaluated on graph.Tarjan/LongestPath output for all graphs <= 3 vertices (quick) / 4 vertices (thorough) and random larger ones; step-by-step models are compared too.",
    "level_note": "Trusted: Coq kernel, extraction, glue. Tarjan/LongestPath correctness is per-output (certificate) rather than a once-and-for-all theorem about the algorithm. Graphs with < 2 vertices: Tarjan returns early (the property statement excludes them).",
    "technique": "Coq proof (Warshall invariant, transpose) + proved-sound certificate checkers run on every implementation output + model correspondence",
    "assumptions": ["edges name vertices < n (Go would panic otherwise)"],
}
