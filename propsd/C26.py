PROPS["C26"] = {
    "runs": [
        {"cmd": "c26.exhaustive", "quick": 3, "thorough": 4},
        {"cmd": "c26.exhaustive", "quick": 2, "thorough": 1},
        {"cmd": "c26.random", "quick": 1500, "thorough": 20000, "thorough_seeds": 2},
    ],
    "nontrivial": lambda c: c["input"].count("(") >= 3,
    "soft_kinds": ("c26.tarjan", "c26.longest"),
    "rule": "c26.exhaustive: every directed graph (no parallel edges) on exactly k vertices (k=2,3 quick; 1,4 thorough = 65536 graphs); "
            "c26.random: 1..8 (5%: 9..16) vertices, random density, one third DAGs (half of them relabelled), parallel edges and self loops allowed; "
            "four cases per graph (transpose, closure, tarjan, longest path); distinct = distinct (kind, graph); non-trivial = at least 2 vertices",
    "modelled": "util/graph/transpose.go, matrix.go (Closure, Graph), tarjan.go, path.go mirrored step by step (recursion by fuel = vertex count + 1)",
    "partial": "",
    "level_text": "Universal Coq theorems about the step-by-step models, all inputs, no size bound: Transpose reverses every edge with multiplicity; the in-place Warshall loop of Matrix.Closure yields exactly reachability; "
                  "Tarjan (C26_tarjan_spec, direct invariant proof over index/lowlink/stack/onStack with the call chain as ghost state): for every graph with >= 2 vertices the fuel n+1 suffices, the stack ends empty, every vertex is reported in exactly one component, every component is strongly connected, no earlier component reaches a later one (reverse topological order, hence the components are exactly the SCCs), and onStack marks exactly the component members among the successors; "
                  "LongestPath (C26_longest_path_spec): for every graph with >= 1 vertex the DFS model returns None iff the graph is cyclic, else a valid path that no path exceeds. "
                  "The certificate checkers are proved sound AND complete, the models' outputs are proved to pass them, and they are still evaluated on graph.Tarjan/LongestPath output for all graphs <= 3 vertices (quick) / 4 vertices (thorough) and random larger ones; step-by-step models are compared too.",
    "level_note": "Trusted: Coq kernel, extraction, glue; the tie between the Gallina models and the Go code is the sampled correspondence check. Graphs with < 2 vertices: Tarjan returns early (C26_tarjan_small; the property statement excludes them). The zero-vertex graph: LongestPath returns the empty slice (C26_longest_path_empty).",
    "technique": "Coq proof (Warshall invariant, transpose, Tarjan index/lowlink invariant in the style of Chen-Cohen-Levy-Merz-Thery, DFS height/link invariant) + proved sound-and-complete certificate checkers run on every implementation output + model correspondence",
    "assumptions": ["edges name vertices < n (Go would panic otherwise)"],
}
