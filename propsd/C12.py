PROPS["C12"] = {
    "runs": [{"cmd": "c12.gen", "quick": 60, "thorough": 900, "thorough_seeds": 2},
             {"cmd": "c12.shipped", "quick": 8000, "thorough": 300000, "thorough_seeds": 2, "oracle_only": True}],
    "nontrivial": lambda c: len(c["input"]) > 40,
    "rule": "c12.lexer: the generated lexers of the C11 grammar family (incl. rules continuing after {eoi}) on random / hostile byte strings, each token stream vs the LexerRT model and vs the monitor: "
            "finite, ends in end-of-input which repeats at the end, other tokens non-empty, ordered, non-overlapping, gaps matched by (space rules)* after a BOM, line and column of the first byte; "
            "a lexer that does not return within 3 s is a violation; c12.shipped: the shipped json, simple, test, tm, js lexers (linked from the current tree) on strings assembled from their own "
            "token fragments, unterminated comments/strings/code blocks/templates, invalid UTF-8, NUL and BOM, monitored the same way (without the gap clause; line for all but test)",
    "modelled": "go_lexer.go.tmpl Next/rewind/handleInvalidToken/line counting (LexerRT.v); the hand-written actions of the tm and js lexers are exercised as black boxes under the monitor",
    "partial": "the universal theorems cover only the forced-progress step and the line bookkeeping helpers; termination, tiling, non-empty tokens and line/column for the whole Next loop are monitored per run, not proved; wf_lexer_tables is not built (the generator now rejects end-of-input cycles)",
    "level_text": "Coq theorems for the forced one-character progress of handleInvalidToken (all byte strings, rune and byte mode) and for the newline bookkeeping used by Next and rewind. "
                  "The statement of C12 itself is evaluated by a monitor on every token stream of generated lexers (also compared with the step-by-step model, which runs out of fuel exactly when a lexer hangs) "
                  "and of the five shipped lexers.",
    "level_note": "Trusted: Coq kernel, extraction, glue. Repaired in this tree: F7 (end-of-input cycles are rejected by lex.Compile) and the column of the first token on lines after the first.",
    "technique": "Coq proofs over a Gallina model of the generated lexer (partial) + runtime monitor of the property on generated and shipped lexers + differential correspondence",
    "assumptions": ["generated lexers without custom Go actions; shipped lexers as linked into the harness"],
}
