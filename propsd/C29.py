PROPS["C29"] = {
    "runs": [{"cmd": "c29.random", "quick": 14, "thorough": 150, "thorough_seeds": 3},
             {"cmd": "c29.look", "quick": 18, "thorough": 108, "thorough_seeds": 3},
             {"cmd": "c29.js", "quick": 40, "thorough": 800, "thorough_seeds": 3}],
    "nontrivial": lambda c: len(c["input"]) > 200,
    "rule": "random conflict-free list grammars (left-, right-recursive or separated lists of small random items) with random '-> Type' arrows, compiled with cancellable = true (with/without optimizeTables and fixWhitespace); "
            "per grammar up to 3 token strings of 520..2600 tokens (a third broken at a random position, random blanks); each string is parsed uncancelled and with the context cancelled at poll 1, 2, 3, a random poll, and by the listener after a random number of events; "
            "a context wrapper logs the outcome of every ctx.Done() poll",
    "modelled": "go_parser.go.tmpl with option cancellable: shiftCounter++ on every shift attempt (action == -1, resp. < -1 for compressed tables), poll of ctx.Done() when shiftCounter & 0x1ff == 0, return of ctx.Err(); layered over the event loop of Gram/Events.v. "
                "Not modelled: lookahead sub-parses (session counters), cancellable lexer fetch, parsers/js/parser_impl.go",
    "partial": "lookahead sub-parses and the js hand-written loop are outside the model (monitored elsewhere: C20 runs js with a background context only)",
    "level_text": "Coq theorems (Props/C29.v) for EVERY machine, event table, input and EVERY oracle of poll outcomes: the cancellable loop returns the context error at a configuration of the uncancelled run (events so far a prefix of the uncancelled events) or exactly the uncancelled result; "
                  "and once the context is done it stops before the next multiple of 512 of its shift counter, having consumed no more tokens than counted. "
                  "The model, driven by the poll outcomes observed on the real generated parser, is compared with the parser's result, poll log and listener events; an independent oracle compares every cancelled run with the uncancelled run of the same parser.",
    "level_note": "Trusted: Coq kernel, extraction, glue (the driver's context wrapper). The oracle rho abstracts the timing of the cancelling goroutine.",
    "technique": "Coq proof over a Gallina model of the polling loop (for all oracles) + extracted-model differential correspondence with generated cancellable parsers + cancelled-vs-uncancelled oracle",
    "assumptions": [],
}
