PROPS["C04"] = {
    "runs": [{"cmd": "c04.random", "quick": 600, "thorough": 10000, "thorough_seeds": 2}],
    "nontrivial": lambda c: "((0 " in c["input"] or "((1 " in c["input"] or "((2 " in c["input"],
    "rule": "expression grammars E -> E op E | op E | E op | ( E ) | id | E E with 1-4 operators, random %left/%right/%nonassoc groups (some operators undeclared, some declared twice), %prec markers; every (state, terminal) cell of the tables lalr builds is compared with the cell the precedence model prescribes; distinct = distinct grammars; non-trivial = at least one precedence group",
    "modelled": "lalr/compile.go resolvePrec (rule precedence = %prec else last terminal, group comparison, associativity), ruleAction, the conflictBuilder ambiguity bookkeeping, the per-cell fold of populateTables (-3 -> -2), on top of the reference LALR(1) automaton of C03",
    "partial": "behaviour-level observation through generated parsers (tree shapes) is covered by the parser run properties, not here",
    "level_text": "Universal Coq theorems about the model of the cell fold: a shift against one reduction is decided exactly by the documented comparison (higher group wins; equal: left reduces, right shifts, nonassoc yields an error cell; any undeclared side: unresolved conflict, shift kept); unresolved reduce/reduce keeps the earlier rule; once unresolved a cell's action is frozen. The model's cells are compared with every cell of lalr's tables for expression grammars with random precedence declarations.",
    "level_note": "Trusted: Coq kernel, extraction, glue; hook VerifCompile. Uses the reference automaton of C03 for the lookahead sets.",
    "technique": "Coq proof over a Gallina model of resolvePrec/ruleAction + extracted-model differential correspondence on all table cells",
    "assumptions": ["no runtime lookahead nonterminals in the conflicting cells"],
}
