PROPS["C07"] = {
    "runs": [{"cmd": "c07.tables", "quick": 400, "thorough": 8000, "thorough_seeds": 3}],
    "nontrivial": lambda c: len(c["input"]) > 80,
    "rule": "grammars built to need k = 2..4 tokens of lookahead: two or three 'twin' nonterminals deriving the same terminal string, followed by contexts sharing a prefix of length < k and then differing, "
            "the shared prefix placed in the same rule, in wrapper rules ending with a terminal (one or two levels) and under recursion; plus a quarter random CFGs; compiled by lalr.Compile with Lookahead = k, kept when conflict-free "
            "(mostly those that really use deep rows); per grammar 24 sampled sentences/mutants and all strings up to length 4 (3 for > 3 terminals)",
    "modelled": "lalr.Tables with LALR(k) rows as read by go_parser.go.tmpl (lalr() + resolveDeepLA: the Lalr row walk continues over the tokens that follow) in Gram/Run.v default_machine. "
                "lalr/trie.go and buildLA(useTransitions) are NOT modelled step by step: their output tables are validated (soundness) and exercised (completeness)",
    "partial": "soundness proved for all inputs per validated table set; completeness (each r/r choice resolved to the rule under which the rest parses) is sampled: model run on the real tables vs chart recogniser on sentences and all short strings",
    "level_text": "Coq theorems (Props/C07.v): for EVERY grammar, LALR(k) table set and LR(0) item certificate accepted by ValidatorK.check_k and EVERY token sequence, the parse loop with deep lookahead rows accepts only sentences and never pops below its stack — whatever the rows answer for whatever continuation. "
                  "Per sampled grammar the extracted check runs on lalr.Compile's real LALR(k) tables, and the loop model running on those tables is compared with the chart recogniser on sampled sentences and all short strings (accepts exactly the language).",
    "level_note": "Trusted: Coq kernel, extraction, glue. Scope: lalr(k) grammars that compile without conflicts. The generated-parser/loop-model tie for LALR(1) cells is C01's; deep rows are read here by the model only (resolveDeepLA copies the lexer; the model walks the token list).",
    "technique": "Coq-proved validator (soundness for all continuations of the lookahead window) evaluated on real LALR(k) tables + model run on those tables vs CFG recogniser oracle",
    "assumptions": ["tokens are terminals 1..T-1"],
}
