PROPS["C14"] = {
    "runs": [{"cmd": "c14.instantiate", "quick": 400, "thorough": 5000, "thorough_seeds": 2},
             {"cmd": "c14.pipeline", "quick": 300, "thorough": 5000, "thorough_seeds": 2},
             {"cmd": "c14.tm", "quick": 200, "thorough": 2500, "thorough_seeds": 2, "oracle_only": True}],
    "nontrivial": lambda c: c["input"].count("(") >= 20,
    "rule": "c14.pipeline: the same models through Instantiate and then Expand, compared exactly with the composed models (exercises the group-delayed sortTail of Expand); c14.instantiate: random templated models through the public API: 1-3 boolean parameters (some with defaults), 2-5 nonterminals with 0-2 parameters "
            "(declaration order not always sorted), rules with conditionals over !, &&, ||, ==, != (values true/false/other strings/empty), nested conditionals inside nested "
            "choices, explicit and propagated (TakeFrom) arguments, optionals, lists with separators; syntax.Instantiate vs model (names with suffixes, order after sort+Rearrange, "
            "trees, inputs); c14.tm: the same as .tm text (%flag with defaults, by-name propagation, omitted arguments filled from defaults or same-named parameters, arguments in "
            "shuffled order; in half of the grammars a %lookahead flag tested without being declared, given explicitly at some references and propagated through entry points, plus a quarter with unstructured uses that PropagateLookaheads must reject) through compiler.Compile (resolveRef, sortArgs, PropagateLookaheads, Instantiate, Expand): grammar.Parser.Rules; "
            "oracle: every instance (identified by its name) against the exhaustive semantic specialisation of its template under its valuation, all words up to length 3-5; c14.tm declares half of the plain flags inline in the nonterminal headers (one declaration per nonterminal, same name: values travel by NAME), and a grammar whose references provide every parameter but is rejected as 'uninitialized parameters' is a violation",
    "modelled": "syntax/templates.go: Instantiate (entry points, doSet for parameterless nonterminals, instance worklist, names + suffix, sort by (nonterminal, suffix), Rearrange, group), "
                "resolveInstance / instance.resolve / allocate (signature in argument order, arguments sorted by parameter), check (short-circuit And/Or, Fatal flag), doExpr for every kind "
                "(conditional filtering under Choice, lone conditional -> Empty, Empty dropped from sequences, Choice/Optional simplification)",
    "partial": "C14_instantiate_correct covers the whole model of Instantiate under the boolean side condition inst_checks (evaluated on every generated model: no Fatal branch, instances pairwise "
               "different, the (nonterminal, suffix) sort yields a permutation, references in range); the sort conjunct is now a theorem for every model (C14_sort_is_a_permutation), so C14_instantiate_correct_core needs only inst_checks_core (no Fatal branch, instances pairwise different, references in range); not proved: that inst_checks_core holds for every well-formed model. PropagateLookaheads (lookahead flags) has no step-by-step model: it is covered end to end only, by the .tm oracle against the declarative reading of lookahead flags "
               "(passed on unchanged through entry points, reset to false elsewhere, explicit arguments override; Templates.la_explicit); compiler/syntax.go resolveRef/sortArgs only through the .tm oracle; arguments inside set expressions (TokenSet.Args) are outside the model",
    "level_text": "Universal Coq theorems: C14_sort_is_a_permutation - the final sort by (nonterminal, suffix) builds a permutation for every model (the modelled insertion sort permutes 0..n-1, perm is its inverse); C14_instantiate_correct(_core) - for every templated model passing the boolean side conditions (no Fatal branch, instances pairwise different, references in range), every instance (nonterminal, bound arguments) created by the model of "
                  "syntax.Instantiate has in the instantiated table exactly the language its template has under these arguments (both as least solutions; explicit and propagated arguments, conditionals with "
                  "!, &&, ||, ==, !=, all expression kinds; inputs = instances without arguments); the instantiator's predicate evaluation equals the declarative evaluation; per-expression theorem for doExpr; "
                  "Fatal branches unreachable for bound predicates/arguments. "
                  "The step-by-step model equals syntax.Instantiate on every generated model, and the implementation's instances (from the API and from compiler.Compile on .tm text) have, on all short words, "
                  "the language of the exhaustively specialised template.",
    "level_note": "Fixed in the repo under verification: two compiler aborts (log.Fatal) reachable from grammar text through lookahead flags (eaba233 aliasing of requiredFlags, c95f3c5 checkOrDie on a parametrized input). Semantics of disabled alternatives as pinned by syntax/templates_test.go (`a ([T] b) a` with T=false is `a a`): a group without enabled alternatives matches the empty string; "
                  "under the stricter reading (no alternative = no string) 70 of 600 generated cases differ (e.g. `N1<A>: [A == \"false\"] ... ;` instantiated with +A gets the rule %empty). "
                  "Trusted: Coq kernel, extraction, glue; ExtLang/Derive recognisers as specification oracles.",
    "technique": "Coq proof over a Gallina model of syntax.Instantiate + extracted-model differential correspondence + language oracle against exhaustive semantic specialisation, incl. .tm end to end",
    "assumptions": ["parameter values are true/false (the compiler admits nothing else)", "set expressions name only nonterminals without parameters",
                    "models pass syntax.Check (arguments in parameter order, inputs without parameters)"],
}
