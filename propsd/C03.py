PROPS["C03"] = {
    "runs": [{"cmd": "c03.random", "quick": 500, "thorough": 8000, "thorough_seeds": 2}],
    "nontrivial": lambda c: len(c["input"]) > 60,
    "rule": "random CFGs (1-5 nonterminals, 1-5 terminals, empty and mutually recursive nullable rules, several inputs, no-eoi inputs; a quarter with precedence groups / %prec; a sixth with non-zero %expect values), conflicting grammars included; per grammar the full state machine (kernels, reductions, transitions, lookahead sets), the tables, conflict counts and the error decision",
    "modelled": "lalr/compile.go: computeStates (LR(0) collection incl. final-state synthesis, lr0 flags, addShift), initLalr, buildLA's result (as the least solution of closure/goto propagation), populateTables, ruleAction/resolvePrec, conflict counting, reportConflicts' error decision. Not modelled: the DeRemer-Pennello machinery itself (empties, lookback, SCC unions) - its result is what is compared; .greedy; runtime lookahead rules",
    "partial": "the reference lookahead sets are the least fixpoint of the LALR(1) propagation constraints computed by a naive iteration; the proof that this least fixpoint equals the inductive LR(1)-validity definition is not done",
    "level_text": "A reference LALR(1) construction written in Gallina (worklist LR(0) collection over kernels, lookaheads as the least solution of closure/goto propagation, expected Action/Lalr/Goto/FromTo, precedence resolution, conflict counts) is compared with textmapper's states, lookahead sets, tables, SR/RR counts and error decision, state by state and cell by cell; the property oracle judges every (state, terminal) cell of the implementation's tables against the canonical cell.",
    "level_note": "Trusted: Coq kernel, extraction, glue; hook lalr/verif_hooks.go VerifCompile replays Compile's phases and copies the states. States are identified by their kernel as textmapper does (start and final states apart).",
    "technique": "executable Gallina reference construction + extracted-model differential correspondence (theorems in Props/C03.v cover the precedence/cell layer)",
    "assumptions": ["no .greedy markers, no runtime lookahead nonterminals"],
}
