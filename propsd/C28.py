PROPS["C28"] = {
    "runs": [
        {"cmd": "c28.exhaustive", "quick": 4, "thorough": 5},
        {"cmd": "c28.names", "quick": 6000, "thorough": 100000, "thorough_seeds": 2},
        {"cmd": "c28.grammar", "quick": 150, "thorough": 1500},
    ],
    "nontrivial": lambda c: len(c["input"]) > 12,
    "rule": "c28.exhaustive: every ID-syntax name up to length k over {a,B,z,_,Z,-,0,9} and every quoted body of <= 2 atoms over 17 atoms; c28.names: random IDs, quoted ids (escapes, Latin-1, astral, invalid UTF-8) and raw byte strings; all four styles per name; c28.grammar: grammars declaring two near-colliding terminals/nonterminals through compiler.Compile; c28.grammar also declares terminals with an explicit ID clause, name (ID), as the first, the second or both of the two terminals: the clause replaces the derived identifier in the collision check",
    "modelled": "util/ident/id.go Produce (UTF-8 range loop, charName, hex fallback, all four styles) step by step; IsValid restricted to ASCII output; the ID bookkeeping of compiler/resolver.go (ids map + error on reuse)",
    "partial": "the statement 'every admitted name gets a non-empty identifier' is false on the pinned code for `_`-only names (non-UpperCase styles) and `''`: known findings, proved as C28_nonempty_refuted",
    "level_text": "Universal Coq theorems about the step-by-step model of ident.Produce: for every byte string and each of the four styles the result is ASCII [A-Za-z0-9_] not starting with a digit (valid whenever non-empty); every quoted name and every name with an ASCII letter/digit gives a non-empty identifier; the unrestricted non-emptiness claim is refuted in Coq by `_` and `''` (two known findings); the resolver keeps IDs unique unless it reports an error; in reporting form (C28_colliding_names_are_reported): Produce is not injective (foo-bar / foo_bar), but for every list of declared names and every assignment of styles, two different declared names with the same identifier always make the resolver report an error, and without a reported error the identifier determines the name (C28_produce_injective_on_declared_unless_reported). The model is compared byte for byte with ident.Produce on exhaustive short names and random long ones (Latin-1, astral, invalid UTF-8), and the collision report is compared through compiler.Compile.",
    "level_note": "Trusted: Coq kernel, extraction, glue. Names are restricted to the tm ID / quoted_id token syntax for the validity oracle (raw byte strings only feed the correspondence).",
    "technique": "Coq proof over a Gallina model of Produce + extracted-model differential correspondence",
    "assumptions": [],
}
