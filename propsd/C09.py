PROPS["C09"] = {
    "runs": [{"cmd": "c09.random", "quick": 5000, "thorough": 120000, "thorough_seeds": 2}],
    "soft_kinds": ("c09.bisim",),
    "nontrivial": lambda c: c["kind"] == "c09.scan",
    "rule": "c09.bisim: per compiled rule set and start condition the proved-sound certificate check_bisim between the real tables and the derivative vectors of the active rules (accepted => Scan = spec_scan on every text; a difference in accepting labels or moves at a reachable pair is a violation; cap/size limits give unknown); random rule sets (1-4 rules, 1-2 start conditions, precedences 0/1, shared actions) over literals, classes, negated and subtracted classes, \\p classes, "
            "repetition incl. bounded, alternation, {eoi} (as suffix, inside an alternative, alone), case-insensitive groups and option, byte mode (one third, half of them with bytes >= 0x80), "
            "compiled by the real lex.ParseRegexp + lex.Compile with backtracking allowed; rule sets that do not compile are skipped and counted (scope filter); "
            "c09.wf: the validator check_tables (hypothesis of C09_scan_is_longest) evaluated on the real tables; "
            "c09.scan: per start condition 10 random texts (ASCII alphabet of the rules, multi-byte letters, stray continuation/lead bytes, random bytes, the empty text) through Tables.Scan, "
            "the model scanF and the derivative-based specification spec_scan on the implementation's own parsed ASTs; distinct = distinct (tables, rules, texts)",
    "modelled": "lex/lex.go Tables.Scan (symbol map search, UTF-8 decoding incl. RuneError, checkpoints, end-of-input loop) mirrored; generator.go/compile.go/compress.go are covered through "
                "their output: the checkpoint validator on every table set and the language-level oracle on every sampled text",
    "partial": "agreement of compiled tables with the rule-level specification for ALL texts is proved per rule set only where the certificate check_bisim accepts "
               "(about 90% of the sampled rule sets in the quick tier: symbol maps with more than 400 intervals — large Unicode classes — are skipped for time, BISIM_MAXIV lifts the limit; "
               "evidence field model_divergence_on_certificate_kinds counts the rule sets without certificate); for the others it is sampled (10 texts each); "
               "lex.Compile itself is not modelled",
    "level_text": "Universal Coq theorem C09_scan_is_longest: for every table set accepted by the boolean validator check_tables, every start condition and every non-empty text, the model of Tables.Scan "
                  "(checkpoint cells, size/action registers, end-of-input loop) returns exactly the last accepting position and label of the run of the automaton encoded by the tables, else the position "
                  "where the run dies with action 0. The validator is evaluated on the real tables of every compiled rule set; the model is compared with Tables.Scan and, independently, Tables.Scan is "
                  "compared with the regex-level specification spec_scan computed by Brzozowski derivatives. The specification is itself proved (universal theorems, all rule sets and texts): "
                  "C09_nullable_correct, C09_deriv_correct (w matches deriv c r <-> c::w matches r), C09_nonvoid_correct against the inductive semantics `matches` of expressions over input symbols, "
                  "C09_rx_of_correct (the translation of the parsed AST denotes the AST's language), and C09_spec_scan_correct: the oracle answers the byte offset of the longest candidate word "
                  "(a prefix of the decoded symbols, at the end of the text followed by up to four end markers) matched by some rule, with the action of the highest-precedence (earliest among equals) "
                  "rule matching it; when no candidate is matched, action 0 and the offset of the longest prefix some rule can still extend. C09_check_bisim_scan: for every table set, rule set and start condition, if check_tables and check_bisim accept then Tables.Scan (model) equals spec_scan on EVERY non-empty text of bytes; check_bisim is evaluated on the real tables of every sampled rule set.",
    "level_note": "Trusted: Coq kernel, extraction, glue, hook lex/verif_hooks_regexp.go (AST dump). Repaired in this tree: F6 (Scan end-of-input loop) and the missing 'accepts empty text' report for patterns that reduce to nothing.",
    "technique": "Coq proof of a table validator (P2) over a Gallina model of Tables.Scan + extracted-model differential correspondence + derivative-based specification oracle proved correct against an inductive regex semantics",
    "assumptions": ["rule sets that lex.Compile accepts (no 'accepts empty text', no identical rules)", "no empty character classes, {eoi} not under an unbounded repetition (see C12 for end-of-input cycles)"],
}
