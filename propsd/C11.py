PROPS["C11"] = {
    "runs": [{"cmd": "c11.gen", "quick": 60, "thorough": 900, "thorough_seeds": 2},
             {"cmd": "c11.maps", "quick": 1500, "thorough": 100000, "thorough_seeds": 2}],
    "nontrivial": lambda c: c["kind"] in ("c11.lexer", "c11.maps") and len(c["input"]) > 60,
    "rule": "c11.maps: the rune class tables (SymbolArr, CompressedMap) of every generated lexer and of synthetic sorted symbol maps (short and long segments, ends from 60 to 0x10FFFF) vs the model, ranges_sortedb on the generated ranges, and lookups through the implementation's own tables vs the plain map at every segment boundary neighbourhood; c11.gen: random lexer grammars (space, comment, identifier class with 1-5 keywords incl. non-ASCII ones, numbers with and without a code action (rule->token table vs inlined tokens), "
            "float/string/+== rules that need backtracking, Unicode class rule (compressed rune map), a random low-priority rule, (\\n|{eoi}) continuation, 1-2 start conditions) under the options "
            "tokenLine, tokenColumn, scanBytes, caseInsensitive, nonBacktracking; compiled by compiler.Compile + gen.Generate of the current tree, built into one scratch binary; per start condition 12 texts "
            "(keywords, near-keywords, partial floats/strings, newlines, non-ASCII, stray bytes, BOM); grammars the compiler rejects are counted and skipped; distinct = distinct (lexer, text)",
    "modelled": "gen/templates/go_lexer.go.tmpl (Init, Next with restart, DFA loop incl. end-of-input moves and checkpoints, hash accumulation, keyword switch from gen.asStringSwitch data, "
                "handleInvalidToken in both rule-token and inlined-token modes, rewind, line/column bookkeeping, Pos/Line/Column) mirrored in LexerRT.v on the real tables; "
                "compiler/lexer.go (resolveClasses, canInlineRules) is covered through its output",
    "partial": "next_spec (the model's token = the token the rules define) is not proved: both streams are compared on every run; rune_class_lookup is proved completely",
    "level_text": "Universal Coq theorems: C11_rune_class_lookup — for every symbol map as lex.Compile builds it and every character, the class lookup of the generated lexer (tmRuneClass, else mapRune over the tmRuneRanges built by CompressedMap with its strike/count rules and trailing-default trimming, else the last target) equals the plain symbol-map lookup; mapRune's binary search returns the value of the range containing the character for every ascending disjoint range list; the generated keyword switch (sound, complete under the bucket/hash conditions asStringSwitch establishes, identity on non-keys). "
                  "The step-by-step LexerRT model is compared token by token (token, byte range, line, column, repeated end-of-input) with generated lexers built from the current tree, and "
                  "independently every stream is compared with the stream the rules define (longest match by Brzozowski derivatives, keyword over class, space skipped, invalid token with one-character progress).",
    "level_note": "Trusted: Coq kernel, extraction, glue; hooks gen/verif_hooks_switch.go, lex/verif_hooks_regexp.go. Known finding: byte-mode lexers never recognise keywords with non-ASCII characters.",
    "technique": "Coq proofs over a Gallina model of the generated lexer + generated-code differential correspondence + regex-level specification oracle",
    "assumptions": ["lexer grammars within the generated family (no custom Go code except value assignments)"],
}
