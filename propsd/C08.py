PROPS["C08"] = {
    "runs": [{"cmd": "c08.random", "quick": 6000, "thorough": 120000, "thorough_seeds": 2},
             {"cmd": "c08.gen", "quick": 40, "thorough": 600, "thorough_seeds": 2}],
    "nontrivial": lambda c: c["input"].count("(") >= 6,
    "rule": "random sets of 2..6 lookahead alternatives over up to 5 predicate inputs: decision lists (exclusive by construction, shuffled), corrupted decision lists (flipped polarity, dropped literal, swapped order) and unstructured sets; for accepted sets all 2^n truth assignments are enumerated against the returned rule",
    "modelled": "lalr/lookahead.go newLookaheadRule (order graph, DFS with depth, pickLookahead, swap-remove bookkeeping) and the generated if/else-if chain of go_parser.go.tmpl that evaluates a LookaheadRule",
    "partial": "the grouping of alternatives per parser state (ruleAction/addRule/compile) is exercised through the table-level properties, not modelled here",
    "level_text": "Universal Coq theorem: whenever the model of newLookaheadRule accepts a set, then for EVERY assignment of predicate outcomes under which some alternative's conjunction holds, the generated decision chain returns that alternative (hence accepted sets are mutually exclusive). The model is compared with lalr.newLookaheadRule (rule text and error kind) on thousands of sets; for each accepted set the implementation's own rule is evaluated on all 2^n assignments, and exclusivity and consistent ordering are checked.",
    "level_note": "Trusted: Coq kernel, extraction, glue; hook lalr/verif_hooks.go (VerifNewLookaheadRule copies the slice and calls newLookaheadRule).",
    "technique": "Coq proof over a Gallina model of newLookaheadRule + extracted-model differential correspondence + exhaustive assignment enumeration",
    "assumptions": ["at least two alternatives (the planner only builds rules for conflicts)"],
}
