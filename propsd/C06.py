PROPS["C06"] = {
    "runs": [{"cmd": "c06.random", "quick": 500, "thorough": 8000, "thorough_seeds": 2}],
    "nontrivial": lambda c: len(c["input"]) > 80,
    "rule": "random CFGs with duplicated rule shapes, random Action/Type/Flags per rule (so that rule classes are non-trivial), state markers, several inputs and no-eoi inputs, compiled by lalr.Compile with and without MinimizeDFA; per grammar 8 token strings per input (random derivations, mutated sentences, random strings)",
    "modelled": "lalr/minimize.go (rule classes, signatures with first-occurrence numbering, Moore refinement until the class count is stable, rebuilding Action/FinalStates/Markers/Goto/FromTo incl. edge sort + compaction) and the parser main loop (Gram/Run.v) on both table sets",
    "partial": "",
    "level_text": "Coq theorems (Props/C06.v) about the quotient: when the finite exhaustive check check_min passes for (tables, minimized tables, remapping), runs of the two parsers from every entry state proceed in lock step on EVERY token sequence. check_min is evaluated on the implementation's minimized tables with the model's remapping as certificate; the model of minimize is compared array for array with lalr; runs of both table sets are compared on sampled inputs.",
    "level_note": "Trusted: Coq kernel, extraction, glue. Inputs with duplicate (nonterminal, eoi) pairs are out of scope (the entry functions would collide; see DESIGN F8). Tables with LALR(k) rows are outside the theorem (compared by runs only).",
    "technique": "Coq simulation proof from a checked quotient certificate + extracted-model differential correspondence",
    "assumptions": ["tables come from lalr.Compile"],
}
