PROPS["C20"] = {
    "runs": [{"cmd": "c20.builder", "quick": 3000, "thorough": 60000, "thorough_seeds": 2},
             {"cmd": "c20.events", "quick": 600, "thorough": 8000, "thorough_seeds": 2, "oracle_only": True},
             {"cmd": "c20.gen", "quick": 40, "thorough": 500, "thorough_seeds": 2}],
    "nontrivial": lambda c: c["input"].count("(") >= 4,
    "rule": "c20.builder: random well-nested interval families over texts of 1..24 bytes (zero-length nodes, shared boundaries, independent subtrees interleaved so that earlier events may lie to the right), "
            "20% arbitrary event lists and 10% families with one corrupted range, driven into builder.addNode of parsers/tm/ast and parsers/js/ast (both instances of go_ast_parse.go.tmpl); "
            "c20.events: the listener callbacks of the shipped tm, js, json and test parsers on their own grammar/sample texts and on mutated (deleted, inserted, swapped, truncated) texts, with error handlers that continue; "
            "the event streams of real tm/js parses are also fed to the builder (c20.build cases); "
            "c20.gen: random event-based grammars generated and built from the tree under test: fixWhitespace in 4 of 5 (the others report regular tokens only, nothing skipped), "
            "an injected (space) comment '%inject comment -> Comment;' in most, optionally an injected line comment, invalid_token, whitespace and regular tokens, optimizeTables, tokenStream = true in a quarter (generated stream.go instead of parser.go's own pending list), "
            "rules with nullable tails ('x'?, 'x'*, N?, N*, nullable nonterminals), optional parts, inline lists with and without separators, state markers (.m0 .. .m3) at every position including the end of a rule and behind a nullable tail, "
            "mid-rule / whole-rule / nonterminal-level arrows and arrows on empty rules, error rules ('error', 'error' x, x 'error', x 'error' y) in a third; per grammar 40 inputs: sentences of random derivations with blanks, newlines, "
            "comments and line comments sprinkled between any two tokens (before the first, after the last, several in a row, or none at all), and broken inputs (derivations through error rules, deleted / inserted / replaced tokens, "
            "invalid characters and unterminated comments next to comments), error handlers that continue or stop after the first or second error; every listener callback is recorded in report order; "
            "half of the grammars are generated a second time with eventFields/eventAST and the stream is driven into the GENERATED builder.addNode (otherwise into the tm instance); in c20.events every second input is parsed with one Parser per target that was initialised once; seeds with comments before and inside lookahead regions (js) and right before a syntax error (json, test)",
    "modelled": "gen/templates/go_ast_parse.go.tmpl builder.addNode (scan from the top while offset >= node offset, `end` moves once for every scanned entry starting at or after the end offset, three splice cases, parent/next/firstChild links) as Gram/TreeBuilder.v add_node. "
                "Not modelled: the producers (parse loop with recovery, pending-token flushing of parser.go / stream.go, js hand-written loop); their streams are judged, not predicted "
                "(grammar/gen.go HasTrailingNulls, go_parser.go.tmpl fixTrailingWS / reportRange / flush / recoverFromError and go_stream.go.tmpl flush run inside the generated parsers of c20.gen)",
    "partial": "builder half: universal theorem. Producer half: universal theorem for the recovery-free fixWhitespace parse loop (C20_parser_events_are_well_nested, all machines/inputs/outcomes, under the C02 tree well-formedness and laminar reports); "
               "with error recovery, injected (reported) tokens and the hand-written js loop the stream is monitored, not proved: on the shipped tm/js/json/test parsers (c20.events) and on generated parsers of random grammars with injected skipped tokens, "
               "state markers, nullable tails and error rules (c20.gen)",
    "level_text": "Coq theorem C20_builder_correct: for EVERY event stream whose nodes are pairwise disjoint or nested with containers reported after their contents, builder.addNode yields a forest with exactly the reported nodes, each child inside its parent, siblings in source order and disjoint (hence attached to its smallest container). "
                  "The model is compared tree for tree with the builders of parsers/tm/ast and parsers/js/ast on thousands of random streams (well-nested, corrupted and arbitrary), and the implementation's trees are judged by the extracted wf_forest/multiset oracle. "
                  "Coq theorem C20_parser_events_are_well_nested: for EVERY machine, event table with laminar reports (inner arrows first, nested_table), input of ordered non-empty tokens and fuel, the events the fixWhitespace parse loop (Gram/Events.v xrun, no recovery) has emitted when it stops -- accepted or not -- satisfy ok_events and in_input, provided the trees on the final stack are well formed (C02's wf_tree) and end-of-input leaves are stack entries of their own; "
                  "C20_parser_and_builder composes it with the builder theorem (the parser's stream builds a well-formed forest with exactly the reported nodes). "
                  "The first half of the property (nodes inside the input, disjoint or nested, containers last) is evaluated on the real listener callbacks of the shipped tm, js, json and test parsers on valid and broken inputs, "
                  "and on the callbacks of parsers GENERATED from random grammars that report skipped tokens (injected comments, invalid tokens), with state markers, nullable tails, lists and error recovery (c20.gen); "
                  "their streams are also driven into the generated AST builder and compared with the model forest.",
    "level_note": "Trusted: Coq kernel, extraction, glue; hooks parsers/{tm,js}/ast/verif_hooks.go (drive addNode, dump the stack). Range-based nesting: a zero-length node at the start of a following sibling is inside that sibling (the statement's notion of container).",
    "technique": "Coq proof over a Gallina model of addNode + extracted-model differential correspondence + proved-sound forest oracle; event-stream monitor on shipped parsers",
    "assumptions": [],
}
