PROPS["C20"] = {
    "runs": [{"cmd": "c20.builder", "quick": 3000, "thorough": 60000, "thorough_seeds": 2},
             {"cmd": "c20.events", "quick": 600, "thorough": 8000, "thorough_seeds": 2, "oracle_only": True},
             {"cmd": "c20.gen", "quick": 40, "thorough": 500, "thorough_seeds": 2}],
    "nontrivial": lambda c: c["input"].count("(") >= 4,
    "rule": "c20.builder: random well-nested interval families over texts of 1..24 bytes (zero-length nodes, shared boundaries, independent subtrees interleaved so that earlier events may lie to the right), "
            "20% arbitrary event lists and 10% families with one corrupted range, driven into builder.addNode of parsers/tm/ast and parsers/js/ast (both instances of go_ast_parse.go.tmpl); "
            "c20.events: the listener callbacks of the shipped tm, js, json and test parsers on their own grammar/sample texts and on mutated (deleted, inserted, swapped, truncated) texts, with error handlers that continue; "
            "the event streams of real tm/js parses are also fed to the builder (c20.build cases)",
    "modelled": "gen/templates/go_ast_parse.go.tmpl builder.addNode (scan from the top while offset >= node offset, `end` moves once for every scanned entry starting at or after the end offset, three splice cases, parent/next/firstChild links) as Gram/TreeBuilder.v add_node. "
                "Not modelled: the producers (parse loop with recovery, token reporting, js hand-written loop); their streams are judged, not predicted",
    "partial": "builder half: universal theorem. Producer half: universal theorem for the recovery-free fixWhitespace parse loop (C20_parser_events_are_well_nested, all machines/inputs/outcomes, under the C02 tree well-formedness and laminar reports); "
               "with error recovery, injected tokens and the hand-written js loop the stream is monitored on the shipped parsers, not proved",
    "level_text": "Coq theorem C20_builder_correct: for EVERY event stream whose nodes are pairwise disjoint or nested with containers reported after their contents, builder.addNode yields a forest with exactly the reported nodes, each child inside its parent, siblings in source order and disjoint (hence attached to its smallest container). "
                  "The model is compared tree for tree with the builders of parsers/tm/ast and parsers/js/ast on thousands of random streams (well-nested, corrupted and arbitrary), and the implementation's trees are judged by the extracted wf_forest/multiset oracle. "
                  "Coq theorem C20_parser_events_are_well_nested: for EVERY machine, event table with laminar reports (inner arrows first, nested_table), input of ordered non-empty tokens and fuel, the events the fixWhitespace parse loop (Gram/Events.v xrun, no recovery) has emitted when it stops -- accepted or not -- satisfy ok_events and in_input, provided the trees on the final stack are well formed (C02's wf_tree) and end-of-input leaves are stack entries of their own; "
                  "C20_parser_and_builder composes it with the builder theorem (the parser's stream builds a well-formed forest with exactly the reported nodes). "
                  "The first half of the property (nodes inside the input, disjoint or nested, containers last) is evaluated on the real listener callbacks of the shipped tm, js, json and test parsers on valid and broken inputs.",
    "level_note": "Trusted: Coq kernel, extraction, glue; hooks parsers/{tm,js}/ast/verif_hooks.go (drive addNode, dump the stack). Range-based nesting: a zero-length node at the start of a following sibling is inside that sibling (the statement's notion of container).",
    "technique": "Coq proof over a Gallina model of addNode + extracted-model differential correspondence + proved-sound forest oracle; event-stream monitor on shipped parsers",
    "assumptions": [],
}
