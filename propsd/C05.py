PROPS["C05"] = {
    "runs": [{"cmd": "c05.random", "quick": 700, "thorough": 12000, "thorough_seeds": 2}],
    "nontrivial": lambda c: len(c["input"]) > 60,
    "rule": "random CFGs (1-5 nonterminals, 1-5 terminals, empty rules, several inputs, no-eoi inputs, conflicting grammars included; one third with random %left/%right/%nonassoc groups) compiled by lalr.Compile; each DefaultEnc is optimized with and without defaultReduce; distinct = distinct (tables, mode)",
    "modelled": "lalr/optimize.go (Optimize, pickDefault, pack with the stable sort, allocator.place with hash-keyed dedupe, first-fit scan over taken/usedBase, end-of-table fallback) and both table decoders of go_parser.go.tmpl (lalr, gotoState linear/binary, the Optimized branches)",
    "partial": "the per-table check is exhaustive over all cells (a finite space) and proved to imply the property for that table set; a once-and-for-all proof that the model of Optimize always passes it (the allocator invariants) is not done",
    "level_text": "For each sampled grammar the property is decided for ALL state x terminal cells and all gotos by a Coq-proved exhaustive check (check_enc / check_enc_dr: same shift/reduce/error; with defaultReduce explicit nonassoc errors stay errors, implicit errors may only become a most frequent reduction, never a shift) evaluated on the implementation's own compressed arrays; the step-by-step model of Optimize is compared with all seven arrays of lalr.Optimize.",
    "level_note": "Trusted: Coq kernel, extraction, glue. Universal over cells and decoders, sampled over grammars. Tables with LALR(k) rows are out of scope (Optimize rejects them).",
    "technique": "Coq-proved exhaustive per-table validator + extracted-model differential correspondence",
    "assumptions": ["tables come from lalr.Compile"],
}
