PROPS["C24"] = {
    "runs": [{"cmd": "c24.random", "quick": 4000, "thorough": 60000, "thorough_seeds": 2}],
    "nontrivial": lambda c: True,
    "rule": "random byte-mode rule sets (1-4 rules over literals, classes, repetition, alternation; one third with bytes >= 0x80) compiled by lex.Compile(scanBytes, no backtracking); "
            "c24.pack: all 256 rows and the onEoi array of shiftdfa.Pack vs the model; c24.wf: the theorem's hypothesis wf24b evaluated on the same real tables; c24.scan: 12 random byte strings per packed automaton through Scanner.Scan and Tables.Scan; distinct = distinct tables/text sets",
    "modelled": "shiftdfa.Pack, Scanner.Scan (64-bit rows in N with explicit mod 2^64), lex.Tables.Scan (byte and rune decoding) mirrored; lex.Compile itself is not modelled here (its output tables are the input)",
    "partial": "",
    "level_text": "Universal Coq theorem C24_pack_scan_agrees: for every well-formed table set accepted by the model of Pack and every byte string, the packed scanner (64-bit rows, shifts and masks modelled in N with explicit mod 2^64) returns exactly what the model of lex.Tables.Scan returns. The layers of that proof are theorems of their own, each for all accepted table sets: Pack accepts iff its conditions hold (C24_pack_accepts_iff_conditions: <= 10 states, no backtracking, single start state, last class starts <= 0x80, < 32 actions, no shift on EOI); every 6-bit field of every packed 64-bit row decodes to the DFA transition, 2*action+1 or 6*target (C24_packed_field_is_transition, from the bit-level lemma C24_fields_read_back for all field positions); onEoi holds the EOI actions (C24_packed_eoi_is_action); the two scan loops agree from every state and offset (C24_scan_loops_simulate). The model of Pack is compared with shiftdfa.Pack on all 256 rows + onEoi for thousands of compiled rule sets per run, the well-formedness hypothesis is evaluated on those real tables, and every sampled scan is compared with both implementations.",
    "level_note": "Trusted: Coq kernel, extraction, glue; hook shiftdfa/verif_hooks.go only exposes the private table.",
    "technique": "Coq proof over a bit-level Gallina model + extracted-model differential correspondence",
    "assumptions": ["tables come from lex.Compile (well-formed: sorted symbol map starting at 0, targets within the table)"],
}
