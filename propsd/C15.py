PROPS["C15"] = {
    "runs": [{"cmd": "c15.sets", "quick": 1500, "thorough": 30000, "thorough_seeds": 2},
             {"cmd": "c15.tm", "quick": 300, "thorough": 6000, "thorough_seeds": 2, "oracle_only": True}],
    "nontrivial": lambda c: c["input"].count("(") >= 20,
    "rule": "c15.sets: random expanded models through the public API (3-6 terminals, 2-6 nonterminals with 1-3 flat rules of 0-4 symbols, three nullable densities, "
            "set nonterminals, lookahead nonterminals, arrows, unreachable nonterminals, 1-2 inputs incl. no-eoi first inputs) with 1-4 set expressions of depth <= 3 over "
            "any/first/last/precede/follow of terminals and nonterminals, union, intersection, complement, references to named sets (self, forward: cycles) and top-level aliases; "
            "syntax.ResolveSets vs model (sets, rewritten set nonterminals, offending complements identified by their Origin); "
            "c15.tm: the same as .tm text (%generate sets, set(...) nonterminals, optional `error` terminal) through compiler.Compile: Grammar.Sets incl. afterErr, IsRecovering; "
            "both judged by the naive fixpoint oracle; distinct = distinct input text, non-trivial = at least 20 nodes",
    "modelled": "syntax/nullable.go (Nullable, isNullable), syntax/set.go (ResolveSets: rules with the LIFO queue and reachability from the first eoi input, oneRule.accept, "
                "instantiate/translate incl. proxies and the visited map, the any/first/last/precede/follow queue, result extraction incl. inverse sets over [0,terms), "
                "rewrite of set nonterminals) on top of the C25 model of util/set (Closure.compute, Tarjan)",
    "partial": "sets_exact / self_complement_rejected / after_err are not Coq theorems (they need the least-solution theorem of the Tarjan closure, open in C25); proved: "
               "isNullable exact for every rule body; the oracle tables nullable/first/last/any/follow/precede are exactly the inductive definitions (stability-checked Kleene iteration). "
               "closed set expressions (union/intersection/complement without named sets) over plain rules are proved equal to the declarative set_den (C15_closed_sets_exact); "
               "named (mutually recursive) sets and set nonterminals feeding back into first/last/any are in the naive-solver oracle without a proof; compiler.go afterErr wiring is covered by c15.tm only",
    "level_text": "Universal Coq theorems: (1) the model of isNullable returns true exactly when the rule body denotes the empty string (all expression kinds the compiler builds); "
                  "(2) the executable specification used as oracle computes exactly the inductive definitions nullable_in, first_in, last_in, any_in, follow_in, precede_in for every grammar whenever its stability check passes. "
                  "Per run: the step-by-step model of ResolveSets equals the implementation on every case (terminals of every set, error sets), and the implementation's result equals "
                  "the naive stratified fixpoint of the eagerly generated declarative equation system (all five operators, union/intersection/complement, set nonterminals feeding back into "
                  "first/last/any, mutually recursive named sets), and the proved evaluation (tables + set algebra) for every closed expression over plain rules; also end to end through compiler.Compile (Grammar.Sets, afterErr, IsRecovering).",
    "level_note": "Trusted: Coq kernel, extraction, glue; ClosureSpec.spec_solve (naive solver shared with C25) is not proved. A set nonterminal is never nullable in both model and "
                  "specification (the implementation's %empty rule for an empty set is the C13 finding).",
    "technique": "Coq proof over a Gallina model + proved specification tables + extracted-model differential correspondence + naive fixpoint oracle, incl. .tm end to end",
    "assumptions": ["models are expanded (rules are flat) as ResolveSets requires", "complements have distinct Origins (true for compiled grammars)"],
}
