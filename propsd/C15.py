PROPS["C15"] = {
    "runs": [{"cmd": "c15.sets", "quick": 1500, "thorough": 30000, "thorough_seeds": 2},
             {"cmd": "c15.tm", "quick": 300, "thorough": 6000, "thorough_seeds": 2, "oracle_only": True}],
    "nontrivial": lambda c: c["input"].count("(") >= 20,
    "rule": "c15.sets: random expanded models through the public API (3-6 terminals, 2-6 nonterminals with 1-3 flat rules of 0-4 symbols, three nullable densities, "
            "set nonterminals, lookahead nonterminals, arrows, unreachable nonterminals, 1-2 inputs incl. no-eoi first inputs) with 1-4 set expressions of depth <= 3 over "
            "any/first/last/precede/follow of terminals and nonterminals, union, intersection, complement, references to named sets (self, forward: cycles) and top-level aliases; "
            "syntax.ResolveSets vs model (sets, rewritten set nonterminals, offending complements identified by their Origin); "
            "c15.tm: the same as .tm text (%generate sets, set(...) nonterminals, optional `error` terminal) through compiler.Compile: Grammar.Sets incl. afterErr, IsRecovering; "
            "both judged by the naive fixpoint oracle; distinct = distinct input text, non-trivial = at least 20 nodes",
    "modelled": "syntax/nullable.go (Nullable, isNullable), syntax/set.go (ResolveSets: rules with the LIFO queue and reachability from the first eoi input, oneRule.accept, "
                "instantiate/translate incl. proxies and the visited map, the any/first/last/precede/follow queue, result extraction incl. inverse sets over [0,terms), "
                "rewrite of set nonterminals) on top of the C25 model of util/set (Closure.compute, Tarjan)",
    "partial": "sets_exact against the declarative set_den is proved only up to the generated equation system: a SetsOk result is the unique least (stable) solution of the "
               "system the model generated (C15_sets_least_solution_partial) and a SetsErr result lists exactly the generated complements on cycles (C15_self_complement_rejected), "
               "under the executable certificate sets_certb evaluated on every case (node list well formed; check_scc / check_onstack accept the Tarjan output: Tarjan itself is not proved). "
               "Closed for first / last (this round): C15_generated_first_last_exact - whenever the proved-sound executable check gen_keys_ok accepts the generated system (key nodes of first/last: singleton for a terminal, union of exactly the key nodes prescribed by the rules up to the first non-nullable symbol for a nonterminal; nullable set = nullable_in), every stable solution is exactly first_in / last_in at these nodes; "
               "C15_sets_exact_first_last - a SetsOk result is exactly set_den for every top-level `first s` / `last s` under sets_certb and sets_gen_ok (both evaluated on every case; sets_gen_ok on models without reachable set nonterminals). "
               "Not proved: the same step for the keys any / follow / precede and for the union / intersection / complement trees built by translate (compared per run with the eager declarative system and, for closed expressions, with the proved evaluation); "
               "a declarative meaning for named (mutually recursive) sets and set nonterminals feeding back into first/last/any (naive-solver oracle only); termination of the slow loop within the model's fuel "
               "(hypothesis c_oof = false, implied by a SetsOk result); the position of afterErr among the sets and compiler.go wiring are covered by c15.tm only",
    "level_text": "Universal Coq theorems: (1) isNullable returns true exactly when the rule body denotes the empty string; (2) the oracle tables are exactly the inductive definitions nullable_in, first_in, last_in, "
                  "any_in, follow_in, precede_in whenever the stability check passes; (3) the closure solver (Tarjan order, union branch, slow intersection branch, complements of solved components) returns the least "
                  "solution: for every well-formed node list without a complement on a dependency cycle the computed values are the stable solution (= least solution of the equations with complement operands fixed), "
                  "which satisfies every equation, is below every closed valuation and is unique; (4) the solver reports exactly the complement nodes that depend on themselves; (3) and (4) under the proved-sound "
                  "Tarjan-contract certificate; (5) lifted through the model of ResolveSets: a result is the unique least solution of the generated system, an error lists exactly the generated self-dependent complements; "
                  "(6) afterErr denotes follow(error) and IsRecovering iff it is non-empty (plain grammars); (7) at the first / last keys the generated system IS the declarative one: under the proved-sound check sets_gen_ok every top-level `first s` / `last s` returned by the model of ResolveSets equals set_den (first_in / last_in over the reachable rules). "
                  "Per run: the step-by-step model of ResolveSets equals the implementation on every case, the certificate of (5) holds on every case, and the implementation's result equals "
                  "the naive stratified fixpoint of the eagerly generated declarative equation system (all five operators, union/intersection/complement, set nonterminals feeding back into "
                  "first/last/any, mutually recursive named sets), and the proved evaluation (tables + set algebra) for every closed expression over plain rules; also end to end through compiler.Compile (Grammar.Sets, afterErr, IsRecovering).",
    "level_note": "Trusted: Coq kernel, extraction, glue; ClosureSpec.spec_solve (naive solver shared with C25) is not proved; the Tarjan model is certified per case (check_scc / check_onstack, proved sound), not proved. A set nonterminal is never nullable in both model and "
                  "specification (the implementation's %empty rule for an empty set is the C13 finding).",
    "technique": "Coq proof over a Gallina model + proved specification tables + extracted-model differential correspondence + naive fixpoint oracle, incl. .tm end to end",
    "assumptions": ["models are expanded (rules are flat) as ResolveSets requires", "complements have distinct Origins (true for compiled grammars)"],
}
