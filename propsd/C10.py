PROPS["C10"] = {
    "runs": [{"cmd": "c10.charset", "quick": 5000, "thorough": 200000, "thorough_seeds": 2},
             {"cmd": "c10.patterns", "quick": 5000, "thorough": 150000, "thorough_seeds": 2}],
    "nontrivial": lambda c: c["kind"] in ("c10.parse", "c10.charset", "c10.table") and len(c["input"]) > 24,
    "rule": "every run first sends Go's unicode.SimpleFold map (c10.foldmap; orbit bound checked) and every table of unicode.Categories/Scripts/Properties "
            "(c10.table: \\p{Name} with and without folding vs the table and its fold closure); c10.charset: newCharset/invert/subtract/intersect/fold/appendRange on random "
            "range lists (universes 40, 255, 1200, 0x10FFFF), judged pointwise at every boundary neighbourhood (fold: every member and its orbit); "
            "c10.parse: three streams under the four Fold x ScanBytes combinations: (a) AST-directed documented patterns over every documented construct "
            "(literals incl. non-BMP, all escape forms with random hex case, octal, \\d\\w\\s\\D\\W\\S, \\p{..}/\\P/\\p{^..}/\\pL over all names, bracket expressions with ranges, "
            "negation, nested subtraction, '.', leading ']', trailing '-', groups, (?i)/(?-i)/(?i:..) flags, all quantifier forms, {name} references) "
            "each with its documented meaning written down by the generator; (b) patterns malformed by construction in 12 ways (non-hex digit, too few digits, "
            "code point out of range incl. values that wrap in 32 bits, bad octal, unknown class/escape, inverted range, parentheses/flags, quantifier, bracket, trailing backslash, invalid UTF-8); "
            "(c) byte-level mutants; distinct = distinct input text",
    "modelled": "lex/charset.go (newCharset, invert, subtract, intersect, fold, appendRange, appendTable, appendNamedSet) and lex/regexp.go (parser.next, parse incl. fold stack, \\Q..\\E, "
                "canAppend literal merging, reduce; parseClass; parseEscape; parseQuantifier; hexval; octval) mirrored step by step on bytes with offsets; the parser's flat stack is a list of frames and "
                "the first error stops the model; unicode tables and SimpleFold enter as data from the Go standard library",
    "partial": "'every error lies inside the pattern' is proved for parser.next only and oracle-checked for the whole parser; class_spec is proved at assembly level "
               "(parseClass returns class_den of the collected ranges/subtracted sets, and class_den has the documented semantics) and from the concrete syntax for the grammar of ClassText.v "
               "(ASCII literal characters, ranges, \\a\\f\\n\\r\\t\\v, subtracted nested sets one level deep, both negations, runes/bytes, fold on/off; a descending first range is rejected with its offsets); "
               "outside that grammar (non-ASCII literals, '.', \\d\\w\\s\\p{..}\\x..\\u.. and octal escapes inside a class, ']' in first position, deeper nesting) the scanning loop is compared with the implementation and oracle-checked; print_parse is realised as the "
               "specification evaluator (RegexSpec.v, built from the proved operations) instead of a theorem about the parser model",
    "level_text": "Universal Coq theorems for every charset operation of lex/charset.go (newCharset, invert, subtract, intersect, appendRange: exact set semantics for all range lists and all code points plus "
                  "normal-form preservation; fold: sound and extensive for every fold function, and EXACTLY the union of members and their fold orbits, in normal form, whenever the orbits of the members close within the bound (C10_fold_exact)), for the assembly of bracket expressions (C10_parse_class_is_class_den, C10_class_den_spec: members minus subtracted sets, fold-orbit closure, complement within [0,max] when negated), for the scanning loop of parseClass on every printed well-formed bracket expression of the ClassText grammar at any offset of an ASCII pattern (C10_parse_class_of_print: it consumes exactly the class and collects exactly the written ranges, as a set, and the written subtracted sets in order; C10_parse_class_rejects_descending), for hexval/octval (exactly the hexadecimal/octal digits) and for the escape accumulator "
                  "(never wraps: within unicode.MaxRune iff the exact value is). The step-by-step model of ParseRegexp is compared with lex.ParseRegexp (AST with offsets, or error id and offsets) on thousands of "
                  "documented, malformed and mutated patterns per run; independently the implementation's AST is compared at language level with the documented meaning evaluated by the proved operations, "
                  "malformed-by-construction patterns must be rejected, and every error must lie inside the pattern.",
    "level_note": "Trusted: Coq kernel, extraction, glue; hook lex/verif_hooks_regexp.go (AST dump, charset operation wrappers). Repaired in this tree: F4, F5, F5b and a bytes-mode folding crash; "
                  "three narrow known findings (see known_findings.txt).",
    "technique": "Coq proofs over a Gallina model of charset.go/regexp.go + extracted-model differential correspondence + proved specification evaluator as language-level oracle",
    "assumptions": ["unicode tables and SimpleFold are those of the Go toolchain that builds the harness", "SimpleFold orbits close within 8 steps (checked on every run)"],
}
