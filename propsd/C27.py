PROPS["C27"] = {
    "runs": [
        {"cmd": "c27.exhaustive", "quick": 4, "thorough": 6},
        {"cmd": "c27.random", "quick": 2500, "thorough": 40000, "thorough_seeds": 2},
    ],
    "nontrivial": lambda c: c["input"].count(" ") >= 3,
    "rule": "c27.exhaustive: all pairs of sequences of length <= k over 3 symbols (k=4: 14 641 pairs quick; k=6: 1.19 M thorough); c27.random: texts of 0..13 (1/6: 15..54) lines, b independent or an edited copy of a (deletions, insertions, replacements, inserted runs of up to 19 fresh lines); per pair: the lcs edit script and the rendered unified diff parsed back into hunks",
    "modelled": "util/diff/diff.go lcs, trace, middle (with the shared buffer threaded through the recursion), chunk.merge, LineDiff's hunk builder (hunk.add with elision, writeTo) in structured form; strings.Split/Sprintf are replaced by line ids (harness maps them back)",
    "partial": "minimality is certified per output against the proved LCS bound; a direct proof that Myers' middle-snake search always attains it is not done",
    "level_text": "Coq theorems: every script accepted by script_ok turns a into b; for trace/lcs with ANY middle-snake oracle the produced script is accepted (so script correctness does not depend on Myers' search); no valid script is cheaper than |a|+|b|-2*LCS (quadratic LCS proved); the faithful model (middle included) is compared chunk for chunk with diff.lcs and hunk for hunk with LineDiff, and each implementation output is checked for validity, minimal cost and hunk application.",
    "level_note": "Trusted: Coq kernel, extraction, glue (the harness parses LineDiff's text back into hunks). Runs longer than 14 lines are elided by hunk.add by design (known finding).",
    "technique": "Coq proof (script semantics, oracle-independent trace correctness, LCS lower bound) + per-output certificate + model correspondence",
    "assumptions": ["lines are compared through interned ids (as LineDiff does)"],
}
