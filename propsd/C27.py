PROPS["C27"] = {
    "runs": [
        {"cmd": "c27.exhaustive", "quick": 4, "thorough": 6},
        {"cmd": "c27.random", "quick": 2500, "thorough": 40000, "thorough_seeds": 2},
    ],
    "nontrivial": lambda c: c["input"].count(" ") >= 3,
    "rule": "c27.exhaustive: all pairs of sequences of length <= k over 3 symbols (k=4: 14 641 pairs quick; k=6: 1.19 M thorough); c27.random: texts of 0..13 (1/6: 15..54) lines, b independent or an edited copy of a (deletions, insertions, replacements, inserted runs of up to 19 fresh lines); per pair: the lcs edit script and the rendered unified diff parsed back into hunks",
    "modelled": "util/diff/diff.go lcs, trace, middle (with the shared buffer threaded through the recursion), chunk.merge, LineDiff's hunk builder (hunk.add with elision, writeTo) in structured form; strings.Split/Sprintf are replaced by line ids (harness maps them back)",
    "partial": "",
    "level_text": "Coq theorems, all pairs of sequences: every script accepted by script_ok turns a into b; whatever script the model of diff.lcs returns is accepted; no valid script is cheaper than |a|+|b|-2*LCS (L proved to be the length of a longest common subsequence; quadratic table proved equal); "
                  "and minimality of the algorithm itself (C27_script_minimal): whenever the model of lcs - prefix/suffix trimming, trace, the real Myers middle-snake search with its diagonal windows and the shared buffer threaded through the recursion, chunk merging - returns a script, its cost is exactly |a|+|b|-2*LCS(a,b). "
                  "Totality (C27_lcs_total, C27_script_minimal_total): for every pair the model of lcs does return a script - middle always finds a snake, the split it returns lies inside the grid (no slice-bounds panic), "
                  "is neither (0,0) nor (|a|,|b|) (trace's log.Fatalf is unreachable), and both sides of the split again have no common first/last element, so trace's documented precondition, established by the prefix/suffix trimming of lcs, "
                  "is an invariant of the recursion (C27_middle_split_in_grid_progress_invariant, C27_trace_total); every recursive call strictly decreases |a|+|b|, so the model's fuel suffices. "
                  "Proved from the classical invariants: furthest-reaching points per round and diagonal (greedy lemma), non-aliasing of the two buffer halves, the forward/reverse overlap test finds a middle snake of an optimal path and cannot miss one (C27_middle_snake_is_optimal). "
                  "The faithful model is compared chunk for chunk with diff.lcs and hunk for hunk with LineDiff, and each implementation output is still checked for validity, minimal cost and hunk application.",
    "level_note": "Trusted: Coq kernel, extraction, glue (the harness parses LineDiff's text back into hunks). Runs longer than 14 lines are elided by hunk.add by design (known finding).",
    "technique": "Coq proof (script semantics, LCS theory, Myers' furthest-reaching invariants for the bidirectional search, optimal-split => minimal script) + per-output certificate + model correspondence",
    "assumptions": ["lines are compared through interned ids (as LineDiff does)"],
}
