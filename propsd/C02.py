PROPS["C02"] = {
    "runs": [{"cmd": "c02.random", "quick": 50, "thorough": 500, "thorough_seeds": 3},
             {"cmd": "c02.sugar", "quick": 40, "thorough": 400, "thorough_seeds": 3}],
    "nontrivial": lambda c: len(c["input"]) > 80,
    "rule": "random conflict-free CFGs (as C01) whose rules carry a random laminar family of '-> Type' arrows (nested parenthesised parts, whole-rule arrows, arrows on empty rules, parts made of nullable nonterminals), "
            "in half of the grammars one or two rules end with a fresh nullable tail (T : 'z' | %empty), and in two grammars of three the rules carry state markers (.m0 .. .m2) at any position, "
            "also at the end of a rule and behind a nullable tail (markers occupy no stack slot and no report position: the arrows' positions and the derivation trees are those of the rule without them), "
            "rendered to event-based .tm grammars with and without fixWhitespace / optimizeTables, generated and built from /repo's tree; per grammar 14 random derivation trees per input, texts with and without random blanks between tokens; "
            "one case per grammar: the listener callbacks of the generated parser for every sample; "
            "c02.sugar: the same with optional terminals ('x'?) and mid-rule actions in the rules (state markers in the rules without actions), so that arrows become empty in some expansions and extracted action nonterminals shift the report positions; "
            "expansions are matched to the compiler's rules by shape, the specification works on the arrows as written",
    "modelled": "gen/templates/go_parser.go.tmpl: parse loop with applyRule (report ranges, rule default type), fixTrailingWS, reportRange, offsets of empty reductions (Gram/Events.v xrun). "
                "compiler/compiler.go generateTables (traverse: arrows -> reports, promotion of the last full range to the rule type) is NOT modelled: its output (per-rule Type/Report/HasTrailingNulls) is an input of the model, "
                "and the specification oracle starts from the arrows as written in the source, so a wrong translation shows up as an oracle rejection",
    "partial": "exactness theorem proved for fixWhitespace parsers; without fixWhitespace it is proved for token streams without gaps (C02_events_without_fixWhitespace_no_gaps), and in general the events are proved to be the 'loose' ones: "
               "a node ending with a (recursively) empty symbol extends to the start of the following token (C02_events_without_fixWhitespace, C02_loose_end_characterisation; the known finding, made exact). "
               "That the tree built is THE derivation (uniqueness) rests on C01 (conflict-free LALR); not proved here",
    "level_text": "Coq theorems (Props/C02.v), universal over machines, event tables, token sequences and fuel: an accepting run of the fixWhitespace parse loop builds a tree whose leaves are exactly the input tokens and emits exactly the post-order list of the arrows of that tree, "
                  "each with its node type and the byte range from the first to the last token of the annotated part (an empty part sits at the following token); at every point of every run the emitted events are those of the forest on the stack. "
                  "Without fixWhitespace: the same exactness theorem on token streams without gaps, and for every token stream the exact 'loose' ranges (first token .. end of last token, or the start of the following token exactly when the last symbol is recursively empty). "
                  "The loop model is compared callback for callback with generated parsers, and every callback sequence is judged by the specification evaluated on the generator's own derivation tree and the arrows as written in the grammar source.",
    "level_note": "Trusted: Coq kernel, extraction, glue. The theorem's well-formedness hypothesis is evaluated (proved-sound boolean wf_treeb) on every accepted sample. Sentences only (no error events: C19/C20).",
    "technique": "Coq proof over the event-emitting loop model + extracted-model differential correspondence with generated parsers + specification oracle on the generator's derivation tree",
    "assumptions": ["tokens are non-empty and ordered by offset", "sentences of the language (the property is about inputs in the language)"],
}
