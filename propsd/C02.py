PROPS["C02"] = {
    "runs": [{"cmd": "c02.random", "quick": 50, "thorough": 500, "thorough_seeds": 3}],
    "nontrivial": lambda c: len(c["input"]) > 80,
    "rule": "TODO", "modelled": "TODO", "partial": "", "level_text": "TODO", "level_note": "TODO",
    "technique": "Coq proof over the event model + extracted-model differential correspondence with generated parsers + specification oracle on the generator's derivation tree",
    "assumptions": [],
}
