PROPS["C25"] = {
    "runs": [
        {"cmd": "c25.op", "quick": 6000, "thorough": 100000, "thorough_seeds": 3},
        {"cmd": "c25.closure", "quick": 3000, "thorough": 40000, "thorough_seeds": 3},
    ],
    "nontrivial": lambda c: c["input"].count(" ") >= 6,
    "rule": "c25.op: random pairs of sorted finite/co-finite sets over universes of 3..16 ints, random reuse buffer; "
            "c25.closure: random equation systems of 2..7 nodes (union/intersection/complement, DAG and cyclic) built through the public API; "
            "distinct = distinct input text; non-trivial = at least 6 tokens",
    "modelled": "util/container/intset.go (Merge, Intersect, Complement, Equals, combine/intersect/subtract), "
                "util/set/closure.go (Compute, closure, slowClosure) and util/graph/tarjan.go mirrored step by step; "
                "the interner and buffer reuse are abstracted away (pure values)",
    "partial": "set algebra: universal theorems. closure: model + correspondence + naive-fixpoint oracle (theorems about closure are in Props/C25.v as listed)",
    "level_text": "Universal Coq theorems: Merge/Intersect/Complement/Equals of the sorted-list representation denote union/intersection/complement/equality over the infinite universe Z and keep the representation sorted. The closure solver (Tarjan order, union and slow paths) is modelled step by step and compared with util/set on thousands of generated systems per run, each also judged by an independent naive stratified-fixpoint oracle.",
    "level_note": "Trusted: Coq kernel, extraction (ExtrOcamlBasic), OCaml/Go/Python glue. The model is hand-written; buffer reuse and interning are abstracted (which is exactly how the aliasing defect fixed in 24d11eb surfaced as a correspondence break). Systems with < 2 nodes are outside scope (Tarjan returns early).",
    "technique": "Coq proof over a Gallina model + extracted-model differential correspondence",
    "assumptions": ["systems are built through the public API (complements have exactly one operand; >= 2 nodes: Tarjan returns early below that)"],
}
