// Package sx holds the case-line writer and the S-expression helpers shared by all harness commands.
package sx

import (
	"bufio"
	"fmt"
	"os"
	"strconv"
	"strings"
)

var out = bufio.NewWriterSize(os.Stdout, 1<<20)
var counter int

// Case writes one case line: id \t kind \t input \t impl_out
func Case(kind, input, output string) {
	counter++
	fmt.Fprintf(out, "%d\t%s\t%s\t%s\n", counter, kind, input, output)
}

func Flush() { out.Flush() }

func Ints(xs []int) string {
	var b strings.Builder
	b.WriteByte('(')
	for i, x := range xs {
		if i > 0 {
			b.WriteByte(' ')
		}
		b.WriteString(strconv.Itoa(x))
	}
	b.WriteByte(')')
	return b.String()
}

func Bools(xs []bool) string {
	ys := make([]int, len(xs))
	for i, x := range xs {
		if x {
			ys[i] = 1
		}
	}
	return Ints(ys)
}

func Bytes(s []byte) string {
	ys := make([]int, len(s))
	for i, x := range s {
		ys[i] = int(x)
	}
	return Ints(ys)
}

func Str(s string) string { return Bytes([]byte(s)) }

func Runes(rs []rune) string {
	ys := make([]int, len(rs))
	for i, x := range rs {
		ys[i] = int(x)
	}
	return Ints(ys)
}

func IntLists(xs [][]int) string {
	parts := make([]string, len(xs))
	for i, x := range xs {
		parts[i] = Ints(x)
	}
	return List(parts...)
}

func List(parts ...string) string { return "(" + strings.Join(parts, " ") + ")" }

func Bool(b bool) string {
	if b {
		return "1"
	}
	return "0"
}

func Int(i int) string { return strconv.Itoa(i) }

// Stat writes a generator-statistics line ("#key value") through the same buffered writer.
func Stat(key string, value int) {
	fmt.Fprintf(out, "#%s %d\n", key, value)
}
