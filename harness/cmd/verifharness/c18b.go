package main

// C18, second part: correspondence for the sites modelled in Gen/PermInv2.v.
//   c18.toposort  syntax.topoSort (hook VerifTopoSort) on random graphs (DAGs and cyclic) and identities
//   c18.imports   gen.ExtractGoImports on a source mentioning random qualified names; the import block
//   c18.comments  compiler.Compile: Syms[tok].Comment of terminals with 1..3 lexer rules each

import (
	"context"
	"fmt"
	"math/rand"
	"strings"

	"github.com/inspirer/textmapper/compiler"
	"github.com/inspirer/textmapper/gen"
	"github.com/inspirer/textmapper/syntax"
	"verif/harness/sx"
)

func init() {
	commands["c18.toposort"] = c18TopoSort
	commands["c18.imports"] = c18Imports
	commands["c18.comments"] = c18Comments
}

func c18TopoSort(rng *rand.Rand, n int, _ []string) {
	stats := map[string]int{}
	for c := 0; c < n; c++ {
		k := rng.Intn(9)
		perm := rng.Perm(k)
		ids := make([]string, k)
		for i := range ids {
			ids[i] = fmt.Sprintf("%c%d", 'a'+rune(rng.Intn(4)), perm[i]) // distinct
		}
		g := make([][]int, k)
		dag := rng.Intn(3) != 0
		for i := 0; i < k; i++ {
			for j := 0; j < rng.Intn(3); j++ {
				var e int
				if dag {
					if i == 0 {
						continue
					}
					e = rng.Intn(i) // edges to smaller indices only
					if rng.Intn(2) == 0 {
						e = perm[e] % (i) // vary
					}
				} else {
					e = rng.Intn(k)
				}
				g[i] = append(g[i], e)
			}
		}
		if dag {
			stats["dag"]++
		} else {
			stats["any_graph"]++
		}
		var gs []string
		for _, es := range g {
			gs = append(gs, sx.Ints(es))
		}
		var idl, outl []string
		for _, id := range ids {
			idl = append(idl, sx.Str(id))
		}
		gcopy := make([][]int, k)
		for i := range g {
			gcopy[i] = append([]int(nil), g[i]...)
		}
		out := syntax.VerifTopoSort(ids, gcopy)
		for _, id := range out {
			outl = append(outl, sx.Str(id))
		}
		sx.Case("c18.toposort", sx.List(sx.Bool(dag), sx.List(idl...), sx.List(gs...)), sx.List(outl...))
	}
	for k, v := range stats {
		sx.Stat(k, v)
	}
}

var c18Pkgs = []string{"fmt", "strings", "unicode/utf8", "encoding/json", "go/ast", "sort", "github.com/x/y", "github.com/x/z-w", "example.com/a/b", "a.b/c", "context", "golang.org/x/tools/go", "k8s.io/api", "io"}

func c18Imports(rng *rand.Rand, n int, _ []string) {
	for c := 0; c < n; c++ {
		k := 1 + rng.Intn(7)
		var sb strings.Builder
		sb.WriteString("package p\n\nfunc f() {\n")
		var used []string
		for i := 0; i < k; i++ {
			p := c18Pkgs[rng.Intn(len(c18Pkgs))]
			used = append(used, p)
			as := ""
			if rng.Intn(5) == 0 {
				as = fmt.Sprintf(" as al%d", rng.Intn(3))
			}
			fmt.Fprintf(&sb, "\t_ = \"%s%s\".X%d\n", p, as, i)
		}
		sb.WriteString("}\n")
		out := gen.ExtractGoImports(sb.String())
		// the import block: quoted paths in order
		var paths []string
		if i := strings.Index(out, "import ("); i >= 0 {
			blk := out[i:]
			blk = blk[:strings.Index(blk, ")")]
			for _, ln := range strings.Split(blk, "\n") {
				if a := strings.IndexByte(ln, '"'); a >= 0 {
					b := strings.LastIndexByte(ln, '"')
					paths = append(paths, sx.Str(ln[a+1:b]))
				}
			}
		}
		var in []string
		for _, p := range used {
			in = append(in, sx.Str(p))
		}
		sx.Case("c18.imports", sx.List(in...), sx.List(paths...))
	}
}

func c18Comments(rng *rand.Rand, n int, _ []string) {
	consts := []string{"a", "ab", "if", "+", "x"}
	pats := map[string]string{"a": "a", "ab": "ab", "if": "if", "+": `\+`, "x": "[x]"}
	stats := map[string]int{}
	for c := 0; c < n; c++ {
		nt := 1 + rng.Intn(4)
		var sb strings.Builder
		sb.WriteString("language g(go);\n:: lexer\n")
		type rule struct {
			tok   int
			val   string
			isCon bool
		}
		var rules []rule
		// rules in a random interleaving of the tokens
		cnt := make([]int, nt)
		total := 0
		for i := range cnt {
			cnt[i] = 1 + rng.Intn(3)
			total += cnt[i]
		}
		usedPat := map[string]bool{}
		for total > 0 {
			t := rng.Intn(nt)
			if cnt[t] == 0 {
				continue
			}
			cnt[t]--
			total--
			var pat, val string
			con := rng.Intn(4) != 0
			for tries := 0; ; tries++ {
				if con {
					val = consts[rng.Intn(len(consts))]
					if rng.Intn(3) == 0 {
						val += fmt.Sprint(rng.Intn(3))
					}
					pat = pats[val[:1]]
					if p, ok := pats[strings.TrimRight(val, "012")]; ok {
						pat = p + val[len(strings.TrimRight(val, "012")):]
					}
				} else {
					val = ""
					pat = fmt.Sprintf("[q-z]+%c", 'A'+rune(rng.Intn(26)))
				}
				if !usedPat[pat] || tries > 20 {
					break
				}
			}
			if usedPat[pat] {
				continue // no two rules with the same pattern: that is a lexer conflict
			}
			usedPat[pat] = true
			fmt.Fprintf(&sb, "T%d: /%s/\n", t, pat)
			rules = append(rules, rule{t, val, con})
		}
		sb.WriteString(":: parser\ninput :")
		for t := 0; t < nt; t++ {
			fmt.Fprintf(&sb, " T%d?", t)
		}
		sb.WriteString(" ;\n")
		res, err := compiler.Compile(context.Background(), "g.tm", sb.String(), compiler.Params{CheckOnly: true})
		if err != nil || res == nil {
			stats["compile_failed"]++
			continue
		}
		var in, out []string
		for _, r := range rules {
			in = append(in, sx.List(sx.Int(r.tok), sx.Str(r.val)))
		}
		for t := 0; t < nt; t++ {
			for _, s := range res.Syms {
				if s.ID == fmt.Sprintf("T%d", t) {
					out = append(out, sx.List(sx.Int(t), sx.Str(s.Comment)))
				}
			}
		}
		sx.Case("c18.comments", sx.List(in...), sx.List(out...))
	}
	for k, v := range stats {
		sx.Stat(k, v)
	}
}
