package main

import (
	"bytes"
	"context"
	"encoding/hex"
	"fmt"
	"os"
	"os/exec"
	"path/filepath"
	"strings"
	"time"

	"github.com/inspirer/textmapper/compiler"
	"github.com/inspirer/textmapper/gen"
	"github.com/inspirer/textmapper/grammar"
)

// genPkg is one grammar to be compiled by the current /repo tree and generated into a scratch module.
type genPkg struct {
	name   string // package name, e.g. g17
	tm     string // grammar text
	driver func(p *genPkg) string // Go source of a file added to the generated package (VerifRun)

	g     *grammar.Grammar
	err   error // compile or generate error
	files map[string]string
}

type memWriter struct{ files map[string]string }

func (w *memWriter) Write(filename, content string) error {
	w.files[filename] = content
	return nil
}

// compileAll compiles and generates every package in-process (current /repo code).
func compileAll(pkgs []*genPkg) {
	for _, p := range pkgs {
		g, err := compiler.Compile(context.Background(), p.name+".tm", p.tm, compiler.Params{})
		if err != nil {
			p.err = err
			continue
		}
		p.g = g
		w := &memWriter{files: map[string]string{}}
		if err := gen.Generate(g, w, gen.Options{}); err != nil {
			p.err = fmt.Errorf("generate: %v", err)
			continue
		}
		p.files = w.files
	}
}

type genRequest struct {
	pkg   string
	mode  string
	input []byte
}

// buildAndRun writes the generated packages (those without errors) plus their drivers into a scratch module
// outside /repo and /verif, builds one binary and answers all requests. The scratch directory is removed
// before returning. Responses are aligned with requests; a package that failed to build yields "nobuild".
func buildAndRun(pkgs []*genPkg, reqs []genRequest) ([]string, error) {
	dir, err := os.MkdirTemp("", "verifgen-")
	if err != nil {
		return nil, err
	}
	defer os.RemoveAll(dir)

	write := func(rel, content string) error {
		full := filepath.Join(dir, rel)
		if err := os.MkdirAll(filepath.Dir(full), 0o755); err != nil {
			return err
		}
		return os.WriteFile(full, []byte(content), 0o644)
	}
	if err := write("go.mod", "module verifgen\n\ngo 1.23\n"); err != nil {
		return nil, err
	}
	var imports, table strings.Builder
	ok := map[string]bool{}
	for _, p := range pkgs {
		if p.err != nil || p.files == nil {
			continue
		}
		for name, content := range p.files {
			if err := write(filepath.Join(p.name, name), content); err != nil {
				return nil, err
			}
		}
		if err := write(filepath.Join(p.name, "verif_driver.go"), p.driver(p)); err != nil {
			return nil, err
		}
		ok[p.name] = true
		fmt.Fprintf(&imports, "\t%s \"verifgen/%s\"\n", p.name, p.name)
		fmt.Fprintf(&table, "\t%q: %s.VerifRun,\n", p.name, p.name)
	}
	main := `package main

import (
	"bufio"
	"encoding/hex"
	"fmt"
	"os"
	"strings"
	"time"

` + imports.String() + `)

var table = map[string]func(mode string, input []byte) string{
` + table.String() + `}

func call(f func(string, []byte) string, mode string, data []byte) string {
	ch := make(chan string, 1)
	go func() {
		defer func() {
			if r := recover(); r != nil {
				ch <- fmt.Sprintf("panic %v", r)
			}
		}()
		ch <- f(mode, data)
	}()
	select {
	case s := <-ch:
		return s
	case <-time.After(3 * time.Second):
		return "timeout"
	}
}

func main() {
	rd := bufio.NewReaderSize(os.Stdin, 1<<20)
	w := bufio.NewWriter(os.Stdout)
	defer w.Flush()
	for {
		line, err := rd.ReadString('\n')
		if line == "" && err != nil {
			break
		}
		parts := strings.Split(strings.TrimSuffix(line, "\n"), "\t")
		if len(parts) != 3 {
			continue
		}
		f := table[parts[0]]
		if f == nil {
			fmt.Fprintln(w, "nobuild")
			continue
		}
		data, _ := hex.DecodeString(parts[2])
		fmt.Fprintln(w, strings.ReplaceAll(call(f, parts[1], data), "\n", " "))
	}
}
`
	if err := write("main.go", main); err != nil {
		return nil, err
	}
	build := exec.Command("go", "build", "-o", "run", ".")
	build.Dir = dir
	build.Env = append(os.Environ(), "GOFLAGS=-mod=mod", "GOPROXY=off", "GOTOOLCHAIN=local")
	if out, err := build.CombinedOutput(); err != nil {
		// find the packages that do not build and retry without them
		bad := map[string]bool{}
		for _, ln := range strings.Split(string(out), "\n") {
			for name := range ok {
				if strings.Contains(ln, name+"/") || strings.Contains(ln, "verifgen/"+name) {
					bad[name] = true
				}
			}
		}
		if len(bad) == 0 {
			return nil, fmt.Errorf("scratch build failed: %v\n%s", err, out)
		}
		var rest []*genPkg
		for _, p := range pkgs {
			if bad[p.name] {
				p.err = fmt.Errorf("generated package does not build: %s", firstLines(string(out), 6))
				continue
			}
			rest = append(rest, p)
		}
		return buildAndRun(rest, reqs)
	}
	var in bytes.Buffer
	for _, r := range reqs {
		fmt.Fprintf(&in, "%s\t%s\t%s\n", r.pkg, r.mode, hex.EncodeToString(r.input))
	}
	ctx, cancel := context.WithTimeout(context.Background(), 20*time.Minute)
	defer cancel()
	run := exec.CommandContext(ctx, filepath.Join(dir, "run"))
	run.Stdin = &in
	out, err := run.Output()
	lines := strings.Split(strings.TrimSuffix(string(out), "\n"), "\n")
	if err != nil && len(lines) < len(reqs) {
		return nil, fmt.Errorf("scratch run failed after %d of %d answers: %v", len(lines), len(reqs), err)
	}
	for len(lines) < len(reqs) {
		lines = append(lines, "noanswer")
	}
	return lines, nil
}

func firstLines(s string, n int) string {
	ls := strings.Split(s, "\n")
	if len(ls) > n {
		ls = ls[:n]
	}
	return strings.Join(ls, " | ")
}
