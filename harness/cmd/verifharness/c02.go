package main

import (
	"fmt"
	"math/rand"
	"strings"

	"github.com/inspirer/textmapper/lalr"
	"verif/harness/sx"
)

func init() {
	commands["c02.random"] = c02Random
}

// arrow is a '-> Type' annotation over positions [start, end) of a rule's right-hand side.
type arrow struct {
	start, end int
	typ        int // index into type names
}

// dtree is a derivation tree: rule >= 0 with children, or a terminal leaf (rule == -1).
type dtree struct {
	rule     int
	sym      int
	children []*dtree
}

func (g *cfg) randomTree(rng *rand.Rand, sym int, prod []bool, budget *int) *dtree {
	if sym < g.nterms {
		return &dtree{rule: -1, sym: sym}
	}
	var cands []int
	for i, r := range g.rules {
		if r.lhs != sym {
			continue
		}
		ok := true
		for _, s := range r.rhs {
			if !prod[s] {
				ok = false
			}
		}
		if ok {
			cands = append(cands, i)
		}
	}
	if len(cands) == 0 {
		return nil
	}
	*budget--
	ri := cands[rng.Intn(len(cands))]
	if *budget < 0 {
		best, bestN := cands[0], 1<<30
		for _, c := range cands {
			n := 0
			for _, s := range g.rules[c].rhs {
				if s >= g.nterms {
					n++
				}
			}
			if n < bestN {
				best, bestN = c, n
			}
		}
		ri = best
		if *budget < -200 {
			return nil
		}
	}
	t := &dtree{rule: ri, sym: sym}
	for _, s := range g.rules[ri].rhs {
		c := g.randomTree(rng, s, prod, budget)
		if c == nil {
			return nil
		}
		t.children = append(t.children, c)
	}
	return t
}

func (t *dtree) yield(out []int) []int {
	if t.rule < 0 {
		return append(out, t.sym)
	}
	for _, c := range t.children {
		out = c.yield(out)
	}
	return out
}

// str serialises the tree with token offsets: (l sym off end) | (n rule children...)
func (t *dtree) str(offs [][2]int, next *int, symOf func(int) int) string {
	if t.rule < 0 {
		o := offs[*next]
		*next++
		return sx.List("l", sx.Int(symOf(t.sym)), sx.Int(o[0]), sx.Int(o[1]))
	}
	parts := []string{"n", sx.Int(t.rule)}
	for _, c := range t.children {
		parts = append(parts, c.str(offs, next, symOf))
	}
	return sx.List(parts...)
}

// genArrows: a random laminar family of ranges over n positions, inner ranges first (post-order),
// optionally closed by the arrow of the whole rule.
func genArrows(rng *rand.Rand, n int, ntypes int) []arrow {
	var out []arrow
	var rec func(lo, hi, depth int)
	rec = func(lo, hi, depth int) {
		// pick disjoint sub-ranges of [lo, hi) from left to right
		p := lo
		for p < hi {
			if rng.Intn(3) != 0 || depth > 2 {
				p++
				continue
			}
			e := p + 1 + rng.Intn(hi-p)
			if e-p == hi-lo && depth > 0 {
				p++
				continue // same range as the parent: keep the family strict
			}
			rec(p, e, depth+1)
			out = append(out, arrow{p, e, rng.Intn(ntypes)})
			p = e
		}
	}
	if n > 0 {
		rec(0, n, 1)
	}
	if rng.Intn(3) != 0 {
		out = append(out, arrow{0, n, rng.Intn(ntypes)})
	}
	return out
}

// ruleText renders the right-hand side of rule r with its arrows in tm syntax.
func (g *cfg) ruleText(r cfgRule, arrows []arrow, typeName func(int) string) string {
	return g.ruleTextM(r, arrows, typeName, nil)
}

// genMarks: state markers (.m0 .. .m2) for a rule of n symbols: marks[i] are written in front of symbol i,
// marks[n] at the end of the rule (more often, and even more often behind a symbol that can be empty).
// Markers occupy no stack slot and no report position.
func genMarks(rng *rand.Rand, n int, lastNullable bool) [][]int {
	marks := make([][]int, n+2)
	for k := 0; k <= n; k++ {
		p := 8
		if k == n {
			p = 4
			if lastNullable {
				p = 2
			}
		}
		if rng.Intn(p) == 0 {
			marks[k] = append(marks[k], rng.Intn(3))
		}
	}
	if rng.Intn(2) == 0 {
		marks[n+1] = []int{1} // flag: end markers inside the parentheses of the arrows that end there
	}
	return marks
}

// ruleTextM: ruleText with state markers (see genMarks; nil = none).
func (g *cfg) ruleTextM(r cfgRule, arrows []arrow, typeName func(int) string, marks [][]int) string {
	n := len(r.rhs)
	mark := func(sb *strings.Builder, i int) {
		if marks == nil {
			return
		}
		for _, m := range marks[i] {
			fmt.Fprintf(sb, ".m%d ", m)
		}
	}
	endIn := marks != nil && len(marks[n+1]) > 0 && n > 0
	open := make([][]int, n+1)  // arrows opening before position i (outer first)
	close := make([][]int, n+1) // arrows closing after position i-1 (inner first)
	var whole []int
	for k, a := range arrows {
		if a.start == 0 && a.end == n {
			whole = append(whole, k)
			continue
		}
		open[a.start] = append([]int{k}, open[a.start]...) // later arrows are outer
		close[a.end] = append(close[a.end], k)
	}
	var sb strings.Builder
	for i := 0; i <= n; i++ {
		if i == n && endIn {
			mark(&sb, n)
		}
		for _, k := range close[i] {
			fmt.Fprintf(&sb, "-> %s ) ", typeName(arrows[k].typ))
		}
		if i == n {
			break
		}
		for range open[i] {
			sb.WriteString("( ")
		}
		mark(&sb, i)
		s := r.rhs[i]
		if s < g.nterms {
			fmt.Fprintf(&sb, "'%c' ", g.termChar(s))
		} else {
			sb.WriteString(g.symName(s) + " ")
		}
	}
	if n == 0 {
		sb.WriteString("%empty ")
	}
	if !endIn {
		mark(&sb, n)
	}
	for _, k := range whole {
		fmt.Fprintf(&sb, "-> %s ", typeName(arrows[k].typ))
	}
	return sb.String()
}

func (g *cfg) toTMArrows(name string, o tmOpts, arrows [][]arrow, typeName func(int) string) string {
	return g.toTMArrowsM(name, o, arrows, typeName, nil)
}

// toTMArrowsM: toTMArrows with state markers per rule (nil = none).
func (g *cfg) toTMArrowsM(name string, o tmOpts, arrows [][]arrow, typeName func(int) string, marks [][][]int) string {
	var sb strings.Builder
	fmt.Fprintf(&sb, "language %s(go);\n\nlang = %q\npackage = \"verifgen/%s\"\neventBased = true\n", name, name, name)
	if o.optimize {
		sb.WriteString("optimizeTables = true\n")
	}
	if o.defaultReduce {
		sb.WriteString("defaultReduce = true\n")
	}
	for _, l := range o.extra {
		sb.WriteString(l + "\n")
	}
	sb.WriteString("\n:: lexer\n\n")
	for t := 1; t < g.nterms; t++ {
		fmt.Fprintf(&sb, "'%c': /%c/\n", g.termChar(t), g.termChar(t))
	}
	sb.WriteString("whitespace: /[ ]+/ (space)\ninvalid_token:\n\n:: parser\n\n%input ")
	for i, in := range g.inputs {
		if i > 0 {
			sb.WriteString(", ")
		}
		sb.WriteString(g.symName(in.nt))
		if !in.eoi {
			sb.WriteString(" no-eoi")
		}
	}
	sb.WriteString(";\n\n")
	for nt := 0; nt < g.nnonterms; nt++ {
		first := true
		for i, r := range g.rules {
			if r.lhs != g.nterms+nt {
				continue
			}
			if first {
				fmt.Fprintf(&sb, "%s :\n    ", g.symName(r.lhs))
				first = false
			} else {
				sb.WriteString("\n  | ")
			}
			if marks != nil {
				sb.WriteString(g.ruleTextM(r, arrows[i], typeName, marks[i]))
			} else {
				sb.WriteString(g.ruleText(r, arrows[i], typeName))
			}
		}
		if !first {
			sb.WriteString("\n;\n\n")
		}
	}
	return sb.String()
}

// withNullableTail: a copy of g with a fresh terminal z and a fresh nonterminal T : z | %empty, appended as the last
// symbol to one or two rules (a tail that can be empty; the fresh terminal keeps the grammar conflict-free).
func (g *cfg) withNullableTail(rng *rand.Rand) *cfg {
	sh := func(s int) int {
		if s >= g.nterms {
			return s + 1
		}
		return s
	}
	ng := &cfg{nterms: g.nterms + 1, nnonterms: g.nnonterms + 1}
	z, tail := g.nterms, g.nterms+1+g.nnonterms
	var cands []int
	for i, r := range g.rules {
		nr := cfgRule{lhs: sh(r.lhs)}
		for _, s := range r.rhs {
			nr.rhs = append(nr.rhs, sh(s))
		}
		ng.rules = append(ng.rules, nr)
		if len(r.rhs) > 0 && len(r.rhs) < 5 {
			cands = append(cands, i)
		}
	}
	for _, in := range g.inputs {
		ng.inputs = append(ng.inputs, cfgInput{nt: sh(in.nt), eoi: in.eoi})
	}
	if len(cands) == 0 {
		return g
	}
	for k := 1 + rng.Intn(2); k > 0; k-- {
		i := cands[rng.Intn(len(cands))]
		if n := len(ng.rules[i].rhs); ng.rules[i].rhs[n-1] != tail {
			ng.rules[i].rhs = append(ng.rules[i].rhs, tail)
		}
	}
	if rng.Intn(2) == 0 {
		ng.rules = append(ng.rules, cfgRule{lhs: tail, rhs: []int{z}}, cfgRule{lhs: tail})
	} else {
		ng.rules = append(ng.rules, cfgRule{lhs: tail}, cfgRule{lhs: tail, rhs: []int{z}})
	}
	return ng
}

// nullableSyms: which symbols derive the empty string.
func (g *cfg) nullableSyms() []bool {
	nl := make([]bool, g.nterms+g.nnonterms)
	for changed := true; changed; {
		changed = false
		for _, r := range g.rules {
			if nl[r.lhs] {
				continue
			}
			all := true
			for _, s := range r.rhs {
				all = all && nl[s]
			}
			if all {
				nl[r.lhs] = true
				changed = true
			}
		}
	}
	return nl
}

func c02Random(rng *rand.Rand, n int, args []string) {
	typeName := func(i int) string { return fmt.Sprintf("T%02d", i) }
	const ntypes = 6
	var pkgs []*genPkg
	var grammars []*cfg
	var arrowsOf [][][]arrow
	var fixws, hasMarks []bool
	tried := 0
	for len(pkgs) < n && tried < 40*n {
		tried++
		k := defaultKnobs
		k.maxTerms = 3
		k.maxNonterms = 4
		k.noEoi = false
		g := genCFG(rng, k).reduced()
		if g == nil || len(g.rules) == 0 {
			continue
		}
		if rng.Intn(2) == 0 {
			g = g.withNullableTail(rng)
		}
		t, err := lalr.Compile(g.toLalr(), lalr.Options{})
		if err != nil || t == nil || t.SR+t.RR > 0 {
			continue
		}
		ar := make([][]arrow, len(g.rules))
		for i, r := range g.rules {
			ar[i] = genArrows(rng, len(r.rhs), ntypes)
			// an empty range at the end of a rule cannot be reported (the compiler rejects it)
			var keep []arrow
			for _, a := range ar[i] {
				if a.start == a.end && a.start == len(r.rhs) && len(r.rhs) > 0 {
					continue
				}
				keep = append(keep, a)
			}
			ar[i] = keep
		}
		o := tmOpts{optimize: rng.Intn(2) == 0}
		fw := rng.Intn(2) == 0
		if fw {
			o.extra = append(o.extra, "fixWhitespace = true")
		}
		// state markers in two grammars of three: at any position, also at the end of a rule and behind nullable symbols
		var marks [][][]int
		if rng.Intn(3) != 0 {
			nullable := g.nullableSyms()
			marks = make([][][]int, len(g.rules))
			for i, r := range g.rules {
				marks[i] = genMarks(rng, len(r.rhs), len(r.rhs) > 0 && nullable[r.rhs[len(r.rhs)-1]])
			}
		}
		name := fmt.Sprintf("e%04d", len(pkgs))
		pkgs = append(pkgs, &genPkg{name: name, tm: g.toTMArrowsM(name, o, ar, typeName, marks), driver: plainDriver(g)})
		hasMarks = append(hasMarks, marks != nil)
		grammars = append(grammars, g)
		arrowsOf = append(arrowsOf, ar)
		fixws = append(fixws, fw)
	}
	compileAll(pkgs)
	type sample struct {
		text  []byte
		toks  []int
		offs  [][2]int
		tree  *dtree
		input int
	}
	var reqs []genRequest
	samples := make([][]sample, len(pkgs))
	for i, p := range pkgs {
		if p.err != nil {
			continue
		}
		g := grammars[i]
		prod := g.productive()
		for idx, in := range g.inputs {
			for s := 0; s < 14; s++ {
				budget := 1 + rng.Intn(10)
				tr := g.randomTree(rng, in.nt, prod, &budget)
				if tr == nil {
					continue
				}
				toks := tr.yield(nil)
				if len(toks) > 30 {
					continue
				}
				var text []byte
				var offs [][2]int
				spaces := rng.Intn(2) == 0
				for _, t := range toks {
					if spaces && rng.Intn(3) == 0 {
						text = append(text, strings.Repeat(" ", 1+rng.Intn(2))...)
					}
					offs = append(offs, [2]int{len(text), len(text) + 1})
					text = append(text, g.termChar(t))
				}
				if spaces && rng.Intn(3) == 0 {
					text = append(text, ' ')
				}
				samples[i] = append(samples[i], sample{text: text, toks: toks, offs: offs, tree: tr, input: idx})
				reqs = append(reqs, genRequest{pkg: p.name, mode: fmt.Sprintf("%de", idx), input: text})
			}
		}
	}
	answers, err := buildAndRun(pkgs, reqs)
	if err != nil {
		fmt.Fprintln(os_stderr(), "c02:", err)
		exitCode(3)
	}
	ai := 0
	for i, p := range pkgs {
		if p.err != nil {
			sx.Case("c02.nocompile", sx.List(sx.Str(p.tm), sx.Str(firstLines(p.err.Error(), 3))), "failed")
			continue
		}
		g := grammars[i]
		gp := p.g.Parser
		if len(gp.Rules) != len(g.rules) {
			sx.Case("c02.nocompile", sx.List(sx.Str(p.tm), sx.Str("rule count differs")), "failed")
			ai += len(samples[i])
			continue
		}
		tmap := make([]int, g.nterms)
		for t := 1; t < g.nterms; t++ {
			for _, sym := range p.g.Syms {
				if sym.Name == fmt.Sprintf("'%c'", g.termChar(t)) {
					tmap[t] = sym.Index
				}
			}
		}
		// node type ids as the generated listener declares them
		typeID := map[string]int{}
		if gp.Types != nil {
			for k, rt := range gp.Types.RangeTypes {
				typeID[rt.Name] = k + 1
			}
		}
		// what the compiler left per rule
		evs := make([]string, len(gp.Rules))
		for k, r := range gp.Rules {
			ty := 0
			if r.Type >= 0 {
				ty = typeID[gp.Types.RangeTypes[r.Type].Name]
			}
			var reps []string
			if r.Action > 0 {
				for _, rep := range gp.Actions[r.Action].Report {
					reps = append(reps, sx.List(sx.Int(rep.Start), sx.Int(rep.End), sx.Int(typeID[gp.Types.RangeTypes[rep.Type].Name])))
				}
			}
			evs[k] = sx.List(sx.Int(ty), sx.List(reps...), sx.Bool(p.g.HasTrailingNulls(*r)))
		}
		// the arrows as written in the source
		ars := make([]string, len(g.rules))
		for k := range g.rules {
			var as []string
			for _, a := range arrowsOf[i][k] {
				as = append(as, sx.List(sx.Int(a.start), sx.Int(a.end), sx.Int(typeID[typeName(a.typ)])))
			}
			ars[k] = sx.List(as...)
		}
		var ins, outs []string
		for _, s := range samples[i] {
			next := 0
			tree := s.tree.str(s.offs, &next, func(t int) int { return tmap[t] })
			toks := make([]string, len(s.toks))
			for j, t := range s.toks {
				toks[j] = sx.List(sx.Int(tmap[t]), sx.Int(s.offs[j][0]), sx.Int(s.offs[j][1]))
			}
			ins = append(ins, sx.List(sx.Int(s.input), sx.Int(len(s.text)), sx.List(toks...), tree))
			outs = append(outs, answers[ai])
			ai++
		}
		in := sx.List(tmGrammarStr(p.g), tablesOf(gp.Tables), sx.List(evs...), sx.List(ars...), sx.Bool(fixws[i]), sx.List(ins...))
		sx.Case("c02.events", in, sx.List(outs...))
		sx.Stat(fmt.Sprintf("fixws_%v", fixws[i]), 1)
		for _, r := range gp.Rules {
			for k := len(r.RHS) - 1; k >= 0; k-- {
				if !r.RHS[k].IsStateMarker() {
					if p.g.Syms[r.RHS[k]].CanBeNull {
						sx.Stat("rules_with_nullable_tail", 1)
					}
					break
				}
			}
		}
		if hasMarks[i] {
			sx.Stat("with_state_markers", 1)
			for _, r := range gp.Rules {
				if k := len(r.RHS); k > 1 && r.RHS[k-1].IsStateMarker() && !r.RHS[k-2].IsStateMarker() && p.g.Syms[r.RHS[k-2]].CanBeNull {
					sx.Stat("rules_with_marker_behind_nullable_tail", 1)
				}
			}
		}
	}
	sx.Stat("grammars_tried", tried)
}
