package main

import (
	"context"

	"fmt"
	"github.com/inspirer/textmapper/compiler"
	"math/rand"
	"regexp"
	"sort"
	"strings"

	"github.com/inspirer/textmapper/status"
	"github.com/inspirer/textmapper/syntax"
	"verif/harness/sx"
)

// c08.gen: end-to-end correspondence for runtime lookaheads. Random .tm grammars with conflict points
//
//	stmt : 'k' (?= P0 & !P1) body -> K0 | 'k' (?= !P0) body -> K1 | ...
//
// are compiled by the current tree, generated into Go packages and run on inputs realising every reachable
// combination of predicate outcomes. The predicates are decidable by prefix matching on the next tokens.
func init() {
	commands["c08.gen"] = c08Gen
}

// token codes used in case lines: alphabet 0..ntok-1, -1 = any alphabet token (only inside predicate
// sequences), 100 = ';', 200+p = the key token of conflict point p.
const c08Semi = 100
const c08Any = -1

func c08Key(p int) int { return 200 + p }

var c08KeyChars = []byte{'k', 'm', 'n'}

type c08Lit struct {
	pred int
	neg  bool
}

// c08Side is one group of alternatives of a predicate nonterminal: (?= guard) seq | (?= guard) seq ...; an empty
// guard means plain alternatives. A predicate with guards has two or more sides whose guards form an
// exclusive and exhaustive decision list (a nested lookahead).
type c08Side struct {
	guard []c08Lit
	seqs  [][]int
}

type c08Pred struct {
	sides []c08Side
}

func plainPred(seqs [][]int) c08Pred { return c08Pred{sides: []c08Side{{seqs: seqs}}} }

type c08Alt struct {
	lits  []c08Lit
	first []int // tokens the body may start with; nil = the whole alphabet
	shape int
}

type c08Gram struct {
	name                                        string
	ntok                                        int
	preds                                       []c08Pred
	points                                      [][]c08Alt
	cancellable, cancFetch, recursive, optimize bool
	rightList                                   bool
	corrupted, restricted, nested, reused       bool
}

func litsName(lits []c08Lit) string {
	var sb strings.Builder
	sb.WriteString("lookahead")
	for _, l := range lits {
		sb.WriteByte('_')
		if l.neg {
			sb.WriteString("not")
		}
		fmt.Fprintf(&sb, "P%d", l.pred)
	}
	return sb.String()
}

func litsExpr(lits []c08Lit) string {
	parts := make([]string, len(lits))
	for i, l := range lits {
		if l.neg {
			parts[i] = fmt.Sprintf("!P%d", l.pred)
		} else {
			parts[i] = fmt.Sprintf("P%d", l.pred)
		}
	}
	return "(?= " + strings.Join(parts, " & ") + ")"
}

func c08TokChar(t int) byte {
	switch {
	case t == c08Semi:
		return ';'
	case t >= 200:
		return c08KeyChars[t-200]
	}
	return byte('a' + t)
}

func c08SeqTM(seq []int) string {
	parts := make([]string, len(seq))
	for i, t := range seq {
		if t == c08Any {
			parts[i] = "any"
		} else {
			parts[i] = fmt.Sprintf("'%c'", c08TokChar(t))
		}
	}
	return strings.Join(parts, " ")
}

func (g *c08Gram) toTM() string {
	var sb strings.Builder
	fmt.Fprintf(&sb, "language %s(go);\n\nlang = %q\npackage = \"verifgen/%s\"\neventBased = true\n", g.name, g.name, g.name)
	if g.cancellable {
		sb.WriteString("cancellable = true\n")
	}
	if g.cancFetch {
		sb.WriteString("cancellableFetch = true\n")
	}
	if g.recursive {
		sb.WriteString("recursiveLookaheads = true\n")
	}
	if g.optimize {
		sb.WriteString("optimizeTables = true\n")
	}
	sb.WriteString("\n:: lexer\n\n")
	for t := 0; t < g.ntok; t++ {
		fmt.Fprintf(&sb, "'%c': /%c/\n", c08TokChar(t), c08TokChar(t))
	}
	for p := range g.points {
		fmt.Fprintf(&sb, "'%c': /%c/\n", c08KeyChars[p], c08KeyChars[p])
	}
	sb.WriteString("';': /;/\ninvalid_token:\n\n:: parser\n\n%input input;\n\n")
	if g.rightList {
		sb.WriteString("input :\n    stmt\n  | stmt input\n;\n\n")
	} else {
		sb.WriteString("input :\n    stmt+\n;\n\n")
	}
	sb.WriteString("stmt :\n")
	firstAlt := true
	var firsts []string
	for p, alts := range g.points {
		for i, a := range alts {
			if firstAlt {
				sb.WriteString("    ")
				firstAlt = false
			} else {
				sb.WriteString("  | ")
			}
			fn := "any"
			if a.first != nil {
				fn = fmt.Sprintf("first%d_%d", p, i)
				ts := make([]string, len(a.first))
				for j, t := range a.first {
					ts[j] = fmt.Sprintf("'%c'", c08TokChar(t))
				}
				firsts = append(firsts, fmt.Sprintf("%s :\n    %s\n;\n\n", fn, strings.Join(ts, " | ")))
			}
			body := fn + " any ';'"
			if a.shape == 1 {
				body = fn + " tail"
			}
			fmt.Fprintf(&sb, "'%c' %s %s -> %c%d\n", c08KeyChars[p], litsExpr(a.lits), body, c08KeyChars[p]-'a'+'A', i)
		}
	}
	sb.WriteString(";\n\nany :\n    ")
	for t := 0; t < g.ntok; t++ {
		if t > 0 {
			sb.WriteString(" | ")
		}
		fmt.Fprintf(&sb, "'%c'", c08TokChar(t))
	}
	sb.WriteString("\n;\n\ntail :\n    any ';'\n;\n\n")
	for _, f := range firsts {
		sb.WriteString(f)
	}
	for j, pd := range g.preds {
		fmt.Fprintf(&sb, "P%d :\n", j)
		k := 0
		emit := func(prefix string, seqs [][]int) {
			for _, s := range seqs {
				if k == 0 {
					sb.WriteString("    ")
				} else {
					sb.WriteString("  | ")
				}
				k++
				sb.WriteString(prefix + c08SeqTM(s) + "\n")
			}
		}
		for _, sd := range pd.sides {
			if len(sd.guard) == 0 {
				emit("", sd.seqs)
			} else {
				emit(litsExpr(sd.guard)+" ", sd.seqs)
			}
		}
		sb.WriteString(";\n\n")
	}
	return sb.String()
}

// c08Driver: VerifRun parses the input and answers "(accept K0 M1 ...)" / "(syntax K0 ...)" with the node
// types reported so far.
func c08Driver(g *c08Gram) func(p *genPkg) string {
	return func(p *genPkg) string {
		ctxImport, ctxArg := "", ""
		if g.cancellable {
			ctxImport, ctxArg = "\t\"context\"\n", "context.Background(), "
		}
		return fmt.Sprintf(`package %s

import (
%s	"fmt"
	"strings"
)

func VerifRun(mode string, input []byte) string {
	var l Lexer
	l.Init(string(input))
	var p Parser
	var ev strings.Builder
	p.Init(func(t NodeType, offset, endoffset int) { fmt.Fprintf(&ev, " %%v", t) })
	err := p.Parse(%s&l)
	res := "accept"
	if _, ok := err.(SyntaxError); ok {
		res = "syntax"
	} else if err != nil {
		res = "other"
	}
	return "(" + res + ev.String() + ")"
}
`, p.name, ctxImport, ctxArg)
	}
}

// ---- generator ----

// c08Lookaheads builds the alternatives of one conflict point over the predicates `inputs` (ported from
// genLookaheads of c08.go): a shuffled decision list (exclusive by construction), optionally corrupted, or an
// unstructured set.
func c08Lookaheads(rng *rand.Rand, inputs []int, strategy int, exhaustive bool) [][]c08Lit {
	ninputs := len(inputs)
	var las [][]c08Lit
	if strategy < 2 {
		pol := make([]bool, ninputs)
		for i := range pol {
			pol[i] = rng.Intn(2) == 0
		}
		n := 2 + rng.Intn(ninputs)
		if rng.Intn(2) == 0 || (exhaustive && rng.Intn(2) == 0) {
			n = ninputs + 1 // prefer the longest list: 3+ alternatives
		}
		for k := 0; k < n; k++ {
			var preds []c08Lit
			for j := 0; j < k && j < ninputs; j++ {
				preds = append(preds, c08Lit{inputs[j], !pol[j]})
			}
			if k < ninputs && (k < n-1 || (!exhaustive && rng.Intn(2) == 0)) {
				preds = append(preds, c08Lit{inputs[k], pol[k]})
			}
			las = append(las, preds)
		}
		rng.Shuffle(len(las), func(i, j int) { las[i], las[j] = las[j], las[i] })
		if strategy == 1 {
			k := rng.Intn(len(las))
			ps := append([]c08Lit{}, las[k]...)
			switch rng.Intn(3) {
			case 0:
				j := rng.Intn(len(ps))
				ps[j].neg = !ps[j].neg
			case 1:
				j := rng.Intn(len(ps))
				ps = append(ps[:j:j], ps[j+1:]...)
			default:
				if len(ps) > 1 {
					ps[0], ps[len(ps)-1] = ps[len(ps)-1], ps[0]
				} else {
					ps[0].neg = !ps[0].neg
				}
			}
			las[k] = ps
		}
		return las
	}
	n := 2 + rng.Intn(3)
	for k := 0; k < n; k++ {
		var preds []c08Lit
		for _, in := range inputs {
			if rng.Intn(3) != 0 {
				preds = append(preds, c08Lit{in, rng.Intn(2) == 0})
			}
		}
		las = append(las, preds)
	}
	return las
}

func c08ValidSet(las [][]c08Lit) bool {
	seen := map[string]bool{}
	for _, la := range las {
		if len(la) == 0 {
			return false
		}
		n := litsName(la)
		if seen[n] {
			return false
		}
		seen[n] = true
		used := map[int]bool{}
		for _, l := range la {
			if used[l.pred] {
				return false
			}
			used[l.pred] = true
		}
	}
	return len(las) >= 2
}

func randSubset(rng *rand.Rand, n int, atLeast int) []int {
	for {
		var s []int
		for i := 0; i < n; i++ {
			if rng.Intn(2) == 0 {
				s = append(s, i)
			}
		}
		if len(s) >= atLeast {
			return s
		}
	}
}

// c08NestedWithoutRecursive (argument "nonrec-nested", experiments only): nested lookaheads although
// recursiveLookaheads is off.
var c08NestedWithoutRecursive bool

func genC08Gram(rng *rand.Rand, name string) *c08Gram {
	g := &c08Gram{name: name}
	// k1 predicates decided by the first token after the key, k2 by the second token
	k1 := 1 + rng.Intn(3)
	k2 := 0
	switch rng.Intn(5) {
	case 0:
		k2 = 1
	case 1:
		if k1 <= 2 {
			k2 = 2
		} else {
			k2 = 1
		}
	}
	g.ntok = 1 << uint(k1)
	if 1<<uint(k2) > g.ntok {
		g.ntok = 1 << uint(k2)
	}
	if g.ntok < 3 {
		g.ntok = 3
	}
	if g.ntok < 8 {
		g.ntok += rng.Intn(2)
	}
	g.cancellable = rng.Intn(2) == 0
	g.cancFetch = g.cancellable && rng.Intn(3) == 0
	g.recursive = rng.Intn(5) < 3
	g.optimize = rng.Intn(3) == 0
	g.rightList = rng.Intn(4) == 0

	masks := func(k int) []int {
		m := make([]int, g.ntok)
		perm := rng.Perm(g.ntok)
		for i, t := range perm {
			if i < 1<<uint(k) {
				m[t] = i
			} else {
				m[t] = rng.Intn(1 << uint(k))
			}
		}
		return m
	}
	m1 := masks(k1)
	refined := make([]bool, g.ntok)
	for j := 0; j < k1; j++ {
		var seqs [][]int
		for t := 0; t < g.ntok; t++ {
			if m1[t]>>uint(j)&1 == 0 {
				continue
			}
			if k2 == 0 && !refined[t] && rng.Intn(4) == 0 {
				// refine by the second token (and sometimes the terminator)
				refined[t] = true
				withSemi := rng.Intn(3) == 0
				for _, u := range randSubset(rng, g.ntok, 1) {
					s := []int{t, u}
					if withSemi {
						s = append(s, c08Semi)
					}
					seqs = append(seqs, s)
				}
			} else {
				seqs = append(seqs, []int{t})
			}
		}
		g.preds = append(g.preds, plainPred(seqs))
	}
	if k2 > 0 {
		m2 := masks(k2)
		for j := 0; j < k2; j++ {
			var seqs [][]int
			for u := 0; u < g.ntok; u++ {
				if m2[u]>>uint(j)&1 != 0 {
					seqs = append(seqs, []int{c08Any, u})
				}
			}
			g.preds = append(g.preds, plainPred(seqs))
		}
	}
	npred := k1 + k2
	npoints := 1 + rng.Intn(3)
	corruptAt := -1
	if rng.Intn(5) == 0 {
		corruptAt = rng.Intn(npoints)
		g.corrupted = true
	}
	g.restricted = rng.Intn(3) == 0
	for p := 0; p < npoints; p++ {
		var las [][]c08Lit
		if p > 0 && p != corruptAt && rng.Intn(3) == 0 {
			// the same set of alternatives in a second state (shuffled, possibly without one of them)
			src := g.points[rng.Intn(p)]
			for _, a := range src {
				las = append(las, a.lits)
			}
			rng.Shuffle(len(las), func(i, j int) { las[i], las[j] = las[j], las[i] })
			if len(las) > 2 && rng.Intn(3) == 0 {
				las = las[:len(las)-1]
			}
			g.reused = true
		} else {
			for tries := 0; ; tries++ {
				nin := 1 + rng.Intn(npred)
				if rng.Intn(2) == 0 {
					nin = npred
				}
				inputs := rng.Perm(npred)[:nin]
				strategy := 0
				if p == corruptAt {
					strategy = 1 + rng.Intn(2)
				}
				las = c08Lookaheads(rng, inputs, strategy, false)
				if c08ValidSet(las) {
					break
				}
			}
		}
		var alts []c08Alt
		for _, la := range las {
			a := c08Alt{lits: la, shape: rng.Intn(2)}
			if g.restricted && rng.Intn(2) == 0 {
				a.first = randSubset(rng, g.ntok, 1)
				if len(a.first) == g.ntok {
					a.first = nil
				}
			}
			alts = append(alts, a)
		}
		g.points = append(g.points, alts)
	}
	// nested lookaheads: one or two of the predicates used by the conflict points get sides guarded by an
	// exclusive and exhaustive decision list over one or two other (plain) predicates
	if (g.recursive || c08NestedWithoutRecursive) && rng.Intn(4) != 0 {
		var usedPreds []int
		for j := 0; j < npred; j++ {
			used := false
			for _, alts := range g.points {
				for _, a := range alts {
					for _, l := range a.lits {
						used = used || l.pred == j
					}
				}
			}
			if used {
				usedPreds = append(usedPreds, j)
			}
		}
		rng.Shuffle(len(usedPreds), func(i, j int) { usedPreds[i], usedPreds[j] = usedPreds[j], usedPreds[i] })
		nn := 1
		if len(usedPreds) > 1 && rng.Intn(3) == 0 {
			nn = 2
		}
		isNested := map[int]bool{}
		for _, j := range usedPreds[:nn] {
			isNested[j] = true
		}
		var auxes []int
		for _, j := range usedPreds[:nn] {
			nguards := 1 + rng.Intn(3)
			if nguards > 2 {
				nguards = 2
			}
			var guards []int
			for len(guards) < nguards {
				var cands []int
				for q := 0; q < npred; q++ {
					if !isNested[q] {
						cands = append(cands, q)
					}
				}
				cands = append(cands, auxes...)
				pick := -1
				if len(cands) > 0 && rng.Intn(2) == 0 {
					pick = cands[rng.Intn(len(cands))]
				}
				dup := false
				for _, q := range guards {
					dup = dup || q == pick
				}
				if pick < 0 || dup {
					// a new auxiliary predicate on single tokens
					var seqs [][]int
					for _, t := range randSubset(rng, g.ntok, 1) {
						seqs = append(seqs, []int{t})
					}
					g.preds = append(g.preds, plainPred(seqs))
					pick = len(g.preds) - 1
					auxes = append(auxes, pick)
				}
				guards = append(guards, pick)
			}
			var las [][]c08Lit
			for {
				las = c08Lookaheads(rng, guards, 0, true)
				if c08ValidSet(las) {
					break
				}
			}
			base := g.preds[j].sides[0].seqs
			var sides []c08Side
			for si, la := range las {
				sd := c08Side{guard: la}
				if si == 0 {
					sd.seqs = base
				} else {
					// the same first tokens on every side (so that the guards are consulted for every first token)
					firstSeen := map[int]bool{}
					for _, s := range base {
						t := s[0]
						if firstSeen[t] {
							continue
						}
						firstSeen[t] = true
						switch {
						case t == c08Any:
							for _, u := range randSubset(rng, g.ntok, 1) {
								sd.seqs = append(sd.seqs, []int{c08Any, u})
							}
						case rng.Intn(2) == 0:
							sd.seqs = append(sd.seqs, []int{t})
						default:
							for _, u := range randSubset(rng, g.ntok, 1) {
								sd.seqs = append(sd.seqs, []int{t, u})
							}
						}
					}
				}
				sides = append(sides, sd)
			}
			g.preds[j].sides = sides
		}
		g.nested = true
	}
	return g
}

// ---- independent evaluation of the predicates on a token stream (used for coverage statistics only; the
// verdict is computed by the OCaml side from the definitions in the case line) ----

func c08Prefix(seq, rest []int, ntok int) bool {
	if len(seq) > len(rest) {
		return false
	}
	for i, t := range seq {
		if t == c08Any {
			if rest[i] < 0 || rest[i] >= ntok {
				return false
			}
		} else if rest[i] != t {
			return false
		}
	}
	return true
}

func (g *c08Gram) predHolds(j int, rest []int) bool {
	for _, sd := range g.preds[j].sides {
		ok := true
		for _, l := range sd.guard {
			if g.predHolds(l.pred, rest) == l.neg {
				ok = false
			}
		}
		if !ok {
			continue
		}
		for _, s := range sd.seqs {
			if c08Prefix(s, rest, g.ntok) {
				return true
			}
		}
	}
	return false
}

func c08Text(toks []int) []byte {
	b := make([]byte, len(toks))
	for i, t := range toks {
		b[i] = c08TokChar(t)
	}
	return b
}

// ---- case rendering ----

func c08SeqsStr(seqs [][]int) string {
	parts := make([]string, len(seqs))
	for i, s := range seqs {
		parts[i] = sx.Ints(s)
	}
	return sx.List(parts...)
}

var c08ErrRe = regexp.MustCompile(`failed with ([a-z ]+):\n((?:\t\(\?= [^\n]*\)\n)+)`)

func c08Gen(rng *rand.Rand, n int, args []string) {
	dump := len(args) > 0 && args[0] == "dump"
	c08NestedWithoutRecursive = len(args) > 0 && args[0] == "nonrec-nested"
	if !c08NestedWithoutRecursive && !dump {
		c08NameClash(rng)
	}
	var pkgs []*genPkg
	var grams []*c08Gram
	for i := 0; i < n; i++ {
		g := genC08Gram(rng, fmt.Sprintf("g%d", i))
		grams = append(grams, g)
		pkgs = append(pkgs, &genPkg{name: g.name, tm: g.toTM(), driver: c08Driver(g)})
	}
	compileAll(pkgs)
	if dump {
		for _, p := range pkgs {
			fmt.Fprintf(os_stderr(), "==== %s err=%v\n%s\n", p.name, p.err, p.tm)
		}
	}

	// inputs
	type runSet struct {
		first int
		toks  [][]int
	}
	sets := make([]runSet, len(pkgs))
	var reqs []genRequest
	for gi, p := range pkgs {
		if p.err != nil {
			continue
		}
		g := grams[gi]
		rs := runSet{first: len(reqs)}
		add := func(toks []int) {
			rs.toks = append(rs.toks, toks)
			reqs = append(reqs, genRequest{pkg: p.name, mode: "0", input: c08Text(toks)})
		}
		reach := make([]map[int]bool, len(g.points))
		for pi := range g.points {
			reach[pi] = map[int]bool{}
			// every pair of tokens after the key: all reachable truth assignments
			for t1 := 0; t1 < g.ntok; t1++ {
				for t2 := 0; t2 < g.ntok; t2++ {
					add([]int{c08Key(pi), t1, t2, c08Semi})
					mask := 0
					for j := range g.preds {
						if g.predHolds(j, []int{t1, t2, c08Semi}) {
							mask |= 1 << uint(j)
						}
					}
					reach[pi][mask] = true
				}
			}
		}
		// assignments over the predicates used at each point
		for pi, alts := range g.points {
			used := 0
			for _, a := range alts {
				for _, l := range a.lits {
					used |= 1 << uint(l.pred)
				}
			}
			seen := map[int]bool{}
			for m := range reach[pi] {
				seen[m&used] = true
			}
			nused := 0
			for j := range g.preds {
				if used>>uint(j)&1 != 0 {
					nused++
				}
			}
			sx.Stat("assignments_reached", len(seen))
			sx.Stat("assignments_unreachable", 1<<uint(nused)-len(seen))
		}
		// several statements in one input (the same predicate at several offsets), some malformed
		for k := 0; k < 16; k++ {
			var toks []int
			for s := 1 + rng.Intn(3); s > 0; s-- {
				toks = append(toks, c08Key(rng.Intn(len(g.points))), rng.Intn(g.ntok), rng.Intn(g.ntok), c08Semi)
			}
			if k >= 12 {
				switch rng.Intn(3) {
				case 0:
					toks = toks[:len(toks)-1-rng.Intn(3)]
				case 1:
					j := rng.Intn(len(toks))
					toks = append(toks[:j:j], toks[j+1:]...)
				default:
					j := rng.Intn(len(toks))
					toks = append(toks[:j:j], append([]int{rng.Intn(g.ntok)}, toks[j:]...)...)
				}
			}
			add(toks)
		}
		sets[gi] = rs
	}
	answers, err := buildAndRun(pkgs, reqs)
	if err != nil {
		fmt.Fprintln(os_stderr(), "c08.gen:", err)
		exitCode(3)
	}

	accepted, rejected := 0, 0
	for gi, p := range pkgs {
		g := grams[gi]
		opts := sx.List("opts", sx.Bool(g.cancellable), sx.Bool(g.cancFetch), sx.Bool(g.recursive), sx.Bool(g.optimize))
		tm := sx.List("tm", sx.Str(p.tm))
		sx.Stat(fmt.Sprintf("points_%d", len(g.points)), 1)
		for _, pd := range g.preds {
			if len(pd.sides) > 1 {
				sx.Stat(fmt.Sprintf("nested_predicates_with_%d_guarded_sides", len(pd.sides)), 1)
			}
		}
		for _, alts := range g.points {
			sx.Stat(fmt.Sprintf("alternatives_%d", len(alts)), 1)
		}
		for _, f := range []struct {
			name string
			on   bool
		}{{"cancellable", g.cancellable}, {"recursive", g.recursive}, {"optimize", g.optimize}, {"nested", g.nested},
			{"restricted_first", g.restricted}, {"reused_set", g.reused}, {"corrupted", g.corrupted}} {
			if f.on {
				sx.Stat("grammars_"+f.name, 1)
			}
		}
		if p.err != nil && p.g == nil {
			rejected++
			// rejected by the compiler: the spec with predicate numbers; the reported sets from the messages
			var pts []string
			for pi, alts := range g.points {
				var as []string
				for _, a := range alts {
					first := a.first
					if first == nil {
						for t := 0; t < g.ntok; t++ {
							first = append(first, t)
						}
					}
					as = append(as, sx.List(c08LitsStr(a.lits, nil), sx.Ints(first)))
				}
				pts = append(pts, sx.List(sx.Int(c08Key(pi)), sx.List(as...)))
			}
			var nest []string
			for _, pd := range g.preds {
				if len(pd.sides) > 1 {
					var gs []string
					for _, sd := range pd.sides {
						gs = append(gs, c08LitsStr(sd.guard, nil))
					}
					nest = append(nest, sx.List(gs...))
				}
			}
			var groups []string
			other := 0
			seenMsg := map[string]bool{}
			for _, e := range status.FromError(p.err) {
				m := c08ErrRe.FindStringSubmatch(e.Msg)
				if m == nil {
					other++
					continue
				}
				if seenMsg[e.Msg] {
					continue
				}
				seenMsg[e.Msg] = true
				why := map[string]int{"inconsistent order": 1, "ambiguous order": 2, "cannot decide on the next lookahead": 3}[m[1]]
				var exprs []string
				for _, ln := range strings.Split(strings.TrimSpace(m[2]), "\n") {
					exprs = append(exprs, c08ParseExpr(ln))
				}
				// (the message lists the slice after newLookaheadRule has already removed members in place: only
				// the set of distinct expressions is compared)
				sort.Strings(exprs)
				uniq := exprs[:0]
				for i, e := range exprs {
					if i == 0 || e != exprs[i-1] {
						uniq = append(uniq, e)
					}
				}
				groups = append(groups, sx.List(sx.Int(why), sx.List(uniq...)))
			}
			sort.Strings(groups)
			ug := groups[:0]
			for i, e := range groups {
				if i == 0 || e != groups[i-1] {
					ug = append(ug, e)
				}
			}
			groups = ug
			in := sx.List(tm, opts, sx.List("ntok", sx.Int(g.ntok)), sx.List("points", sx.List(pts...)), sx.List("nested", sx.List(nest...)))
			sx.Case("c08.gen.reject", in, sx.List("rejected", sx.List(groups...), sx.Int(other)))
			continue
		}
		if p.err != nil {
			sx.Case("c08.gen.nobuild", sx.List(tm, opts), sx.List("failed", sx.Str(firstLines(p.err.Error(), 4))))
			continue
		}
		accepted++
		// read the compiled grammar back
		symByName := map[string]int{}
		for _, s := range p.g.Syms {
			symByName[s.Name] = s.Index
		}
		inputOfSym := map[int]int{}
		for i, in := range p.g.Parser.Inputs {
			if in.NoEoi {
				inputOfSym[p.g.NumTokens+in.Nonterm] = i
			}
		}
		predInput := make([]int, len(g.preds))
		for j := range g.preds {
			predInput[j] = -1
			if s, ok := symByName[fmt.Sprintf("P%d", j)]; ok {
				if i, ok := inputOfSym[s]; ok {
					predInput[j] = i
				}
			}
		}
		var las []string
		for _, r := range p.g.Parser.Rules {
			if r.Value == nil || r.Value.Kind != syntax.Lookahead {
				continue
			}
			var ps []string
			for _, sub := range r.Value.Sub {
				neg := sub.Kind == syntax.LookaheadNot
				if neg {
					sub = sub.Sub[0]
				}
				in, ok := inputOfSym[sub.Symbol]
				if !ok {
					in = -1
				}
				ps = append(ps, sx.List(sx.Int(in), sx.Bool(neg)))
			}
			las = append(las, sx.List(sx.Int(int(r.LHS)), sx.List(ps...)))
		}
		var pds []string
		for j, pd := range g.preds {
			var sds []string
			for _, sd := range pd.sides {
				sym := 0
				if len(sd.guard) > 0 {
					var ok bool
					if sym, ok = symByName[litsName(sd.guard)]; !ok {
						sym = -1
					}
				}
				sds = append(sds, sx.List(sx.Int(sym), c08LitsStr(sd.guard, predInput), c08SeqsStr(sd.seqs)))
			}
			pds = append(pds, sx.List(sx.Int(predInput[j]), sx.List(sds...)))
		}
		var pts []string
		for pi, alts := range g.points {
			var as []string
			for i, a := range alts {
				first := a.first
				if first == nil {
					for t := 0; t < g.ntok; t++ {
						first = append(first, t)
					}
				}
				sym, ok := symByName[litsName(a.lits)]
				if !ok {
					sym = -1
				}
				as = append(as, sx.List(sx.Int(sym), c08LitsStr(a.lits, predInput), sx.Ints(first), fmt.Sprintf("%c%d", c08KeyChars[pi]-'a'+'A', i)))
			}
			pts = append(pts, sx.List(sx.Int(c08Key(pi)), sx.List(as...)))
		}
		spec := []string{tm, opts, sx.List("ntok", sx.Int(g.ntok)), sx.List("preds", sx.List(pds...)), sx.List("las", sx.List(las...)), sx.List("points", sx.List(pts...))}

		// tables: the rules of lalr.Tables.Lookaheads, sorted by their set of lookahead nonterminals
		type ruleTxt struct {
			key []int
			txt string
		}
		var rules []ruleTxt
		for _, r := range p.g.Parser.Tables.Lookaheads {
			var key []int
			cs := make([]string, len(r.Cases))
			for i, c := range r.Cases {
				cs[i] = sx.List(sx.Int(int(c.Input)), sx.Bool(c.Negated), sx.Int(int(c.Target)))
				key = append(key, int(c.Target))
			}
			key = append(key, int(r.DefaultTarget))
			sort.Ints(key)
			rules = append(rules, ruleTxt{key, sx.List(sx.Ints(key), sx.List("ok", sx.List(cs...), sx.Int(int(r.DefaultTarget))))})
		}
		sort.Slice(rules, func(i, j int) bool {
			a, b := rules[i].key, rules[j].key
			for k := 0; k < len(a) && k < len(b); k++ {
				if a[k] != b[k] {
					return a[k] < b[k]
				}
			}
			return len(a) < len(b)
		})
		rtx := make([]string, len(rules))
		for i, r := range rules {
			rtx[i] = r.txt
		}
		sx.Case("c08.gen.tables", sx.List(spec...), sx.List(rtx...))
		sx.Stat("lookahead_rules", len(rules))

		// runs
		rs := sets[gi]
		ins := make([]string, len(rs.toks))
		outs := make([]string, len(rs.toks))
		for k, toks := range rs.toks {
			ins[k] = sx.Ints(toks)
			outs[k] = answers[rs.first+k]
		}
		sx.Case("c08.gen.run", sx.List(append(spec, sx.List("inputs", sx.List(ins...)))...), sx.List(outs...))
		sx.Stat("parser_runs", len(rs.toks))
	}
	sx.Stat("grammars_accepted", accepted)
	sx.Stat("grammars_rejected", rejected)
}

// c08LitsStr prints literals as ((input negated) ...); with predInput == nil the predicate number is printed.
func c08LitsStr(lits []c08Lit, predInput []int) string {
	ps := make([]string, len(lits))
	for i, l := range lits {
		in := l.pred
		if predInput != nil {
			in = predInput[l.pred]
		}
		ps[i] = sx.List(sx.Int(in), sx.Bool(l.neg))
	}
	return sx.List(ps...)
}

// c08ParseExpr turns "\t(?= P0 & !P1)" of an error message into ((0 0) (1 1)).
func c08ParseExpr(line string) string {
	line = strings.TrimSpace(line)
	line = strings.TrimSuffix(strings.TrimPrefix(line, "(?= "), ")")
	var ps []string
	for _, part := range strings.Split(line, " & ") {
		neg := strings.HasPrefix(part, "!")
		part = strings.TrimPrefix(part, "!")
		var j int
		if _, err := fmt.Sscanf(part, "P%d", &j); err != nil {
			j = -1
		}
		ps = append(ps, sx.List(sx.Int(j), sx.Bool(neg)))
	}
	return sx.List(ps...)
}

// c08NameClash: two alternatives guarded by (?= notX) and (?= !X), where notX and X are two different nonterminals
// (both predicates spell "lookahead_notX"). The conditions are not mutually exclusive, so the set must be rejected;
// if it is accepted there must at least be a runtime decision that evaluates both predicates.
func c08NameClash(rng *rand.Rand) {
	for i := 0; i < 4; i++ {
		x := []string{"A", "Pred", "Ok", "B1"}[i]
		second := []string{"'(' 'b' 'b' ')'", "'(' 'a' 'b' ')'"}[rng.Intn(2)]
		text := fmt.Sprintf(`language clash(go);

lang = "clash"
package = "x/clash"
eventBased = true

:: lexer

'a': /a/
'b': /b/
'(': /\(/
')': /\)/

:: parser

%%input S;

S -> S :
    (?= not%s) '(' 'b' ')'      -> First
  | (?= !%s) %s    -> Second
;

%s : '(' 'a' ;
not%s : '(' 'b' ')' ;
`, x, x, second, x, x)
		g, err := compiler.Compile(context.Background(), "clash.tm", text, compiler.Params{CheckOnly: true})
		out := "(rejected)"
		if err == nil && g != nil && g.Parser != nil && g.Parser.Tables != nil {
			out = sx.List("accepted", sx.Int(len(g.Parser.Tables.Lookaheads)))
		}
		sx.Case("c08.gen.clash", sx.Str(text), out)
	}
}
