package main

import (
	"math/rand"
	"strings"

	"github.com/inspirer/textmapper/lalr"
	"verif/harness/sx"
)

func init() {
	commands["c06.random"] = c06Random
}

func markersStr(ms []lalr.StateMarker) string {
	parts := make([]string, len(ms))
	for i, m := range ms {
		parts[i] = sx.Ints(m.States)
	}
	return sx.List(parts...)
}

// wideCFG: many similar alternatives over many terminals, so that the minimizer works with dozens of
// partitions and symbols (N0: V1 | V2 | W0 | ... ; Vi: two terminals; Wi: ti 'c').
func wideCFG(rng *rand.Rand) *cfg {
	k := 20 + rng.Intn(50)
	g := &cfg{nterms: k + 6, nnonterms: k + 3}
	n0 := g.nterms
	for j := 1; j <= k+2; j++ {
		g.rules = append(g.rules, cfgRule{lhs: n0, rhs: []int{n0 + j}})
	}
	g.rules = append(g.rules, cfgRule{lhs: n0 + 1, rhs: []int{1, 2}}, cfgRule{lhs: n0 + 2, rhs: []int{3, 4}})
	for j := 0; j < k; j++ {
		g.rules = append(g.rules, cfgRule{lhs: n0 + 3 + j, rhs: []int{6 + j, 5}})
	}
	for e := rng.Intn(3); e > 0; e-- {
		g.rules = append(g.rules, cfgRule{lhs: n0 + 1 + rng.Intn(k+2), rhs: []int{1 + rng.Intn(g.nterms-1), 1 + rng.Intn(g.nterms-1)}})
	}
	g.inputs = []cfgInput{{nt: n0, eoi: true}}
	return g
}

func c06Random(rng *rand.Rand, n int, _ []string) {
	merged := 0
	for i := 0; i < n; i++ {
		k := defaultKnobs
		k.maxRules = 4
		g := genCFG(rng, k)
		if i%6 == 5 {
			g = wideCFG(rng)
		}
		// duplicate some rules' shapes so that states become mergeable
		if rng.Intn(2) == 0 && len(g.rules) > 0 {
			r := g.rules[rng.Intn(len(g.rules))]
			alt := append([]int{}, r.rhs...)
			if len(alt) > 0 {
				alt[len(alt)-1] = 1 + rng.Intn(g.nterms-1)
				g.rules = append(g.rules, cfgRule{lhs: r.lhs, rhs: alt})
			}
		}
		lg := g.toLalr()
		flagIDs := map[string]int{}
		keys := make([]string, len(lg.Rules))
		for j := range lg.Rules {
			lg.Rules[j].Action = []int{0, 0, 0, 1, 2}[rng.Intn(5)]
			lg.Rules[j].Type = []int{-1, -1, 0, 1}[rng.Intn(4)]
			if rng.Intn(5) == 0 {
				lg.Rules[j].Flags = []string{"f"}
			}
			fl := strings.Join(lg.Rules[j].Flags, ",")
			if _, ok := flagIDs[fl]; !ok {
				flagIDs[fl] = len(flagIDs)
			}
			keys[j] = sx.Ints([]int{int(lg.Rules[j].LHS), lg.Rules[j].Action, lg.Rules[j].Type, flagIDs[fl]})
		}
		if rng.Intn(4) == 0 {
			lg.Markers = []string{"m"}
			// put a marker in front of a random rule's last symbol
			j := rng.Intn(len(lg.Rules))
			rhs := lg.Rules[j].RHS
			lg.Rules[j].RHS = append(append([]lalr.Sym{}, rhs...), lalr.Marker(0))
		}
		t, _ := lalr.Compile(lg, lalr.Options{})
		tm, _ := lalr.Compile(lg, lalr.Options{MinimizeDFA: true})
		if t == nil || tm == nil || t.UsedLADepth > 0 {
			continue
		}
		if tm.NumStates < t.NumStates {
			merged++
		}
		var inputs []string
		eois := make([]bool, len(g.inputs))
		for idx, in := range g.inputs {
			eois[idx] = in.eoi
		}
		for idx, in := range g.inputs {
			var toks []string
			for _, s := range g.sampleInputs(rng, in.nt, 8) {
				toks = append(toks, sx.Ints(s))
			}
			inputs = append(inputs, sx.List(sx.Int(idx), sx.List(toks...)))
		}
		in := sx.List(sx.Int(g.nterms), sx.Int(len(g.inputs)), defaultEncStr(t.DefaultEnc), sx.Ints(t.RuleLen), sx.Ints(t.RuleSymbol),
			sx.List(keys...), sx.Ints(t.FinalStates), sx.Bools(eois), markersStr(t.Markers), sx.Int(t.NumStates), sx.List(inputs...))
		out := sx.List(defaultEncStr(tm.DefaultEnc), sx.Ints(tm.FinalStates), markersStr(tm.Markers), sx.Int(tm.NumStates))
		sx.Case("c06.min", in, out)
	}
	sx.Stat("grammars_with_merged_states", merged)
}
