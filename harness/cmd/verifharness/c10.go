package main

import (
	"fmt"
	"math/rand"
	"sort"
	"strings"
	"unicode"
	"unicode/utf8"

	"github.com/inspirer/textmapper/lex"
	"verif/harness/sx"
)

func init() {
	commands["c10.tables"] = func(rng *rand.Rand, n int, _ []string) { c10Tables() }
	commands["c10.charset"] = c10Charset
	commands["c10.patterns"] = c10Patterns
}

// ---------------------------------------------------------------- unicode data

func rangeTableStr(t *unicode.RangeTable) string {
	if t == nil {
		return "()"
	}
	var parts []string
	for _, r := range t.R16 {
		parts = append(parts, fmt.Sprintf("(%d %d %d)", r.Lo, r.Hi, r.Stride))
	}
	for _, r := range t.R32 {
		parts = append(parts, fmt.Sprintf("(%d %d %d)", r.Lo, r.Hi, r.Stride))
	}
	return sx.List(parts...)
}

func ccRanges(pattern string, fold bool) string {
	re, err := lex.ParseRegexp(pattern, lex.CharsetOptions{Fold: fold})
	if err != nil {
		return "err"
	}
	s := lex.VerifDump(re)
	if !strings.HasPrefix(s, "(cc ") {
		return "notcc"
	}
	s = s[4:]
	return s[:strings.LastIndex(s, " ")]
}

var c10Names []string // names usable in \p{...} (rune mode)

// c10Tables sends Go's SimpleFold map and every unicode table; the OCaml side keeps them for the run.
func c10Tables() {
	var pairs []string
	for c := rune(0); c <= unicode.MaxRune; c++ {
		if f := unicode.SimpleFold(c); f != c {
			pairs = append(pairs, fmt.Sprintf("(%d %d)", c, f))
		}
	}
	sx.Case("c10.foldmap", sx.List(pairs...), "ok")
	emit := func(kind int, name string, t, ft *unicode.RangeTable) {
		in := sx.List(sx.Int(kind), sx.Str(name), rangeTableStr(t), rangeTableStr(ft))
		p := `\p{` + name + `}`
		sx.Case("c10.table", in, sx.List(ccRanges(p, false), ccRanges(p, true)))
	}
	seen := map[string]bool{}
	c10Names = nil
	var names []string
	for n := range unicode.Categories {
		names = append(names, n)
	}
	sort.Strings(names)
	for _, n := range names {
		seen[n] = true
		c10Names = append(c10Names, n)
		emit(0, n, unicode.Categories[n], unicode.FoldCategory[n])
	}
	names = nil
	for n := range unicode.Scripts {
		names = append(names, n)
	}
	sort.Strings(names)
	for _, n := range names {
		if seen[n] {
			continue
		}
		seen[n] = true
		c10Names = append(c10Names, n)
		emit(1, n, unicode.Scripts[n], unicode.FoldScript[n])
	}
	names = nil
	for n := range unicode.Properties {
		names = append(names, n)
	}
	sort.Strings(names)
	for _, n := range names {
		if seen[n] {
			continue
		}
		seen[n] = true
		c10Names = append(c10Names, n)
		emit(2, n, unicode.Properties[n], nil)
	}
	sx.Stat("unicode_tables", len(c10Names))
}

// ---------------------------------------------------------------- charset operations

func runesStr(rs []rune) string {
	var parts []string
	for i := 0; i+1 < len(rs); i += 2 {
		parts = append(parts, fmt.Sprintf("(%d %d)", rs[i], rs[i+1]))
	}
	return sx.List(parts...)
}

// randRanges: unsorted, possibly overlapping ranges within [0,max]
func randRanges(rng *rand.Rand, max int, n int, width int) []rune {
	var out []rune
	for i := 0; i < n; i++ {
		lo := rng.Intn(max + 1)
		hi := lo + rng.Intn(width+1)
		if rng.Intn(4) == 0 {
			hi = lo
		}
		if hi > max {
			hi = max
		}
		out = append(out, rune(lo), rune(hi))
	}
	return out
}

// normal form: sorted, disjoint, non-adjacent
func randNormal(rng *rand.Rand, max int, n int, width int) []rune {
	var out []rune
	pos := rng.Intn(3)
	if rng.Intn(3) == 0 {
		pos = 0
	}
	for i := 0; i < n && pos <= max; i++ {
		lo := pos
		hi := lo + rng.Intn(width+1)
		if hi > max {
			hi = max
		}
		out = append(out, rune(lo), rune(hi))
		pos = hi + 2 + rng.Intn(width+1)
	}
	if rng.Intn(6) == 0 && len(out) > 0 && int(out[len(out)-1]) < max {
		out[len(out)-1] = rune(max)
	}
	return out
}

func c10Charset(rng *rand.Rand, n int, _ []string) {
	c10Tables()
	ops := []string{"new", "invert", "subtract", "intersect", "fold", "append"}
	count := map[string]int{}
	for i := 0; i < n; i++ {
		op := ops[rng.Intn(len(ops))]
		max, width := 40, 6
		switch rng.Intn(4) {
		case 0:
			max, width = 255, 30
		case 1:
			max, width = unicode.MaxRune, 200000
		case 2:
			max, width = 1200, 90 // Latin/Greek/Cyrillic: dense in case pairs
		}
		opts := lex.CharsetOptions{ScanBytes: rng.Intn(2) == 0}
		mx := int(unicode.MaxRune)
		if opts.ScanBytes {
			mx = 255
		}
		var a, b []rune
		flag := false
		switch op {
		case "new":
			a = randRanges(rng, max, rng.Intn(7), width)
		case "invert":
			if max > mx {
				max = mx
			}
			a = randNormal(rng, max, rng.Intn(6), width)
		case "subtract", "intersect":
			a = randNormal(rng, max, rng.Intn(6), width)
			b = randNormal(rng, max, rng.Intn(6), width)
		case "fold":
			if max > 70000 {
				max, width = 70000, 300
			}
			a = randNormal(rng, max, rng.Intn(5), width)
			flag = opts.ScanBytes
		case "append":
			a = randRanges(rng, max, rng.Intn(4), width)
			b = randRanges(rng, max, 1, width)
		}
		count[op]++
		out := lex.VerifCharsetOp(op, a, b, opts)
		sx.Case("c10.charset", sx.List(op, runesStr(a), runesStr(b), sx.Bool(flag), sx.Int(mx)), runesStr(out))
	}
	for k, v := range count {
		sx.Stat("op_"+k, v)
	}
}

// ---------------------------------------------------------------- pattern generator (AST directed)

type pgen struct {
	rng    *rand.Rand
	bytes  bool
	quirk  bool // last classEscape was \d \w \s (or complement) or a unicode.Properties table: not folded outside brackets (finding)
	folded bool // the bracket expression being generated will be case-folded (keep complements rare: folding walks every member)
	stats  map[string]int
}

var c10Lits = []rune{'a', 'b', 'k', 'K', 's', 'S', 'Z', 'z', '0', '7', ' ', '_', '-', ',', ':', '"', '\'', '/', '=', '<', '~', '%', '#',
	'é', 'É', 'Σ', 'σ', 'ς', 'µ', 'ж', 'Ж', 0x212a, 0x17f, 0x1c5, 'ß', 0x4e2d, 0x1f600, 0x10400, 0x10428}

func (g *pgen) codepoint(max int) int {
	switch g.rng.Intn(5) {
	case 0:
		return g.rng.Intn(128)
	case 1:
		if max > 0x24f {
			return 0x80 + g.rng.Intn(0x250-0x80)
		}
		return g.rng.Intn(max + 1)
	case 2:
		r := int(c10Lits[g.rng.Intn(len(c10Lits))])
		if r <= max {
			return r
		}
		return g.rng.Intn(max + 1)
	default:
		for {
			r := g.rng.Intn(max + 1)
			if g.rng.Intn(2) == 0 && max > 0x3000 {
				r = g.rng.Intn(0x3000)
			}
			if r >= 0xd800 && r <= 0xdfff {
				continue
			}
			return r
		}
	}
}

func (g *pgen) hexDigits(v int, width int) string {
	s := fmt.Sprintf("%0*x", width, v)
	b := []byte(s)
	for i := range b {
		if b[i] >= 'a' && b[i] <= 'f' && g.rng.Intn(2) == 0 {
			b[i] -= 32
		}
	}
	return string(b)
}

// escapeOf writes code point c as an escape sequence (chosen among the forms able to express it).
func (g *pgen) escapeOf(c int) string {
	var forms []string
	switch c {
	case 7:
		forms = append(forms, `\a`)
	case 12:
		forms = append(forms, `\f`)
	case 10:
		forms = append(forms, `\n`)
	case 13:
		forms = append(forms, `\r`)
	case 9:
		forms = append(forms, `\t`)
	case 11:
		forms = append(forms, `\v`)
	}
	if c <= 0xff {
		forms = append(forms, `\x`+g.hexDigits(c, 2), fmt.Sprintf(`\%03o`, c))
	}
	if c <= 0xffff {
		forms = append(forms, `\u`+g.hexDigits(c, 4))
	}
	forms = append(forms, `\U`+g.hexDigits(c, 8), `\x{`+g.hexDigits(c, 1+g.rng.Intn(3))+`}`, `\x{`+g.hexDigits(c, 6+g.rng.Intn(5))+`}`)
	if c < 128 && !(c >= '0' && c <= '9' || c >= 'a' && c <= 'z' || c >= 'A' && c <= 'Z') && c >= 0x21 {
		forms = append(forms, `\`+string(rune(c)))
	}
	f := forms[g.rng.Intn(len(forms))]
	g.stats["esc_"+f[:2]]++
	return f
}

const c10Special = `.()[]{}|*+?\^$`

// char returns a pattern fragment denoting exactly code point c outside brackets.
func (g *pgen) char(maxLit int) (string, int) {
	if g.rng.Intn(3) == 0 {
		c := g.codepoint(unicode.MaxRune)
		return g.escapeOf(c), c
	}
	c := int(c10Lits[g.rng.Intn(len(c10Lits))])
	if c > maxLit {
		c = 'a' + g.rng.Intn(26)
	}
	return string(rune(c)), c
}

func c10Set(rs ...int) string {
	var parts []string
	for i := 0; i+1 < len(rs); i += 2 {
		parts = append(parts, fmt.Sprintf("(%d %d)", rs[i], rs[i+1]))
	}
	return "(set " + sx.List(parts...) + ")"
}

// classEscape: \d \w \s and complements, \p{..}; returns text and a spec scls
func (g *pgen) classEscape() (string, string) {
	mx := int(unicode.MaxRune)
	if g.bytes {
		mx = 255
	}
	neg := func(items string) string { return "(cls 1 (" + items + ") ())" }
	g.quirk = true
	k := g.rng.Intn(9)
	if g.folded && !g.bytes && g.rng.Intn(10) != 0 {
		k = []int{0, 2, 4, 6, 7, 8}[g.rng.Intn(6)]
	}
	if g.bytes && k >= 6 {
		k = g.rng.Intn(6)
		if g.rng.Intn(4) == 0 {
			if g.rng.Intn(2) == 0 {
				return `\p{Any}`, c10Set(0, mx)
			}
			return `\p{Ascii}`, c10Set(0, 127)
		}
	}
	g.stats["classesc"]++
	switch k {
	case 0:
		return `\d`, c10Set('0', '9')
	case 1:
		return `\D`, neg("(r 48 57)")
	case 2:
		return `\w`, c10Set('0', '9', 'A', 'Z', '_', '_', 'a', 'z')
	case 3:
		return `\W`, neg("(r 48 57) (r 65 90) (r 95 95) (r 97 122)")
	case 4:
		return `\s`, c10Set(9, 13, 32, 32)
	case 5:
		return `\S`, neg("(r 9 13) (r 32 32)")
	}
	name := c10Names[g.rng.Intn(len(c10Names))]
	if g.rng.Intn(2) == 0 {
		name = []string{"L", "Lu", "Ll", "Nd", "Greek", "Latin", "Cyrillic", "Zs", "Hex_Digit", "Soft_Dotted", "Lt", "Sm"}[g.rng.Intn(12)]
	}
	g.stats["named"]++
	g.quirk = unicode.Categories[name] == nil && unicode.Scripts[name] == nil
	named := "(named " + sx.Str(name) + ")"
	form := g.rng.Intn(5)
	if g.folded && g.rng.Intn(10) != 0 {
		form = []int{0, 3, 4}[g.rng.Intn(3)]
	}
	switch form {
	case 0:
		if len(name) == 1 {
			return `\p` + name, named
		}
		return `\p{` + name + `}`, named
	case 1:
		return `\P{` + name + `}`, neg(named)
	case 2:
		return `\p{^` + name + `}`, neg(named)
	case 3:
		return `\P{^` + name + `}`, named
	}
	return `\p{` + name + `}`, named
}

// classChar: one code point inside brackets
func (g *pgen) classChar() (string, int) {
	mx := int(unicode.MaxRune)
	if g.bytes {
		mx = 255
	}
	if g.rng.Intn(3) == 0 {
		c := g.codepoint(mx)
		return g.escapeOf(c), c
	}
	for {
		c := int(c10Lits[g.rng.Intn(len(c10Lits))])
		if c > mx || c == '-' {
			c = 'a' + g.rng.Intn(26)
		}
		return string(rune(c)), c
	}
}

// class generates a bracket expression; returns text and spec scls.
func (g *pgen) class(depth int) (string, string) {
	mx := int(unicode.MaxRune)
	if g.bytes {
		mx = 255
	}
	g.stats["class"]++
	var sb strings.Builder
	var items, subs []string
	sb.WriteByte('[')
	neg := g.rng.Intn(4) == 0
	if neg {
		sb.WriteByte('^')
	}
	if g.rng.Intn(12) == 0 {
		sb.WriteByte(']')
		items = append(items, "(r 93 93)")
	}
	n := 1 + g.rng.Intn(4)
	lastSingle := false
	for i := 0; i < n; i++ {
		switch g.rng.Intn(7) {
		case 0, 1:
			t, c := g.classChar()
			sb.WriteString(t)
			items = append(items, fmt.Sprintf("(r %d %d)", c, c))
			lastSingle = true
		case 2, 3, 4:
			t1, c1 := g.classChar()
			t2, c2 := g.classChar()
			if c2 < c1 {
				t1, c1, t2, c2 = t2, c2, t1, c1
			}
			if t2 == "]" || t2 == "[" {
				t2, c2 = t1, c1
			}
			sb.WriteString(t1 + "-" + t2)
			items = append(items, fmt.Sprintf("(r %d %d)", c1, c2))
			lastSingle = false
			g.stats["class_range"]++
		case 5:
			t, s := g.classEscape()
			sb.WriteString(t)
			items = append(items, s)
			lastSingle = false
		case 6:
			if g.rng.Intn(4) == 0 {
				sb.WriteByte('.')
				items = append(items, "(r 0 9)", fmt.Sprintf("(r 11 %d)", mx))
				lastSingle = false
			} else {
				t := []string{`\]`, `\[`, `\^`, `\-`, `\.`, `\\`}[g.rng.Intn(6)]
				sb.WriteString(t)
				items = append(items, fmt.Sprintf("(r %d %d)", t[1], t[1]))
				lastSingle = true
			}
		}
	}
	nsubs := 0
	if g.rng.Intn(3) == 0 {
		nsubs = 1 + g.rng.Intn(2)
	}
	if nsubs > 0 && lastSingle {
		// a subtraction is only recognised after a range or a set, not after a single character
		sb.WriteString("0-9")
		items = append(items, "(r 48 57)")
	}
	for i := 0; i < nsubs; i++ {
		g.stats["class_sub"]++
		if depth > 0 && g.rng.Intn(2) == 0 {
			t, s := g.class(depth - 1)
			sb.WriteString("-" + t)
			subs = append(subs, s)
		} else {
			t, s := g.classEscape()
			for strings.Contains(t, "{Zp}") || strings.Contains(t, "{Zl}") || strings.Contains(t, "{^Zp}") || strings.Contains(t, "{^Zl}") {
				// subtracting a class of exactly one code point is a recorded finding; kept to one dedicated form below
				t, s = g.classEscape()
			}
			if g.rng.Intn(40) == 0 && !g.bytes && i == nsubs-1 {
				t, s = `\p{Zp}`, "(named "+sx.Str("Zp")+")"
			}
			sb.WriteString("-" + t)
			subs = append(subs, s)
		}
	}
	if nsubs == 0 && g.rng.Intn(10) == 0 {
		sb.WriteByte('-')
		items = append(items, "(r 45 45)")
	}
	sb.WriteByte(']')
	return sb.String(), fmt.Sprintf("(cls %s %s %s)", sx.Bool(neg), sx.List(items...), sx.List(subs...))
}

// atom: text, spec, and whether a quantifier may follow directly
func (g *pgen) atom(depth int, fold *bool) (string, string) {
	f := sx.Bool(*fold)
	switch k := g.rng.Intn(12); {
	case k < 5:
		t, c := g.char(unicode.MaxRune)
		g.stats["atom_char"]++
		return t, fmt.Sprintf("(chr %s %d)", f, c)
	case k < 7:
		g.folded = *fold
		t, s := g.class(1)
		g.folded = false
		return t, fmt.Sprintf("(cl %s %s)", f, s)
	case k == 7:
		t, s := g.classEscape()
		return t, fmt.Sprintf("(cle %s %s %s)", f, sx.Bool(g.quirk), s)
	case k == 8:
		g.stats["atom_dot"]++
		return ".", "(dot)"
	case k == 9 && depth > 0:
		g.stats["atom_ext"]++
		name := []string{"eoi", "id", "_x1", "Hex"}[g.rng.Intn(4)]
		return "{" + name + "}", "(ext " + sx.Str(name) + ")"
	default:
		if depth <= 0 {
			t, c := g.char(unicode.MaxRune)
			return t, fmt.Sprintf("(chr %s %d)", f, c)
		}
		g.stats["atom_group"]++
		saved := *fold
		prefix := "("
		switch g.rng.Intn(6) {
		case 0:
			prefix = "(?i:"
			*fold = true
		case 1:
			prefix = "(?-i:"
			*fold = false
		case 2:
			prefix = "(?:"
		}
		t, s := g.alt(depth-1, fold)
		*fold = saved
		return prefix + t + ")", s
	}
}

func (g *pgen) quantified(depth int, fold *bool) (string, string) {
	t, s := g.atom(depth, fold)
	switch g.rng.Intn(9) {
	case 0:
		return t + "*", "(rep 0 -1 " + s + ")"
	case 1:
		return t + "+", "(rep 1 -1 " + s + ")"
	case 2:
		return t + "?", "(rep 0 1 " + s + ")"
	case 3:
		g.stats["quant_braces"]++
		mn := g.rng.Intn(4)
		switch g.rng.Intn(3) {
		case 0:
			return fmt.Sprintf("%s{%d}", t, mn), fmt.Sprintf("(rep %d %d %s)", mn, mn, s)
		case 1:
			return fmt.Sprintf("%s{%d,}", t, mn), fmt.Sprintf("(rep %d -1 %s)", mn, s)
		default:
			mx := mn + g.rng.Intn(18)
			return fmt.Sprintf("%s{%d,%d}", t, mn, mx), fmt.Sprintf("(rep %d %d %s)", mn, mx, s)
		}
	}
	return t, s
}

func (g *pgen) concat(depth int, fold *bool) (string, string) {
	n := g.rng.Intn(4)
	if g.rng.Intn(3) > 0 {
		n++
	}
	var sb strings.Builder
	var parts []string
	for i := 0; i < n; i++ {
		if g.rng.Intn(14) == 0 {
			g.stats["inline_flag"]++
			if g.rng.Intn(2) == 0 {
				sb.WriteString("(?i)")
				*fold = true
			} else {
				sb.WriteString("(?-i)")
				*fold = false
			}
		}
		t, s := g.quantified(depth, fold)
		sb.WriteString(t)
		parts = append(parts, s)
	}
	return sb.String(), "(cat " + strings.Join(parts, " ") + ")"
}

func (g *pgen) alt(depth int, fold *bool) (string, string) {
	n := 1
	if g.rng.Intn(4) == 0 {
		n = 2 + g.rng.Intn(2)
	}
	var ts, ss []string
	for i := 0; i < n; i++ {
		t, s := g.concat(depth, fold)
		ts = append(ts, t)
		ss = append(ss, s)
	}
	return strings.Join(ts, "|"), "(alt " + strings.Join(ss, " ") + ")"
}

// malformed returns a pattern that the documented syntax excludes, and the reason.
func (g *pgen) malformed() (string, string) {
	pick := func(xs ...string) string { return xs[g.rng.Intn(len(xs))] }
	nonhex := string(rune("GHIJKLMNOPQRSTUVWXYZghijklmnopqrstuvwxyz"[g.rng.Intn(40)]))
	hex := func() string { return string("0123456789abcdefABCDEF"[g.rng.Intn(22)]) }
	pre := pick("", "a", "ab", "x+")
	suf := pick("", "z", " q")
	switch g.rng.Intn(12) {
	case 0: // a non-hex letter where a hex digit is required
		return pre + pick(`\x`+nonhex+hex(), `\x`+hex()+nonhex, `\u`+hex()+hex()+nonhex+hex(), `\U0000`+nonhex+hex()+hex()+hex(),
			`\x{`+hex()+nonhex+`}`, `\x{`+nonhex+`}`, `[\x`+nonhex+hex()+`]`, `[a-\x`+hex()+nonhex+`]`) + suf, "non-hex-digit"
	case 1: // too few digits
		return pre + pick(`\x`+hex(), `\u`+hex()+hex()+hex(), `\U`+hex()+hex()+hex()+hex()+hex(), `\x{}`, `\x{`+hex()) + pick("", "z", " q", "}"[0:0]), "too-few-hex-digits"
	case 2: // beyond the last code point, also when a 32-bit accumulator would wrap
		v := pick("110000", "100000041", "FFFFFFFF", "80000041", "1000000000000000061", "7FFFFFFF", "200000", "00000000100000062")
		return pre + pick(`\x{`+v+`}`, `[\x{`+v+`}]`, `\U`+pick("00110000", "FFFFFFFF", "80000041", "7FFFFFFF", "F0000061", "ffffff9f")) + suf, "code-point-out-of-range"
	case 3:
		return pre + pick(`\08`, `\400`, `\777`, `\1`, `\12`, `\8`, `\9`, `\18a`, `[\400]`) + pick("", "z", " q"), "bad-octal"
	case 4:
		return pre + pick(`\p{Foo}`, `\pX`, `\p{}`, `\p{Lu`, `\p{L u}`, `\P{Nope}`, `[\p{Foo}]`, `\p{^}`, `\p`) + suf, "unknown-class"
	case 5:
		return pre + pick(`\q`, `\e`, `\é`, `\y`, `\Z`, `\i`, `[\q]`) + suf, "unknown-escape"
	case 6:
		return pre + pick(`[b-a]`, `[z-\x41]`, `[a-\d]`, `[\x62-\x61]`, `[9-0]`, `[\u0100-\xff]`, `[a-\p{L}]`) + suf, "inverted-or-invalid-range"
	case 7:
		return pick(`(a`, `a)`, `((a)`, `a|b)`, `(`, `)`, `(?i`, `(?i:a`, `a(b(c)`, `(?x)a`, `(?i-q:a)`), "unbalanced-parenthesis-or-flags"
	case 8:
		return pick(`a{2,1}`, `a{1`, `a{1,`, `a{1,2`, `{2}`, `({2})`, `a|{3}`, `a{99999999999999999999}`, `a{1,99999999999999999999}`, `a{1;2}`, `a{3,2}`, `(a|b){5,4}`, `a{1 }`), "malformed-quantifier"
	case 9:
		return pre + pick(`[abc`, `[`, `[a-`, `[^`, `[a-z-[b]`, `[\d`) , "missing-bracket"
	case 10:
		return pre + `\`, "trailing-backslash"
	default:
		return pre + pick("\xff", "\xc3", "a\xc3(", "\xe2\x82", "[\xff]", "\\Q\xff\\E", "{\xff}") + suf, "invalid-utf8"
	}
}

var c10Msgs = []struct {
	prefix string
	id     int
}{
	{"invalid rune", 1}, {"unknown perl flags", 2}, {"unexpected closing parenthesis", 3}, {"unexpected quantifier", 4},
	{"invalid external regexp reference", 5}, {"missing closing parenthesis", 6}, {"cannot parse quantifier", 7},
	{"invalid quantifier", 8}, {"missing closing bracket", 9}, {"invalid character \\u", 10}, {"invalid character class range", 11},
	{"invalid escape sequence (max", 13}, {"invalid escape sequence (exceeds \\uff", 16}, {"invalid escape sequence (exceeds unicode", 17},
	{"invalid escape sequence", 12}, {"invalid \\p{} range", 14}, {"unknown unicode character class", 15}, {"trailing backslash", 18},
}

func c10Parse(pattern string, opts lex.CharsetOptions) (out string) {
	defer func() {
		if r := recover(); r != nil {
			out = "(panic)"
		}
	}()
	re, err := lex.ParseRegexp(pattern, opts)
	if err != nil {
		pe, ok := err.(lex.ParseError)
		if !ok {
			return "(err 0 0 0)"
		}
		id := 0
		for _, m := range c10Msgs {
			if strings.HasPrefix(pe.Msg, m.prefix) {
				id = m.id
				break
			}
		}
		return fmt.Sprintf("(err %d %d %d)", id, pe.Offset, pe.EndOffset)
	}
	return "(ok " + lex.VerifDump(re) + ")"
}

func c10Mutate(rng *rand.Rand, s string) string {
	b := []byte(s)
	alphabet := []byte(`\[](){}|*+?-^.,:iQEpPxuU0189afGZ`)
	k := 1 + rng.Intn(3)
	for ; k > 0; k-- {
		pos := 0
		if len(b) > 0 {
			pos = rng.Intn(len(b) + 1)
		}
		ch := alphabet[rng.Intn(len(alphabet))]
		if rng.Intn(10) == 0 {
			ch = byte(rng.Intn(256))
		}
		switch op := rng.Intn(4); {
		case op == 0 && pos < len(b):
			b = append(b[:pos], b[pos+1:]...)
		case op == 1 && pos < len(b):
			b[pos] = ch
		case op == 2 && pos < len(b):
			b = b[:pos] // truncate
		default:
			b = append(b[:pos], append([]byte{ch}, b[pos:]...)...)
		}
	}
	return string(b)
}

func c10Patterns(rng *rand.Rand, n int, _ []string) {
	c10Tables()
	stats := map[string]int{}
	for i := 0; i < n; i++ {
		opts := lex.CharsetOptions{Fold: rng.Intn(2) == 0, ScanBytes: rng.Intn(3) == 0}
		g := &pgen{rng: rng, bytes: opts.ScanBytes, stats: stats}
		var pattern, spec string
		switch k := rng.Intn(10); {
		case k < 5:
			fold := opts.Fold
			t, s := g.alt(2, &fold)
			pattern, spec = t, "(spec "+s+")"
			stats["stream_documented"]++
		case k < 7:
			t, why := g.malformed()
			pattern, spec = t, "(mustfail "+why+")"
			stats["stream_malformed_"+why]++
		default:
			fold := opts.Fold
			t, _ := g.alt(2, &fold)
			if rng.Intn(5) == 0 {
				t = `a\Q` + t + `\E` + []string{"", "b", "*", "{2}"}[rng.Intn(4)]
			}
			pattern, spec = c10Mutate(rng, t), "(none)"
			stats["stream_mutated"]++
		}
		if !utf8.ValidString(pattern) {
			stats["invalid_utf8_pattern"]++
		}
		out := c10Parse(pattern, opts)
		stats["impl_"+out[1:strings.IndexAny(out, " )")]]++
		sx.Case("c10.parse", sx.List(sx.Bool(opts.Fold), sx.Bool(opts.ScanBytes), sx.Str(pattern), spec), out)
	}
	for k, v := range stats {
		sx.Stat(k, v)
	}
}
