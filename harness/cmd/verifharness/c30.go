package main

import (
	"context"
	"fmt"
	"math/rand"
	"os"
	"strings"

	"github.com/inspirer/textmapper/compiler"
	"github.com/inspirer/textmapper/gen"
	"github.com/inspirer/textmapper/syntax"
	"verif/harness/sx"
)

func init() {
	commands["c30.bison"] = c30Bison
	commands["c30.sample"] = func(rng *rand.Rand, n int, args []string) {
		text, _ := os.ReadFile(args[0])
		fmt.Println(c30Generate(string(text), nil))
	}
}

// c30Generate compiles a grammar text and returns the generated .y file ("" when there is none).
func c30Generate(text string, stats map[string]int) (string, *c30Facts) {
	g, err := compiler.Compile(context.Background(), "g30.tm", text, compiler.Params{})
	if err != nil || g == nil || g.Parser == nil || g.Parser.Tables == nil {
		if stats != nil {
			stats["not-compiled-or-conflicts"]++
		}
		return "", nil
	}
	w := &memWriter{files: map[string]string{}}
	if err := gen.Generate(g, w, gen.Options{}); err != nil {
		if stats != nil {
			stats["generate-error"]++
		}
		return "", nil
	}
	var y string
	for name, c := range w.files {
		if strings.HasSuffix(name, ".y") {
			y = c
		}
	}
	f := &c30Facts{}
	for _, s := range g.Syms {
		f.syms = append(f.syms, sx.List(sx.Str(s.Name), sx.Str(s.ID)))
	}
	f.tokens = g.NumTokens
	for _, in := range g.Parser.Inputs {
		f.inputs = append(f.inputs, sx.List(sx.Int(in.Nonterm), sx.Bool(in.NoEoi)))
	}
	for _, p := range g.Parser.Prec {
		ts := make([]int, len(p.Terminals))
		for i, t := range p.Terminals {
			ts[i] = int(t)
		}
		f.prec = append(f.prec, sx.List(sx.Int(int(p.Associativity)), sx.Ints(ts)))
	}
	for _, r := range g.Parser.Rules {
		var rhs []int
		for _, s := range r.RHS {
			if !s.IsStateMarker() {
				rhs = append(rhs, int(s))
			}
		}
		code := g.Parser.Actions[r.Action].Code != ""
		f.rules = append(f.rules, sx.List(sx.Int(int(r.LHS)), sx.Ints(rhs), sx.Int(int(r.Precedence)), implExprStr(r.Value), sx.Bool(code)))
	}
	for i, nt := range g.Parser.Nonterms {
		if nt.Value.Kind == syntax.Lookahead {
			var subs []string
			for _, s := range nt.Value.Sub {
				neg := s.Kind == syntax.LookaheadNot
				if neg {
					s = s.Sub[0]
				}
				subs = append(subs, sx.List(sx.Int(s.Symbol), sx.Bool(neg)))
			}
			f.las = append(f.las, sx.List(sx.Int(g.Parser.NumTerminals+i), sx.List(subs...)))
		}
	}
	return y, f
}

type c30Facts struct {
	syms   []string
	tokens int
	inputs []string
	prec   []string
	rules  []string
	las    []string
}

func (f *c30Facts) str() string {
	return sx.List(sx.List(f.syms...), sx.Int(f.tokens), sx.List(f.inputs...), sx.List(f.prec...), sx.List(f.rules...), sx.List(f.las...))
}

// ---- grammar texts ----

type tm30 struct {
	rng   *rand.Rand
	stats map[string]int
}

func (t *tm30) action() string {
	if t.rng.Intn(3) == 0 {
		return fmt.Sprintf(" { act%d(); }", t.rng.Intn(4))
	}
	return ""
}

// expression family: binary/unary operators with declared precedence; conflict-free by construction
func (t *tm30) exprGrammar() string {
	ops := []struct{ name, re string }{{"'+'", `\+`}, {"'-'", `-`}, {"'*'", `\*`}, {"'/'", `\/`}, {"'^'", `\^`}, {"'<'", `<`}, {"'='", `=`}}
	t.rng.Shuffle(len(ops), func(i, j int) { ops[i], ops[j] = ops[j], ops[i] })
	nops := 2 + t.rng.Intn(4)
	ops = ops[:nops]
	var sb strings.Builder
	sb.WriteString("language g30(go);\n\nlang = \"g30\"\npackage = \"verifgen/g30\"\nwriteBison = true\n")
	if t.rng.Intn(2) == 0 {
		sb.WriteString("eventBased = true\n")
	}
	sb.WriteString("\n:: lexer\n\nnum: /[0-9]+/\nid: /[a-z]+/\n'(': /\\(/\n')': /\\)/\n','  : /,/\n")
	for _, op := range ops {
		fmt.Fprintf(&sb, "%s: /%s/\n", op.name, op.re)
	}
	sb.WriteString("invalid_token:\n\n:: parser\n\n")
	// precedence levels
	i := 0
	var levels [][]string
	for i < nops {
		k := 1 + t.rng.Intn(2)
		if i+k > nops {
			k = nops - i
		}
		var names []string
		for _, op := range ops[i : i+k] {
			names = append(names, op.name)
		}
		levels = append(levels, names)
		assoc := []string{"%left", "%right", "%nonassoc"}[t.rng.Intn(3)]
		fmt.Fprintf(&sb, "%s %s;\n", assoc, strings.Join(names, " "))
		i += k
	}
	unary := t.rng.Intn(2) == 0
	if unary {
		t.stats["unary-prec"]++
		sb.WriteString("%right unary;\n") // a pseudo terminal used only in %prec
	}
	twoInputs := t.rng.Intn(3) == 0
	sb.WriteString("\n%input Expr")
	if twoInputs {
		sb.WriteString(", Args no-eoi")
	}
	sb.WriteString(";\n\nExpr :\n    num" + t.action() + "\n  | id" + t.action() + "\n")
	if t.rng.Intn(2) == 0 {
		sb.WriteString("  | id '(' Args? ')'" + t.action() + "\n")
	}
	sb.WriteString("  | '(' Expr ')'" + t.action() + "\n")
	for _, op := range ops {
		marker := ""
		if t.rng.Intn(5) == 0 {
			marker = " .afterOp"
			t.stats["state-marker"]++
		}
		arrow := ""
		if t.rng.Intn(4) == 0 {
			arrow = " -> Binary"
		}
		fmt.Fprintf(&sb, "  | Expr %s%s Expr%s%s\n", op.name, marker, t.action(), arrow)
	}
	if unary {
		op := ops[t.rng.Intn(nops)].name
		fmt.Fprintf(&sb, "  | %s Expr %%prec unary%s\n", op, t.action())
	}
	sb.WriteString(";\n\nArgs :\n    (Expr separator ',')+\n;\n")
	if unary {
		// the pseudo terminal needs a declaration
		return strings.Replace(sb.String(), "invalid_token:\n", "unary:\ninvalid_token:\n", 1)
	}
	return sb.String()
}

// statement family: lists, optionals, nested choices, mid-rule and final actions, lookaheads
func (t *tm30) stmtGrammar() string {
	var sb strings.Builder
	sb.WriteString("language g30(go);\n\nlang = \"g30\"\npackage = \"verifgen/g30\"\nwriteBison = true\n")
	sb.WriteString("\n:: lexer\n\nid: /[a-z]+/ (class)\nnum: /[0-9]+/\n'{': /\\{/\n'}': /\\}/\n';': /;/\n'=': /=/\n','  : /,/\nkw_if: /if/\nkw_else: /else/\nkw_let: /let/\nkw_do: /do/\nkw_for: /for/\ninvalid_token:\n\n:: parser\n\n")
	if t.rng.Intn(2) == 0 {
		sb.WriteString("%nonassoc kw_else;\n")
	}
	sb.WriteString("%input File")
	if t.rng.Intn(3) == 0 {
		sb.WriteString(", Stmt no-eoi")
	}
	sb.WriteString(";\n\nFile :\n    Stmt" + []string{"*", "+"}[t.rng.Intn(2)] + t.action() + "\n;\n\nStmt :\n")
	var alts []string
	mid := ""
	if t.rng.Intn(3) == 0 {
		mid = fmt.Sprintf(" { mid%d(); }", t.rng.Intn(2))
		t.stats["mid-rule-action"]++
	}
	alts = append(alts, "kw_let"+mid+" id '=' Value ';'"+t.action())
	alts = append(alts, "id '=' Value ';'"+t.action())
	if t.rng.Intn(2) == 0 {
		alts = append(alts, "'{' Stmt* '}'"+t.action())
	} else {
		alts = append(alts, "'{' (Stmt separator ';')* '}'"+t.action())
	}
	if t.rng.Intn(2) == 0 {
		t.stats["lookahead"]++
		alts = append(alts, "(?= IsBlock) kw_if Value '{' '}'"+t.action())
		alts = append(alts, "(?= !IsBlock) kw_if Value ';'"+t.action())
	}
	if t.rng.Intn(3) == 0 {
		alts = append(alts, ".recover ';'"+t.action())
		t.stats["state-marker"]++
	}
	elseOpt := t.rng.Intn(2) == 0
	if elseOpt {
		// an empty production that carries a precedence
		t.stats["empty-rule-with-prec"]++
		alts = append(alts, "kw_do Value ElseOpt ';'"+t.action())
	}
	if t.rng.Intn(2) == 0 {
		// a list over an anonymous choice: extracted into a nonterminal named Stmt$N
		t.stats["anonymous-choice-list"]++
		alts = append(alts, "kw_for id ('=' num | ',' id id)"+[]string{"*", "+"}[t.rng.Intn(2)]+" ';'"+t.action())
	}
	t.rng.Shuffle(len(alts), func(i, j int) { alts[i], alts[j] = alts[j], alts[i] })
	sb.WriteString("    " + strings.Join(alts, "\n  | ") + "\n;\n\nValue :\n    num" + t.action() + "\n  | id (',' | num)?" + t.action() + "\n")
	if t.rng.Intn(2) == 0 {
		sb.WriteString("  | %empty\n")
	}
	sb.WriteString(";\n\nIsBlock :\n    kw_if Value '{'\n;\n")
	if elseOpt {
		sb.WriteString("\nElseOpt :\n    %empty %prec kw_else\n  | kw_else Stmt\n;\n")
		if !strings.Contains(sb.String(), "%nonassoc kw_else;") {
			return strings.Replace(sb.String(), "%input File", "%left kw_else;\n%input File", 1)
		}
	}
	return sb.String()
}

func c30Bison(rng *rand.Rand, n int, _ []string) {
	stats := map[string]int{}
	t := &tm30{rng: rng, stats: stats}
	done := 0
	for attempt := 0; done < n && attempt < 6*n+20; attempt++ {
		var text string
		if rng.Intn(2) == 0 {
			text = t.exprGrammar()
		} else {
			text = t.stmtGrammar()
		}
		y, facts := c30Generate(text, stats)
		if facts == nil {
			if stats["not-compiled-or-conflicts"]+stats["generate-error"] <= 2 {
				_, err := compiler.Compile(context.Background(), "g30.tm", text, compiler.Params{})
				fmt.Fprintf(os.Stderr, "c30: skipped: %v\n%s\n", err, text)
			}
			continue
		}
		done++
		stats["grammars"]++
		// canonicalisation: the rewritten action code (lines indented by three tabs) is outside the model
		var kept []string
		for _, l := range strings.Split(y, "\n") {
			if !strings.HasPrefix(l, "\t\t\t") {
				kept = append(kept, l)
			}
		}
		sx.Case("c30.bison", facts.str(), sx.Str(strings.Join(kept, "\n")))
	}
	for k, v := range stats {
		sx.Stat(k, v)
	}
}
