package main

import (
	"fmt"
	"math/rand"
	"strings"

	"github.com/inspirer/textmapper/lex"
	"github.com/inspirer/textmapper/status"
	"verif/harness/sx"
)

// vnode is a synthetic status.SourceNode for rules built by the harness.
type vnode struct {
	name  string
	index int
}

func (n vnode) SourceRange() status.SourceRange {
	return status.SourceRange{Filename: n.name, Line: n.index + 1, Column: 1}
}

type mapResolver map[string]*lex.Pattern

func (r mapResolver) Resolve(name string) *lex.Pattern { return r[name] }

// patGen generates regular-expression text over a small alphabet.
type patGen struct {
	rng      *rand.Rand
	alphabet []string // escaped single-character atoms
	classes  []string // bracket expressions / escapes denoting sets
	eoi      bool
}

func bytePatGen(rng *rand.Rand, nonASCII bool) *patGen {
	g := &patGen{rng: rng,
		alphabet: []string{"a", "b", "c", "0", "1", "x", " ", `\n`, `\.`, "-"},
		classes:  []string{"[a-c]", "[0-9]", "[^a]", "[ab0]", `[\x00-\x20]`, `\d`, `\w`, "."},
	}
	if nonASCII {
		g.alphabet = append(g.alphabet, `\x80`, `\xff`, `\xc3`)
		g.classes = append(g.classes, `[\x80-\xbf]`, `[\x80-\xff]`, `[\xc2-\xdf]`, `[^\x00-\x7f]`, `[a\x90]`)
	}
	return g
}

func (g *patGen) atom() string {
	if g.rng.Intn(3) == 0 {
		return g.classes[g.rng.Intn(len(g.classes))]
	}
	return g.alphabet[g.rng.Intn(len(g.alphabet))]
}

func (g *patGen) gen(depth int) string {
	if depth <= 0 {
		return g.atom()
	}
	switch g.rng.Intn(9) {
	case 0, 1, 2:
		n := 1 + g.rng.Intn(3)
		var sb strings.Builder
		for i := 0; i < n; i++ {
			sb.WriteString(g.gen(depth - 1))
		}
		return sb.String()
	case 3:
		return "(" + g.gen(depth-1) + "|" + g.gen(depth-1) + ")"
	case 4:
		return g.quant(g.gen(depth-1)) + "*"
	case 5:
		return g.quant(g.gen(depth-1)) + "+"
	case 6:
		return g.quant(g.gen(depth-1)) + "?"
	case 7:
		lo := g.rng.Intn(3)
		return g.quant(g.gen(depth-1)) + fmt.Sprintf("{%d,%d}", lo, lo+g.rng.Intn(3))
	default:
		return g.atom()
	}
}

// quant parenthesises s unless it is a single atom, so that a quantifier applies to all of it.
func (g *patGen) quant(s string) string {
	for _, a := range g.alphabet {
		if s == a {
			return s
		}
	}
	for _, a := range g.classes {
		if s == a {
			return s
		}
	}
	return "(" + s + ")"
}

type genRule struct {
	pattern string
	action  int
	prec    int
	scs     []int
}

// compileRules mirrors what shiftdfa.Compile / compiler do to build lex.Rules.
func compileRules(rules []genRule, scanBytes, fold, allowBacktracking bool) (*lex.Tables, error) {
	var in []*lex.Rule
	res := mapResolver{}
	for i, r := range rules {
		re, err := lex.ParseRegexp(r.pattern, lex.CharsetOptions{ScanBytes: scanBytes, Fold: fold})
		if err != nil {
			return nil, fmt.Errorf("parse /%v/: %v", r.pattern, err)
		}
		scs := r.scs
		if scs == nil {
			scs = []int{0}
		}
		in = append(in, &lex.Rule{
			Pattern:         &lex.Pattern{Name: fmt.Sprintf("rule%v", i), RE: re, Text: r.pattern, Origin: vnode{"rules", i}},
			Resolver:        res,
			Precedence:      r.prec,
			Action:          r.action,
			StartConditions: scs,
			Origin:          vnode{"rules", i},
		})
	}
	return lex.Compile(in, scanBytes, allowBacktracking)
}

func tablesStr(t *lex.Tables) string {
	sm := make([]string, len(t.SymbolMap))
	for i, e := range t.SymbolMap {
		sm[i] = sx.List(sx.Int(int(e.Start)), sx.Int(int(e.Target)))
	}
	bt := make([]string, len(t.Backtrack))
	for i, c := range t.Backtrack {
		bt[i] = sx.List(sx.Int(c.Action), sx.Int(c.NextState))
	}
	return sx.List(sx.Bool(t.ScanBytes), sx.List(sm...), sx.Int(t.NumSymbols), sx.Ints(t.StateMap), sx.Ints(t.Dfa), sx.List(bt...))
}

func rulesStr(rules []genRule) string {
	parts := make([]string, len(rules))
	for i, r := range rules {
		parts[i] = sx.List(sx.Str(r.pattern), sx.Int(r.action), sx.Int(r.prec), sx.Ints(r.scs))
	}
	return sx.List(parts...)
}

func randText(rng *rand.Rand, alphabet []byte, maxLen int) []byte {
	n := rng.Intn(maxLen + 1)
	b := make([]byte, n)
	for i := range b {
		if rng.Intn(12) == 0 {
			b[i] = byte(rng.Intn(256))
		} else {
			b[i] = alphabet[rng.Intn(len(alphabet))]
		}
	}
	return b
}
