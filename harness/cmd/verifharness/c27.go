package main

import (
	"fmt"
	"math/rand"
	"strconv"
	"strings"

	"github.com/inspirer/textmapper/util/diff"
	"verif/harness/sx"
)

func init() {
	commands["c27.random"] = c27Random
	commands["c27.exhaustive"] = c27Exhaustive
}

func lineText(ids []int) string {
	parts := make([]string, len(ids))
	for i, id := range ids {
		parts[i] = "l" + strconv.Itoa(id)
	}
	return strings.Join(parts, "\n")
}

// parseDiff turns LineDiff's text back into structured hunks:
// (left right lsize rsize ((intro line) ...)); intro 0 ' ', 1 '-', 2 '+'; skipped marker = -k.
func parseDiff(out string) string {
	if out == "" {
		return "none"
	}
	var hunks []string
	var cur []string
	var header string
	flush := func() {
		if header != "" {
			hunks = append(hunks, sx.List(header, sx.List(cur...)))
		}
		cur = nil
	}
	lines := strings.Split(strings.TrimSuffix(out, "\n"), "\n")
	for _, ln := range lines {
		if strings.HasPrefix(ln, "@@ ") {
			flush()
			var l, ls, r, rs int
			fmt.Sscanf(ln, "@@ -%d,%d +%d,%d @@", &l, &ls, &r, &rs)
			header = fmt.Sprintf("%d %d %d %d", l, r, ls, rs)
			continue
		}
		intro := map[byte]int{' ': 0, '-': 1, '+': 2}[ln[0]]
		body := ln[1:]
		var id int
		if strings.HasPrefix(body, "  ... ") {
			fmt.Sscanf(body, "  ... %d lines skipped ...", &id)
			id = -id
		} else {
			id, _ = strconv.Atoi(strings.TrimPrefix(body, "l"))
		}
		cur = append(cur, sx.List(sx.Int(intro), sx.Int(id)))
	}
	flush()
	// flatten "(l r ls rs) entries" into (l r ls rs entries)
	for i, h := range hunks {
		hunks[i] = strings.Replace(h, "(", "(", 1)
	}
	return sx.List("some", sx.List(hunks...))
}

func c27Cases(a, b []int) {
	in := sx.List(sx.Ints(a), sx.Ints(b))
	chunks := diff.VerifLCS(append([]int{}, a...), append([]int{}, b...))
	parts := make([]string, len(chunks))
	for i, c := range chunks {
		parts[i] = sx.Ints(c[:])
	}
	sx.Case("c27.lcs", in, sx.List(parts...))
	if len(a) > 0 && len(b) > 0 { // strings.Split("") yields one empty line; ids start at "l0"
		out := func() (out string) {
			defer func() {
				if r := recover(); r != nil {
					out = "panic"
				}
			}()
			return parseDiff(diff.LineDiff(lineText(a), lineText(b)))
		}()
		sx.Case("c27.linediff", in, out)
	}
}

func c27Exhaustive(_ *rand.Rand, k int, _ []string) {
	// all pairs of sequences of length <= k over 3 symbols
	var seqs [][]int
	var rec func(cur []int)
	rec = func(cur []int) {
		seqs = append(seqs, append([]int{}, cur...))
		if len(cur) >= k {
			return
		}
		for s := 0; s < 3; s++ {
			rec(append(cur, s))
		}
	}
	rec(nil)
	for _, a := range seqs {
		for _, b := range seqs {
			c27Cases(a, b)
		}
	}
}

func c27Random(rng *rand.Rand, n int, _ []string) {
	for i := 0; i < n; i++ {
		alpha := 2 + rng.Intn(6)
		la := rng.Intn(14)
		if rng.Intn(6) == 0 {
			la = 15 + rng.Intn(40)
		}
		a := make([]int, la)
		for j := range a {
			a[j] = rng.Intn(alpha)
		}
		var b []int
		switch rng.Intn(3) {
		case 0: // independent
			b = make([]int, rng.Intn(14))
			for j := range b {
				b[j] = rng.Intn(alpha)
			}
		default: // a mutated copy of a (the realistic case for diffs): edits, block moves, long unique runs
			b = append(b, a...)
			edits := rng.Intn(5)
			for e := 0; e < edits; e++ {
				switch rng.Intn(4) {
				case 0:
					if len(b) > 0 {
						p := rng.Intn(len(b))
						b = append(b[:p:p], b[p+1:]...)
					}
				case 1:
					p := rng.Intn(len(b) + 1)
					b = append(b[:p:p], append([]int{rng.Intn(alpha + 2)}, b[p:]...)...)
				case 2:
					if len(b) > 0 {
						b[rng.Intn(len(b))] = rng.Intn(alpha + 2)
					}
				default:
					p := rng.Intn(len(b) + 1)
					run := make([]int, rng.Intn(20))
					for j := range run {
						run[j] = 100 + rng.Intn(50)
					}
					b = append(b[:p:p], append(run, b[p:]...)...)
				}
			}
		}
		c27Cases(a, b)
	}
}
