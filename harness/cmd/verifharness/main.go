// verifharness runs the implementation (built from /repo's working tree) on generated cases and
// prints one line per case: id \t kind \t input \t implementation-output.
package main

import (
	"flag"
	"fmt"
	"math/rand"
	"os"

	"verif/harness/sx"
)

type cmdFunc func(rng *rand.Rand, n int, args []string)

var commands = map[string]cmdFunc{}

func main() {
	if len(os.Args) < 2 {
		fmt.Fprintln(os.Stderr, "usage: verifharness <command> [-seed N] [-n N] [args]")
		os.Exit(2)
	}
	name := os.Args[1]
	fs := flag.NewFlagSet(name, flag.ExitOnError)
	seed := fs.Int64("seed", 1, "PRNG seed")
	n := fs.Int("n", 100, "number of cases")
	fs.Parse(os.Args[2:])
	f, ok := commands[name]
	if !ok {
		fmt.Fprintf(os.Stderr, "unknown command %q\n", name)
		os.Exit(2)
	}
	rng := rand.New(rand.NewSource(*seed))
	f(rng, *n, fs.Args())
	sx.Flush()
}

func os_stderr() *os.File { return os.Stderr }

func exitCode(c int) {
	sx.Flush()
	os.Exit(c)
}
