package main

import (
	"fmt"
	"math/rand"
	"strings"

	"github.com/inspirer/textmapper/lalr"
	"verif/harness/sx"
)

func init() {
	commands["c29.random"] = c29Random
}

// cancelDriver: VerifRun(mode, input); mode = "<input>:<cancel at poll number, 0 = never>:<cancel after this many events, 0 = never>".
// The context wrapper logs, for every poll of Done(), whether the context was done at that moment.
func cancelDriver(g *cfg) func(p *genPkg) string {
	return func(p *genPkg) string {
		var sb strings.Builder
		fmt.Fprintf(&sb, `package %s

import (
	"context"
	"fmt"
	"strings"
)

type verifCtx struct {
	context.Context
	cancel       func()
	calls        int
	cancelAtCall int
	log          []string
}

func (c *verifCtx) Done() <-chan struct{} {
	c.calls++
	if c.cancelAtCall > 0 && c.calls >= c.cancelAtCall {
		c.cancel()
	}
	ch := c.Context.Done()
	select {
	case <-ch:
		c.log = append(c.log, "1")
	default:
		c.log = append(c.log, "0")
	}
	return ch
}

func VerifRun(mode string, input []byte) string {
	var idx, atCall, afterEvents int
	fmt.Sscanf(mode, "%%d:%%d:%%d", &idx, &atCall, &afterEvents)
	inner, cancel := context.WithCancel(context.Background())
	defer cancel()
	ctx := &verifCtx{Context: inner, cancel: cancel, cancelAtCall: atCall}
	var l Lexer
	l.Init(string(input))
	var p Parser
	var ev strings.Builder
	nev := 0
	p.Init(func(t NodeType, offset, endoffset int) {
		fmt.Fprintf(&ev, " (%%d %%d %%d)", int(t), offset, endoffset)
		nev++
		if afterEvents > 0 && nev == afterEvents {
			cancel()
		}
	})
	var err error
	switch idx {
`, p.name)
		for i, in := range g.inputs {
			fn := "Parse"
			if len(g.inputs) > 1 {
				fn = "Parse" + g.symName(in.nt)
			}
			fmt.Fprintf(&sb, "\tcase %d:\n\t\terr = p.%s(ctx, &l)\n", i, fn)
		}
		sb.WriteString(`	}
	res := "accept"
	if err == context.Canceled {
		res = "ctxerr"
	} else if se, ok := err.(SyntaxError); ok {
		res = fmt.Sprintf("syntax %d %d", se.Offset, se.Endoffset)
	} else if err != nil {
		res = "other"
	}
	polls := ""
	for _, b := range ctx.log {
		polls += " " + b
	}
	return fmt.Sprintf("(%s (polls%s) (events%s))", res, polls, ev.String())
}
`)
		return sb.String()
	}
}

// listCFG: N0 is a (left- or right-recursive) list of N1 items, so that sentences can be arbitrarily long;
// N1.. are small random rules.
func listCFG(rng *rand.Rand) *cfg {
	g := &cfg{nterms: 3 + rng.Intn(3), nnonterms: 2 + rng.Intn(2)}
	n0, n1 := g.nterms, g.nterms+1
	switch rng.Intn(3) {
	case 0:
		g.rules = append(g.rules, cfgRule{lhs: n0, rhs: []int{n0, n1}}, cfgRule{lhs: n0, rhs: []int{n1}})
	case 1:
		g.rules = append(g.rules, cfgRule{lhs: n0, rhs: []int{n1, n0}}, cfgRule{lhs: n0, rhs: []int{n1}})
	default:
		sep := 1 + rng.Intn(g.nterms-1)
		g.rules = append(g.rules, cfgRule{lhs: n0, rhs: []int{n0, sep, n1}}, cfgRule{lhs: n0, rhs: nil})
	}
	for nt := 1; nt < g.nnonterms; nt++ {
		for r := 1 + rng.Intn(3); r > 0; r-- {
			var rhs []int
			for k := rng.Intn(4); k > 0; k-- {
				if nt+1 < g.nnonterms && rng.Intn(4) == 0 {
					rhs = append(rhs, g.nterms+nt+1)
				} else {
					rhs = append(rhs, 1+rng.Intn(g.nterms-1))
				}
			}
			if nt == 1 && len(rhs) == 0 {
				rhs = []int{1 + rng.Intn(g.nterms-1)}
			}
			g.rules = append(g.rules, cfgRule{lhs: g.nterms + nt, rhs: rhs})
		}
	}
	g.inputs = []cfgInput{{nt: n0, eoi: true}}
	return g.reduced()
}

// longTree: while the budget lasts, the list nonterminal N0 keeps choosing its recursive rule.
func (g *cfg) longTree(rng *rand.Rand, sym int, budget *int) *dtree {
	if sym < g.nterms {
		return &dtree{rule: -1, sym: sym}
	}
	var cands []int
	for i, r := range g.rules {
		if r.lhs == sym {
			cands = append(cands, i)
		}
	}
	if len(cands) == 0 {
		return nil
	}
	ri := cands[rng.Intn(len(cands))]
	if sym == g.nterms {
		if *budget > 0 {
			ri = cands[0] // the recursive rule
			*budget--
		} else {
			ri = cands[len(cands)-1]
		}
	}
	t := &dtree{rule: ri, sym: sym}
	for _, s := range g.rules[ri].rhs {
		c := g.longTree(rng, s, budget)
		if c == nil {
			return nil
		}
		t.children = append(t.children, c)
	}
	return t
}

// exactListTree builds a derivation of N0 (a list built by listCFG) with exactly `target` tokens, if the item
// lengths allow it.
func (g *cfg) exactListTree(rng *rand.Rand, target int) *dtree {
	n0, n1 := g.nterms, g.nterms+1
	rec, base := g.rules[0], g.rules[1]
	prod := g.productive()
	if rec.lhs != n0 || base.lhs != n0 {
		return nil
	}
	item := func() *dtree {
		b := 3
		return g.randomTree(rng, n1, prod, &b)
	}
	var items []*dtree
	total := 0
	sepLen := 0
	if len(rec.rhs) == 3 {
		sepLen = 1
	}
	for guard := 0; guard < 20000; guard++ {
		it := item()
		if it == nil {
			return nil
		}
		ln := len(it.yield(nil)) + sepLen
		if ln == 0 {
			continue
		}
		if total+ln > target {
			continue
		}
		items = append(items, it)
		total += ln
		if total == target {
			break
		}
	}
	if total != target || len(items) == 0 {
		return nil
	}
	leaf := func(t int) *dtree { return &dtree{rule: -1, sym: t} }
	switch {
	case len(rec.rhs) == 2 && rec.rhs[0] == n0: // N0 -> N0 N1 | N1
		t := &dtree{rule: 1, sym: n0, children: []*dtree{items[0]}}
		for _, it := range items[1:] {
			t = &dtree{rule: 0, sym: n0, children: []*dtree{t, it}}
		}
		return t
	case len(rec.rhs) == 2: // N0 -> N1 N0 | N1
		t := &dtree{rule: 1, sym: n0, children: []*dtree{items[len(items)-1]}}
		for i := len(items) - 2; i >= 0; i-- {
			t = &dtree{rule: 0, sym: n0, children: []*dtree{items[i], t}}
		}
		return t
	default: // N0 -> N0 sep N1 | %empty
		t := &dtree{rule: 1, sym: n0}
		for _, it := range items {
			t = &dtree{rule: 0, sym: n0, children: []*dtree{t, leaf(rec.rhs[1]), it}}
		}
		return t
	}
}

func c29Random(rng *rand.Rand, n int, args []string) {
	typeName := func(i int) string { return fmt.Sprintf("T%02d", i) }
	const ntypes = 4
	var pkgs []*genPkg
	var grammars []*cfg
	var fixws []bool
	type sample struct {
		text []byte
		toks []int
		offs [][2]int
		idx  int
	}
	var samples [][]sample
	tried := 0
	for len(pkgs) < n && tried < 200*n {
		tried++
		g := listCFG(rng)
		if g == nil || len(g.rules) == 0 {
			continue
		}
		t, err := lalr.Compile(g.toLalr(), lalr.Options{})
		if err != nil || t == nil || t.SR+t.RR > 0 {
			continue
		}
		// long sentences are needed: the context is polled every 512 shifts
		var ss []sample
		for idx, in := range g.inputs {
			for s := 0; s < 6 && len(ss) < 3; s++ {
				budget := 550 + rng.Intn(1200)
				tr := g.longTree(rng, in.nt, &budget)
				if tr == nil {
					continue
				}
				toks := tr.yield(nil)
				if len(toks) < 520 || len(toks) > 2600 {
					continue
				}
				if rng.Intn(3) == 0 { // break the sentence somewhere
					p := rng.Intn(len(toks))
					toks[p] = 1 + rng.Intn(g.nterms-1)
				}
				var text []byte
				var offs [][2]int
				for _, t := range toks {
					if rng.Intn(6) == 0 {
						text = append(text, ' ')
					}
					offs = append(offs, [2]int{len(text), len(text) + 1})
					text = append(text, g.termChar(t))
				}
				ss = append(ss, sample{text: text, toks: toks, offs: offs, idx: idx})
			}
		}
		// a sentence whose end-of-input shift falls exactly on a poll (tokens+1 is a multiple of 512)
		if ex := g.exactListTree(rng, 512*(1+rng.Intn(3))-1); ex != nil && len(ss) > 0 {
			toks := ex.yield(nil)
			var text []byte
			var offs [][2]int
			for _, t := range toks {
				offs = append(offs, [2]int{len(text), len(text) + 1})
				text = append(text, g.termChar(t))
			}
			ss = append(ss, sample{text: text, toks: toks, offs: offs, idx: 0})
		}
		if len(ss) == 0 {
			continue
		}
		ar := make([][]arrow, len(g.rules))
		for i, r := range g.rules {
			for _, a := range genArrows(rng, len(r.rhs), ntypes) {
				if a.start == a.end && a.start == len(r.rhs) && len(r.rhs) > 0 {
					continue
				}
				ar[i] = append(ar[i], a)
			}
		}
		o := tmOpts{optimize: rng.Intn(2) == 0, extra: []string{"cancellable = true"}}
		fw := rng.Intn(2) == 0
		if fw {
			o.extra = append(o.extra, "fixWhitespace = true")
		}
		name := fmt.Sprintf("x%04d", len(pkgs))
		pkgs = append(pkgs, &genPkg{name: name, tm: g.toTMArrows(name, o, ar, typeName), driver: cancelDriver(g)})
		grammars = append(grammars, g)
		fixws = append(fixws, fw)
		samples = append(samples, ss)
	}
	compileAll(pkgs)
	var reqs []genRequest
	type reqInfo struct{ pkg, sample int }
	var infos []reqInfo
	modesOf := func(s sample) []string {
		ms := []string{fmt.Sprintf("%d:0:0", s.idx)}
		for _, c := range []int{1, 2, 3, 1 + rng.Intn(5)} {
			ms = append(ms, fmt.Sprintf("%d:%d:0", s.idx, c))
		}
		for k := 0; k < 3; k++ {
			ms = append(ms, fmt.Sprintf("%d:0:%d", s.idx, 1+rng.Intn(2*len(s.toks))))
		}
		return ms
	}
	var modes [][][]string
	for i, p := range pkgs {
		modes = append(modes, nil)
		if p.err != nil {
			continue
		}
		for j, s := range samples[i] {
			ms := modesOf(s)
			modes[i] = append(modes[i], ms)
			for _, m := range ms {
				reqs = append(reqs, genRequest{pkg: p.name, mode: m, input: s.text})
				infos = append(infos, reqInfo{i, j})
			}
		}
	}
	answers, err := buildAndRun(pkgs, reqs)
	if err != nil {
		fmt.Fprintln(os_stderr(), "c29:", err)
		exitCode(3)
	}
	ai := 0
	for i, p := range pkgs {
		if p.err != nil {
			sx.Case("c29.nocompile", sx.List(sx.Str(p.tm), sx.Str(firstLines(p.err.Error(), 3))), "failed")
			continue
		}
		g := grammars[i]
		gp := p.g.Parser
		tmap := make([]int, g.nterms)
		for t := 1; t < g.nterms; t++ {
			for _, sym := range p.g.Syms {
				if sym.Name == fmt.Sprintf("'%c'", g.termChar(t)) {
					tmap[t] = sym.Index
				}
			}
		}
		typeID := map[string]int{}
		if gp.Types != nil {
			for k, rt := range gp.Types.RangeTypes {
				typeID[rt.Name] = k + 1
			}
		}
		evs := make([]string, len(gp.Rules))
		for k, r := range gp.Rules {
			ty := 0
			if r.Type >= 0 {
				ty = typeID[gp.Types.RangeTypes[r.Type].Name]
			}
			var reps []string
			if r.Action > 0 {
				for _, rep := range gp.Actions[r.Action].Report {
					reps = append(reps, sx.List(sx.Int(rep.Start), sx.Int(rep.End), sx.Int(typeID[gp.Types.RangeTypes[rep.Type].Name])))
				}
			}
			evs[k] = sx.List(sx.Int(ty), sx.List(reps...), sx.Bool(p.g.HasTrailingNulls(*r)))
		}
		for j, s := range samples[i] {
			toks := make([]string, len(s.toks))
			for q, t := range s.toks {
				toks[q] = sx.List(sx.Int(tmap[t]), sx.Int(s.offs[q][0]), sx.Int(s.offs[q][1]))
			}
			var outs []string
			for range modes[i][j] {
				outs = append(outs, answers[ai])
				ai++
			}
			in := sx.List(tmGrammarStr(p.g), tablesOf(gp.Tables), sx.List(evs...), sx.Bool(fixws[i]), sx.Int(s.idx), sx.Int(len(s.text)), sx.List(toks...))
			sx.Case("c29.cancel", in, sx.List(outs...))
			sx.Stat("sentence_tokens", len(s.toks))
		}
	}
	sx.Stat("grammars_tried", tried)
}
