package main

import (
	"fmt"
	"math/rand"

	"github.com/inspirer/textmapper/shiftdfa"
	"verif/harness/sx"
)

func init() {
	commands["c24.random"] = c24Random
}

func u64s(xs []uint64) string {
	parts := make([]string, len(xs))
	for i, x := range xs {
		parts[i] = fmt.Sprintf("%d", x)
	}
	return sx.List(parts...)
}

func c24Random(rng *rand.Rand, n int, _ []string) {
	alphabet := []byte("abc01x \n.-\x80\xff\xc3\x90\xbf")
	packed, compiled := 0, 0
	for i := 0; i < n; i++ {
		nonASCII := rng.Intn(3) == 0
		g := bytePatGen(rng, nonASCII)
		nrules := 1 + rng.Intn(3)
		var rules []genRule
		for j := 0; j < nrules; j++ {
			rules = append(rules, genRule{pattern: g.gen(rng.Intn(3)), action: 1 + rng.Intn(6), prec: rng.Intn(2)})
		}
		if rng.Intn(8) == 0 {
			rules = append(rules, genRule{pattern: g.atom() + "+", action: 32 + rng.Intn(3)}) // too many actions
		}
		t, err := compileRules(rules, true, false, false)
		if err != nil || t == nil {
			continue
		}
		compiled++
		in := tablesStr(t)
		s, perr := shiftdfa.Pack(t)
		if perr != nil {
			sx.Case("c24.pack", in, "err")
			continue
		}
		packed++
		table, onEoi := s.VerifTables()
		eoi := make([]uint64, len(onEoi))
		for k, v := range onEoi {
			eoi[k] = uint64(v)
		}
		sx.Case("c24.pack", in, sx.List("ok", u64s(table[:]), u64s(eoi)))
		sx.Case("c24.wf", in, "1") // hypothesis of C24_pack_scan_agrees holds for these real tables
		var texts, outs []string
		for k := 0; k < 12; k++ {
			txt := randText(rng, alphabet, 6)
			size, tok := s.Scan(string(txt))
			lsize, lact := t.Scan(0, string(txt))
			texts = append(texts, sx.Bytes(txt))
			outs = append(outs, sx.List(sx.Int(size), sx.Int(int(tok)), sx.Int(lsize), sx.Int(lact)))
		}
		sx.Case("c24.scan", sx.List(in, sx.List(texts...)), sx.List(outs...))
	}
	sx.Stat("compiled", compiled)
	sx.Stat("packed", packed)
}
