package main

// C21 (kind c21.infer) — the step-by-step model of syntax/types.go against the real compiler.
//
// Random eventFields grammars (the c21.random generator plus a "wild" mode with recursive references, list
// separators, code blocks, state markers and sets). The arguments the compiler passes to syntax.ExtractTypes
// are obtained through the hook compiler.VerifTypesInput, dumped as the model's input, and the result of
// ExtractTypes (for grammars the whole compiler accepts: grammar.Parser.Types itself) is the expected output.

import (
	"context"
	"fmt"
	"math/rand"
	"strings"

	"github.com/inspirer/textmapper/compiler"
	"github.com/inspirer/textmapper/status"
	"github.com/inspirer/textmapper/syntax"
	"verif/harness/sx"
)

func init() {
	commands["c21.infer"] = c21Infer
}

func c21DumpExpr(e *syntax.Expr) string {
	switch e.Kind {
	case syntax.Empty, syntax.Set, syntax.StateMarker, syntax.Command:
		return "(e)"
	case syntax.Lookahead, syntax.LookaheadNot:
		return "(k)"
	case syntax.Reference:
		return sx.List("r", sx.Int(e.Symbol))
	case syntax.Arrow:
		return sx.List("a", sx.Str(e.Name), c21DumpExpr(e.Sub[0]))
	case syntax.Sequence, syntax.Choice:
		parts := []string{"q"}
		if e.Kind == syntax.Choice {
			parts[0] = "c"
		}
		for _, s := range e.Sub {
			parts = append(parts, c21DumpExpr(s))
		}
		return sx.List(parts...)
	case syntax.Assign:
		return sx.List("s", sx.Str(e.Name), c21DumpExpr(e.Sub[0]))
	case syntax.Append:
		return sx.List("p", sx.Str(e.Name), c21DumpExpr(e.Sub[0]))
	case syntax.Optional:
		return sx.List("o", c21DumpExpr(e.Sub[0]))
	case syntax.List:
		sep := "(e)"
		if len(e.Sub) > 1 {
			sep = c21DumpExpr(e.Sub[1])
		}
		return sx.List("l", c21DumpExpr(e.Sub[0]), sep, sx.Bool(e.ListFlags&syntax.OneOrMore != 0))
	case syntax.Prec:
		return sx.List("x", c21DumpExpr(e.Sub[0]))
	}
	return "(unsupported)"
}

func c21DumpModel(m *syntax.Model, tokens []syntax.RangeToken) string {
	nts := make([]string, len(m.Nonterms))
	for i, nt := range m.Nonterms {
		nts[i] = c21DumpExpr(nt.Value)
	}
	inputs := make([]string, len(m.Inputs))
	for i, inp := range m.Inputs {
		inputs[i] = sx.List(sx.Int(inp.Nonterm), sx.Bool(inp.Synthetic))
	}
	cats := make([]string, len(m.Cats))
	for i, c := range m.Cats {
		cats[i] = sx.Str(c)
	}
	toks := make([]string, len(tokens))
	for i, t := range tokens {
		toks[i] = sx.List(sx.Int(t.Token), sx.Str(t.Name))
	}
	return sx.List(sx.Int(len(m.Terminals)), sx.List(nts...), sx.List(inputs...), sx.List(cats...), sx.List(toks...))
}

func c21DumpTypes(t *syntax.Types, err error) string {
	rts := make([]string, len(t.RangeTypes))
	for i, rt := range t.RangeTypes {
		fs := make([]string, len(rt.Fields))
		for j, f := range rt.Fields {
			sel := make([]string, len(f.Selector))
			for k, s := range f.Selector {
				sel[k] = sx.Str(s)
			}
			fs[j] = sx.List(sx.Str(f.Name), sx.List(sel...), sx.Int(f.FetchAfter), sx.Bool(f.IsRequired), sx.Bool(f.IsList))
		}
		rts[i] = sx.List(sx.Str(rt.Name), sx.List(fs...))
	}
	cs := make([]string, len(t.Categories))
	for i, c := range t.Categories {
		ts := make([]string, len(c.Types))
		for k, s := range c.Types {
			ts[k] = sx.Str(s)
		}
		cs[i] = sx.List(sx.Str(c.Name), sx.List(ts...))
	}
	var assign, cat, overlap, other bool
	if err != nil {
		for _, e := range status.FromError(err) {
			switch {
			case strings.Contains(e.Msg, "multiple fields found behind an assignment"):
				assign = true
			case strings.Contains(e.Msg, "must produce exactly one node"), strings.Contains(e.Msg, "inside a category expression"):
				cat = true
			case strings.Contains(e.Msg, "contain overlapping sets of node types"):
				overlap = true
			default:
				other = true
			}
		}
	}
	flags := []string{"err", sx.Bool(assign), sx.Bool(cat), sx.Bool(overlap)}
	if other {
		flags = append(flags, "other")
	}
	return sx.List(sx.List(rts...), sx.List(cs...), sx.List(flags...))
}

var lastInferStats map[string]int
var inferStats = map[string]int{}

// c21InferStats: which parts of ExtractTypes a grammar exercises (distribution statistics only)
func c21InferStats(m *syntax.Model, t *syntax.Types) map[string]int {
	st := map[string]int{}
	// recursive nonterminals (outside arrows: the cycle rule of nontermPhrase)
	state := make([]int, len(m.Nonterms))
	cyclic := false
	var visit func(e *syntax.Expr)
	var enter func(nt int)
	visit = func(e *syntax.Expr) {
		switch e.Kind {
		case syntax.Arrow, syntax.Lookahead, syntax.LookaheadNot:
			return
		case syntax.Reference:
			if nt := e.Symbol - len(m.Terminals); nt >= 0 {
				enter(nt)
			}
		}
		for _, s := range e.Sub {
			visit(s)
		}
	}
	enter = func(nt int) {
		if state[nt] == 1 {
			cyclic = true
		}
		if state[nt] != 0 {
			return
		}
		state[nt] = 1
		visit(m.Nonterms[nt].Value)
		state[nt] = 2
	}
	for i := range m.Nonterms {
		enter(i)
	}
	if cyclic {
		st["infer_models_with_recursion_outside_arrows"] = 1
	}
	for _, rt := range t.RangeTypes {
		for _, f := range rt.Fields {
			if f.FetchAfter >= 0 {
				st["infer_fields_fetched_after_another"]++
			}
			if f.IsList {
				st["infer_list_fields"]++
			}
			if len(f.Selector) > 1 {
				st["infer_fields_with_merged_selectors"]++
			}
		}
		if len(rt.Fields) >= 3 {
			st["infer_types_with_3_or_more_fields"]++
		}
	}
	for _, c := range t.Categories {
		st["infer_categories"]++
		if c.Name == "TokenSet" && !contains(m.Cats, "TokenSet") {
			st["infer_synthetic_tokenset"]++
		}
	}
	return st
}

func contains(l []string, s string) bool {
	for _, x := range l {
		if x == s {
			return true
		}
	}
	return false
}

func c21Infer(rng *rand.Rand, n int, args []string) {
	ctx := context.Background()
	loaderRejected, accepted, withErr, recursive, fullOK, disagree := 0, 0, 0, 0, 0, 0
	errKinds := map[string]int{}
	for i := 0; i < n; i++ {
		wild := i%2 == 1
		g := genC21GramOpt(rng, wild)
		name := fmt.Sprintf("i%04d", i)
		tm := g.toTM(name)
		if i%5 == 4 {
			// recursion that runs through a chain of arrow-free nonterminals (the lowLink of the chain has to travel back)
			wild = true
			tm = c21CycleTM(rng, name)
		}
		var dump, out string
		var bad bool
		var typesCase []string
		func() {
			defer func() {
				if r := recover(); r != nil {
					bad = true
					sx.Case("c21.gen", sx.List(sx.Str(tm), sx.Str(fmt.Sprint("panic: ", r))), "failed")
				}
			}()
			m, tokens, opts, err := compiler.VerifTypesInput(ctx, name+".tm", tm)
			if err != nil || m == nil {
				loaderRejected++
				bad = true
				return
			}
			dump = c21DumpModel(m, tokens)
			types, terr := syntax.ExtractTypes(m, tokens, opts)
			lastInferStats = c21InferStats(m, types)
			out = c21DumpTypes(types, terr)
			if terr == nil && !wild {
				// ExtractTypes accepted the grammar: it claims the inferred fields fit every tree (validated by the
				// proved-sound validator like the c21.types cases of c21.random; LALR conflicts do not matter here)
				ones := make([]int, len(types.RangeTypes))
				for j := range ones {
					ones[j] = 1
				}
				typesCase = []string{sx.List(c21TypesStr(types, g.injName, g.cats), g.bodiesStr(types)), sx.Ints(ones)}
			}
			if terr != nil {
				withErr++
				for _, e := range status.FromError(terr) {
					errKinds[strings.SplitN(strings.TrimLeft(e.Msg, "'"), " ", 2)[0]]++
				}
			} else {
				accepted++
			}
			// the whole compiler: when it accepts the grammar its Parser.Types must be what ExtractTypes returned
			full, ferr := compiler.Compile(ctx, name+".tm", tm, compiler.Params{})
			if ferr == nil && full != nil && full.Parser != nil && full.Parser.Types != nil {
				fullOK++
				if got := c21DumpTypes(full.Parser.Types, nil); got != out {
					disagree++
					out = sx.List("parser-types-differ", got)
				}
			}
		}()
		if bad {
			continue
		}
		if wild {
			recursive++
		}
		for k, v := range lastInferStats {
			inferStats[k] += v
		}
		sx.Case("c21.infer", dump, out)
		if typesCase != nil {
			sx.Case("c21.types", typesCase[0], typesCase[1])
		}
	}
	for k, v := range inferStats {
		sx.Stat(k, v)
	}
	sx.Stat("infer_loader_rejected", loaderRejected)
	sx.Stat("infer_accepted", accepted)
	sx.Stat("infer_with_errors", withErr)
	sx.Stat("infer_wild_grammars", recursive)
	sx.Stat("infer_whole_compiler_accepted", fullOK)
	sx.Stat("infer_parser_types_differ", disagree)
}

// c21CycleTM: N0 -> Root over a cycle K0 -> K1 -> ... -> K(L-1) -> K0 of nonterminals without arrows of their own,
// with arrows around terminals at random places of the chain; some members get an extra wrapper arrow.
func c21CycleTM(rng *rand.Rand, name string) string {
	var sb strings.Builder
	fmt.Fprintf(&sb, "language %s(go);\n\nlang = %q\npackage = \"verifgen/%s/base\"\neventBased = true\neventFields = true\neventAST = true\n\n:: lexer\n\n", name, name, name)
	for t := 0; t < 6; t++ {
		fmt.Fprintf(&sb, "t%c: /%c/\n", 'a'+t, 'a'+t)
	}
	sb.WriteString("invalid_token:\n\n:: parser\n\n%input N0;\n\n")
	l := 2 + rng.Intn(3)
	marks := 0
	item := func() string {
		t := fmt.Sprintf("t%c", 'c'+rng.Intn(4))
		switch rng.Intn(6) {
		case 0:
			return ""
		case 1:
			return t
		case 2:
			marks++
			return fmt.Sprintf("(%s -> Mark%d)", t, marks)
		case 3:
			marks++
			return fmt.Sprintf("(%s -> Mark%d)?", t, marks)
		case 4:
			return fmt.Sprintf("(%s -> Mark%d)", t, 1+rng.Intn(marks+1)) // the same type at several places
		default:
			marks++
			return fmt.Sprintf("(%s -> Mark%d)+", t, marks)
		}
	}
	switch rng.Intn(3) {
	case 0:
		sb.WriteString("N0 -> Root:\n    K0\n;\n\n")
	case 1:
		sb.WriteString("N0 -> Root:\n    (K0 -> Group) te\n;\n\n")
	default:
		sb.WriteString("N0 -> Root:\n    G\n;\n\nG -> Group:\n    K0 " + item() + "\n;\n\n")
	}
	for i := 0; i < l; i++ {
		next := fmt.Sprintf("K%d", (i+1)%l)
		if i == l-1 && rng.Intn(4) == 0 {
			next = "(" + next + " -> Inner)"
		}
		fmt.Fprintf(&sb, "K%d:\n", i)
		if i == l-1 {
			fmt.Fprintf(&sb, "    ta %s %s tb %s\n", item(), next, item())
		} else {
			fmt.Fprintf(&sb, "    %s %s %s\n", item(), next, item())
		}
		if i == 0 || rng.Intn(3) == 0 {
			fmt.Fprintf(&sb, "  | tb %s\n", item())
		}
		if rng.Intn(4) == 0 {
			// a second way into the cycle, entering it in the middle
			fmt.Fprintf(&sb, "  | tc K%d td\n", rng.Intn(l))
		}
		sb.WriteString(";\n\n")
	}
	return sb.String()
}
