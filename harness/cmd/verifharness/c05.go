package main

import (
	"math/rand"

	"github.com/inspirer/textmapper/lalr"
	"verif/harness/sx"
)

func init() {
	commands["c05.random"] = c05Random
}

func addRandomPrec(rng *rand.Rand, g *cfg) {
	if g.nterms < 3 {
		return
	}
	ngroups := 1 + rng.Intn(2)
	perm := rng.Perm(g.nterms - 1)
	idx := 0
	for i := 0; i < ngroups && idx < len(perm); i++ {
		n := 1 + rng.Intn(2)
		var terms []int
		for j := 0; j < n && idx < len(perm); j++ {
			terms = append(terms, 1+perm[idx])
			idx++
		}
		g.prec = append(g.prec, cfgPrec{assoc: rng.Intn(3), terms: terms})
	}
}

func c05Random(rng *rand.Rand, n int, _ []string) {
	cells := 0
	for i := 0; i < n; i++ {
		g := genCFG(rng, defaultKnobs)
		if rng.Intn(3) == 0 {
			addRandomPrec(rng, g) // nonassoc groups create explicit error cells
		}
		lg := g.toLalr()
		t, _ := lalr.Compile(lg, lalr.Options{})
		if t == nil || t.UsedLADepth > 0 {
			continue
		}
		rules := len(t.RuleLen)
		for _, dr := range []bool{false, true} {
			o := lalr.Optimize(t.DefaultEnc, g.nterms, rules, dr)
			in := sx.List(sx.Int(g.nterms), sx.Int(rules), sx.Bool(dr), defaultEncStr(t.DefaultEnc))
			sx.Case("c05.opt", in, dispEncStr(o))
		}
		cells += len(t.Action) * g.nterms
	}
	sx.Stat("cells", cells)
}
