package main

// C29, part 3: the shipped cancellable tm and test parsers (generated loop of go_parser.go.tmpl; test has runtime
// lookaheads: FooLookahead) under the same cancellation schedule and oracle as c29.js.

import (
	"context"
	"fmt"
	tmtoken "github.com/inspirer/textmapper/parsers/tm/token"
	"math/rand"
	"runtime"
	"strings"

	"github.com/inspirer/textmapper/parsers/test"
	"github.com/inspirer/textmapper/parsers/tm"
	"verif/harness/sx"
)

func init() {
	commands["c29.shipped"] = c29Shipped
}

type shippedCtx struct {
	context.Context
	cancel       func()
	suffix       string
	calls        int
	cancelAtCall int
	log          []int
	depths       []int
}

func (c *shippedCtx) Done() <-chan struct{} {
	c.calls++
	if c.cancelAtCall > 0 && c.calls >= c.cancelAtCall {
		c.cancel()
	}
	var pcs [64]uintptr
	n := runtime.Callers(2, pcs[:])
	frames := runtime.CallersFrames(pcs[:n])
	depth := 0
	for {
		fr, more := frames.Next()
		if strings.HasSuffix(fr.Function, c.suffix) {
			depth++
		}
		if !more {
			break
		}
	}
	c.depths = append(c.depths, depth)
	ch := c.Context.Done()
	select {
	case <-ch:
		c.log = append(c.log, 1)
	default:
		c.log = append(c.log, 0)
	}
	return ch
}

// shippedRun: which = "tm" | "test".
func shippedRun(which, text string, atCall, afterEvents int) (string, int, int) {
	inner, cancel := context.WithCancel(context.Background())
	defer cancel()
	ctx := &shippedCtx{Context: inner, cancel: cancel, cancelAtCall: atCall, suffix: "parsers/" + which + ".lookahead"}
	var ev strings.Builder
	nev := 0
	res := ""
	report := func(t, offset, endoffset int) {
		fmt.Fprintf(&ev, " (%d %d %d)", t, offset, endoffset)
		nev++
		if afterEvents > 0 && nev == afterEvents {
			cancel()
		}
	}
	st := guarded(func() {
		var err error
		switch which {
		case "tm":
			l := func(t tm.NodeType, offset, endoffset int) { report(int(t), offset, endoffset) }
			var s tm.TokenStream
			s.Init(text, l)
			var p tm.Parser
			p.Init(func(tm.SyntaxError) bool { return false }, l)
			err = p.ParseFile(ctx, &s)
			if _, ok := err.(tm.SyntaxError); ok {
				res = "syntax"
			}
		default:
			var l test.Lexer
			l.Init(text)
			var p test.Parser
			p.Init(func(t test.NodeType, flags test.NodeFlags, offset, endoffset int) { report(int(t), offset, endoffset) })
			err = p.ParseTest(ctx, &l)
			if _, ok := err.(test.SyntaxError); ok {
				res = "syntax"
			}
		}
		switch {
		case err == nil:
			res = "accept"
		case err == context.Canceled:
			res = "ctxerr"
		case res == "":
			res = "other"
		}
	})
	if st != "ok" {
		res = "crash"
	}
	polls, depths := "", ""
	for i, b := range ctx.log {
		polls += fmt.Sprintf(" %d", b)
		depths += fmt.Sprintf(" %d", ctx.depths[i])
	}
	return fmt.Sprintf("(%s (polls%s) (depths%s) (events%s) (cancel %d %d))", res, polls, depths, ev.String(), atCall, afterEvents), len(ctx.log), nev
}

func shippedTokenOffsets(which, text string) []int {
	var offs []int
	if which == "tm" {
		var l tm.Lexer
		l.Init(text)
		for len(offs) < 1<<20 {
			t := l.Next()
			if int(t) == 0 {
				break
			}
			if t == tmtoken.COMMENT || t == tmtoken.MULTILINECOMMENT || t == tmtoken.INVALID_TOKEN {
				continue // reported, never shifted
			}
			s, _ := l.Pos()
			offs = append(offs, s)
		}
		return offs
	}
	var l test.Lexer
	l.Init(text)
	for len(offs) < 1<<20 {
		t := l.Next()
		if int(t) == 0 {
			break
		}
		s, _ := l.Pos()
		offs = append(offs, s)
	}
	return offs
}

func tmSentence(rng *rand.Rand) string {
	var sb strings.Builder
	sb.WriteString("language l(go);\n\n:: lexer\n\nid: /[a-z]+/\n")
	for i := rng.Intn(60); i > 0; i-- {
		fmt.Fprintf(&sb, "t%d: /x%d/\n", i, i)
	}
	sb.WriteString("\n:: parser\n\ninput: r0 ;\n\nr0: id ;\n")
	for i, n := 1, 100+rng.Intn(900); i < n; i++ {
		switch rng.Intn(4) {
		case 0:
			fmt.Fprintf(&sb, "r%d: id r%d | id id? ;\n", i, rng.Intn(i))
		case 1:
			fmt.Fprintf(&sb, "r%d: (id separator id)+ r%d -> N%d ;\n", i, rng.Intn(i), i)
		default:
			fmt.Fprintf(&sb, "r%d: id r%d ;\n", i, rng.Intn(i))
		}
		switch rng.Intn(16) {
		case 0:
			sb.WriteString("# a comment\n")
		case 1:
			sb.WriteString("/* a comment */\n")
		}
	}
	s := sb.String()
	if rng.Intn(10) == 0 {
		b := []byte(s)
		b[len(b)/3+rng.Intn(len(b)/2)] = ";:|)("[rng.Intn(5)]
		s = string(b)
	}
	return s
}

func testSentence(rng *rand.Rand) string {
	var sb strings.Builder
	sum := func(k int) string {
		parts := make([]string, k)
		for i := range parts {
			parts[i] = fmt.Sprint(2 + rng.Intn(5))
		}
		return strings.Join(parts, "+")
	}
	filler := func(n int) {
		for i := 0; i < n; i++ {
			sb.WriteString([]string{"decl2 ", "decl1(a.b.c) ", "{ 3 9 } ", "decl2 "}[rng.Intn(4)])
		}
	}
	eval := func(k int) {
		if rng.Intn(2) == 0 {
			sb.WriteString("eval(1." + sum(k) + ") ") // FooLookahead holds
		} else {
			sb.WriteString("eval(" + sum(k) + ") ") // FooLookahead fails
		}
	}
	switch rng.Intn(3) {
	case 0:
		filler(rng.Intn(40))
		eval(150 + rng.Intn(400))
		filler(rng.Intn(300))
	case 1:
		for n := 2 + rng.Intn(8); n > 0; n-- {
			filler(rng.Intn(100))
			eval(1 + rng.Intn(120))
		}
		filler(rng.Intn(200))
	default:
		k := 2 + rng.Intn(10)
		for i := 0; i < 500-rng.Intn(4*k); i++ {
			sb.WriteString("decl2 ")
		}
		eval(k)
		filler(rng.Intn(600))
	}
	return sb.String()
}

func c29Shipped(rng *rand.Rand, n int, args []string) {
	for i := 0; i < n; i++ {
		which := "test"
		text := ""
		if i%3 == 0 {
			which = "tm"
			text = tmSentence(rng)
		} else {
			text = testSentence(rng)
		}
		offs := shippedTokenOffsets(which, text)
		var runs []string
		base, npolls, nev := shippedRun(which, text, 0, 0)
		runs = append(runs, base)
		for j := 1; j <= npolls+1; j++ {
			r, _, _ := shippedRun(which, text, j, 0)
			runs = append(runs, r)
		}
		for k := 0; k < 3 && nev > 0; k++ {
			r, _, _ := shippedRun(which, text, 0, 1+rng.Intn(nev))
			runs = append(runs, r)
		}
		sx.Case("c29.shipped", sx.List(sx.Str(text), sx.Ints(offs), which), sx.List(runs...))
		sx.Stat(which+"_tokens", len(offs)/100*100)
		sx.Stat(which+"_polls_uncancelled", npolls)
		sx.Stat(which+"_result_"+strings.Fields(base[1:])[0], 1)
		if a := strings.Index(base, "(depths"); a >= 0 {
			if b := strings.Index(base[a:], ")"); b >= 0 {
				for _, d := range strings.Fields(base[a+7 : a+b]) {
					sx.Stat(which+"_uncancelled_polls_at_depth_"+d, 1)
				}
			}
		}
	}
}
