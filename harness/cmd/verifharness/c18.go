package main

// C18 — generation is deterministic.
//  c18.mapsites  inventory of every `range` over a map in the non-test Go code of the repo (go/ast +
//                go/types with export data from `go list -export`), compared with the reviewed list
//                harness/mapsites.json: (file, function, hash of the loop) -> classification.
//  c18.switch    gen.asStringSwitch on random maps vs the model (Gen/PermInv.string_switch).
//  c18.regen     shipped grammars regenerated repeatedly in this process and in subprocesses with different
//                GOMAXPROCS; all outputs byte-compared with each other and with the committed files.
//  c18.random    random valid grammars generated repeatedly, in-process and in a subprocess.

import (
	"bytes"
	"context"
	"crypto/sha1"
	"encoding/hex"
	"encoding/json"
	"fmt"
	"go/ast"
	"go/importer"
	"go/parser"
	"go/printer"
	"go/token"
	"go/types"
	"io"
	"math/rand"
	"os"
	"os/exec"
	"path/filepath"
	"sort"
	"strings"

	"github.com/inspirer/textmapper/compiler"
	"github.com/inspirer/textmapper/gen"
	"verif/harness/sx"
)

func init() {
	commands["c18.mapsites"] = c18MapSites
	commands["c18.switch"] = c18Switch
	commands["c18.regen"] = c18Regen
	commands["c18.random"] = c18Random
	commands["c18.worker"] = c18Worker
}

// ---------------------------------------------------------------- (i) inventory

type mapSite struct {
	File     string `json:"file"`
	Func     string `json:"func"`
	Hash     string `json:"hash"`
	FuncHash string `json:"funchash"` // sha1 of the whole enclosing function: a justification may rest on code after the loop (a sort)
	Over     string `json:"over"`     // the ranged expression and its type (informative)
	Class    string `json:"class"`    // reviewed classification
	Why      string `json:"why"`
}

func c18Inventory() []mapSite {
	root := repoDir()
	cmd := exec.Command("go", "list", "-export", "-deps", "-f", "{{.ImportPath}}\t{{.Export}}", "./...")
	cmd.Dir = root
	cmd.Env = append(os.Environ(), "GOFLAGS=-mod=mod", "GOPROXY=off")
	out, err := cmd.Output()
	if err != nil {
		fmt.Fprintln(os.Stderr, "c18: go list -export failed:", err)
		exitCode(2)
	}
	export := map[string]string{}
	for _, l := range strings.Split(string(out), "\n") {
		if p, f, ok := strings.Cut(l, "\t"); ok && f != "" {
			export[p] = f
		}
	}
	fset := token.NewFileSet()
	imp := importer.ForCompiler(fset, "gc", func(path string) (io.ReadCloser, error) {
		f, ok := export[path]
		if !ok {
			return nil, fmt.Errorf("no export data for %s", path)
		}
		return os.Open(f)
	})
	var sites []mapSite
	var dirs []string
	filepath.Walk(root, func(p string, fi os.FileInfo, err error) error {
		if err != nil || !fi.IsDir() {
			return nil
		}
		n := fi.Name()
		if p != root && (strings.HasPrefix(n, ".") || n == "testdata" || n == "node_modules" || n == "vendor") {
			return filepath.SkipDir
		}
		dirs = append(dirs, p)
		return nil
	})
	sort.Strings(dirs)
	for _, dir := range dirs {
		pkgs, err := parser.ParseDir(fset, dir, func(fi os.FileInfo) bool {
			return !strings.HasSuffix(fi.Name(), "_test.go") && !strings.HasPrefix(fi.Name(), "verif_hooks")
		}, 0)
		if err != nil {
			continue
		}
		var names []string
		for n := range pkgs {
			names = append(names, n)
		}
		sort.Strings(names)
		for _, pn := range names {
			pkg := pkgs[pn]
			var fnames []string
			for fn := range pkg.Files {
				fnames = append(fnames, fn)
			}
			sort.Strings(fnames)
			var files []*ast.File
			for _, fn := range fnames {
				files = append(files, pkg.Files[fn])
			}
			info := &types.Info{Types: map[ast.Expr]types.TypeAndValue{}}
			conf := types.Config{Importer: imp, Error: func(error) {}, FakeImportC: true}
			conf.Check(dir, fset, files, info)
			for i, f := range files {
				rel, _ := filepath.Rel(root, fnames[i])
				for _, d := range f.Decls {
					fd, ok := d.(*ast.FuncDecl)
					if !ok || fd.Body == nil {
						continue
					}
					name := fd.Name.Name
					if fd.Recv != nil && len(fd.Recv.List) > 0 {
						var b bytes.Buffer
						printer.Fprint(&b, fset, fd.Recv.List[0].Type)
						name = "(" + b.String() + ")." + name
					}
					ast.Inspect(fd.Body, func(nd ast.Node) bool {
						rs, ok := nd.(*ast.RangeStmt)
						if !ok {
							return true
						}
						tv, ok := info.Types[rs.X]
						if !ok || tv.Type == nil {
							return true
						}
						if _, isMap := tv.Type.Underlying().(*types.Map); !isMap {
							return true
						}
						var b bytes.Buffer
						printer.Fprint(&b, fset, rs)
						h := sha1.Sum(b.Bytes())
						var fb bytes.Buffer
						printer.Fprint(&fb, fset, fd)
						fh := sha1.Sum(fb.Bytes())
						var x bytes.Buffer
						printer.Fprint(&x, fset, rs.X)
						sites = append(sites, mapSite{File: filepath.ToSlash(rel), Func: name, Hash: hex.EncodeToString(h[:])[:12], FuncHash: hex.EncodeToString(fh[:])[:12],
							Over: x.String() + " : " + strings.ReplaceAll(tv.Type.String(), root+"/", "")})
						return true
					})
				}
			}
		}
	}
	return sites
}

func c18MapSites(_ *rand.Rand, _ int, args []string) {
	sites := c18Inventory()
	if len(args) > 0 && args[0] == "dump" {
		b, _ := json.MarshalIndent(sites, "", " ")
		os.Stdout.Write(b)
		return
	}
	var reviewed []mapSite
	if b, err := os.ReadFile("mapsites.json"); err == nil {
		json.Unmarshal(b, &reviewed)
	}
	key := func(s mapSite) string { return s.File + "|" + s.Func + "|" + s.Hash + "|" + s.FuncHash }
	rev := map[string]mapSite{}
	for _, r := range reviewed {
		rev[key(r)] = r
	}
	seen := map[string]bool{}
	unreviewed := 0
	for _, s := range sites {
		k := key(s)
		seen[k] = true
		out := sx.List("unreviewed")
		if r, ok := rev[k]; ok && r.Class != "" {
			out = sx.List("reviewed", r.Class)
		} else {
			unreviewed++
		}
		sx.Case("c18.mapsite", sx.List(sx.Str(s.File), sx.Str(s.Func), s.Hash, s.FuncHash), out)
	}
	gone := 0
	for k := range rev {
		if !seen[k] {
			gone++
		}
	}
	sx.Stat("map_range_sites", len(sites))
	sx.Stat("unreviewed_sites", unreviewed)
	sx.Stat("reviewed_sites_no_longer_present", gone)
}

// ---------------------------------------------------------------- (ii) asStringSwitch

func c18Switch(rng *rand.Rand, n int, _ []string) {
	words := []string{"if", "else", "for", "while", "class", "import", "a", "b", "Aa", "BB", "x1", "x2", "return", "true", "false", "null", "in", "of", "as", "is"}
	for i := 0; i < n; i++ {
		m := map[string]int{}
		k := rng.Intn(24)
		var order []string
		for len(m) < k {
			var w string
			if rng.Intn(3) == 0 {
				w = words[rng.Intn(len(words))]
			} else {
				l := 1 + rng.Intn(5)
				b := make([]byte, l)
				for j := range b {
					b[j] = "abAB01_z"[rng.Intn(8)]
				}
				w = string(b)
			}
			if _, ok := m[w]; !ok {
				m[w] = rng.Intn(100)
				order = append(order, w)
			}
		}
		var entries []string
		for _, w := range order {
			entries = append(entries, sx.List(sx.Str(w), sx.Int(m[w])))
		}
		mask, cases := gen.VerifStringSwitch(m)
		size := mask + 1
		var cs []string
		for _, c := range cases {
			cs = append(cs, sx.List(sx.Int(int(c.Bucket)), sx.Int(int(c.Hash)), sx.Str(c.Str), sx.Int(c.Action)))
		}
		sx.Case("c18.switch", sx.List(entries...), sx.List(sx.Int(int(size)), sx.List(cs...)))
	}
}

// ---------------------------------------------------------------- (iii) regeneration

type c18Writer struct{ files map[string]string }

func (w *c18Writer) Write(filename, content string) error {
	w.files[filename] = content
	return nil
}

func digest(files map[string]string) string {
	var names []string
	for n := range files {
		names = append(names, n)
	}
	sort.Strings(names)
	h := sha1.New()
	for _, n := range names {
		fmt.Fprintf(h, "%s\x00%d\x00%s\x00", n, len(files[n]), files[n])
	}
	return hex.EncodeToString(h.Sum(nil))[:16]
}

func c18GenFile(path string) (map[string]string, error) {
	w := &c18Writer{files: map[string]string{}}
	_, err := gen.GenerateFile(context.Background(), path, w, gen.Options{})
	return w.files, err
}

func c18GenText(text string) (map[string]string, error) {
	g, err := compiler.Compile(context.Background(), "g.tm", text, compiler.Params{})
	if err != nil {
		return nil, err
	}
	w := &c18Writer{files: map[string]string{}}
	err = gen.Generate(g, w, gen.Options{})
	return w.files, err
}

// c18.worker file|-  : one generation in a fresh process; prints the digest (grammar text on stdin for "-")
func c18Worker(_ *rand.Rand, _ int, args []string) {
	var files map[string]string
	var err error
	if len(args) > 0 && args[0] != "-" {
		files, err = c18GenFile(args[0])
	} else {
		b, _ := io.ReadAll(os.Stdin)
		files, err = c18GenText(string(b))
	}
	if err != nil {
		fmt.Println("error")
		return
	}
	fmt.Println(digest(files))
}

func c18Sub(arg, stdin string, gomaxprocs int) string {
	cmd := exec.Command(os.Args[0], "c18.worker", arg)
	cmd.Env = append(os.Environ(), fmt.Sprintf("GOMAXPROCS=%d", gomaxprocs))
	if stdin != "" {
		cmd.Stdin = strings.NewReader(stdin)
	}
	out, err := cmd.Output()
	if err != nil {
		return "crash"
	}
	return strings.TrimSpace(string(out))
}

var c18Shipped = []string{"parsers/json/json.tm", "parsers/simple/simple.tm", "parsers/test/test.tm", "parsers/tm/textmapper.tm", "parsers/js/js.tm"}

// n = number of in-process repetitions per grammar (js: at most 2)
func c18Regen(rng *rand.Rand, n int, _ []string) {
	root := repoDir()
	for _, g := range c18Shipped {
		path := filepath.Join(root, g)
		reps := n
		procs := []int{1, 2, 8}
		if strings.Contains(g, "/js/") && n <= 3 { // quick tier: the 65 kB grammar once here, once in a subprocess
			reps = 1
			procs = []int{[]int{1, 2, 8}[rng.Intn(3)]}
		}
		var digests []string
		var first map[string]string
		var problems []string
		for i := 0; i < reps; i++ {
			files, err := c18GenFile(path)
			if err != nil {
				problems = append(problems, "generation-failed")
				break
			}
			if first == nil {
				first = files
			}
			digests = append(digests, digest(files))
			// interleave another grammar so that "earlier generations in the same process" vary
			if i%2 == 0 {
				c18GenFile(filepath.Join(root, c18Shipped[rng.Intn(2)]))
			}
		}
		for _, p := range procs {
			digests = append(digests, c18Sub(path, "", p))
		}
		for _, d := range digests {
			if d != digests[0] {
				problems = append(problems, "runs-differ")
				break
			}
		}
		// committed files
		var names []string
		for name := range first {
			names = append(names, name)
		}
		sort.Strings(names)
		for _, name := range names {
			ondisk, err := os.ReadFile(filepath.Join(filepath.Dir(path), name))
			if err != nil || string(ondisk) != first[name] {
				problems = append(problems, "differs-from-committed:"+name)
			}
		}
		out := sx.List("same", sx.Int(len(first)))
		if len(problems) > 0 {
			out = sx.List("differs", sx.List(problems...))
		}
		sx.Case("c18.regen", sx.List(g, sx.Int(len(digests))), out)
		sx.Stat("files_compared", len(first))
	}
}

// random valid grammars: 3 generations in-process + one subprocess with another GOMAXPROCS
func c18Random(rng *rand.Rand, n int, _ []string) {
	tried, crashed := 0, 0
	pre := &c22Runner{} // persistent worker subprocess: cheap pre-filter for grammars the compiler accepts
	defer pre.close()
	for done := 0; done < n && tried < 200*n; {
		tried++
		g := &c22g{rng: rng, wild: 1000000}
		t := g.grammar()
		if strings.Contains(t, "(?=") { // the known lookahead crashes of C22 are not this property's business
			continue
		}
		if pre.run(t, false) != "(ok)" {
			continue
		}
		// everything is tried in a subprocess first: grammars on which the compiler or the generator fails
		// or crashes (C22's business) are skipped, and cannot take this process down
		first := c18Sub("-", t, []int{1, 2, 8}[rng.Intn(3)])
		if first == "error" {
			continue
		}
		if first == "crash" {
			crashed++
			continue
		}
		done++
		digests := []string{first}
		nfiles := 0
		for i := 0; i < 3; i++ {
			files, err := c18GenText(t)
			if err != nil {
				digests = append(digests, "error")
				continue
			}
			nfiles = len(files)
			digests = append(digests, digest(files))
		}
		digests = append(digests, c18Sub("-", t, []int{1, 2, 8}[rng.Intn(3)]))
		out := sx.List("same", sx.Int(nfiles))
		for _, d := range digests {
			if d != digests[0] {
				out = sx.List("differs", sx.List("runs-differ"))
				break
			}
		}
		sx.Case("c18.regen", sx.List(sx.Str(t), sx.Int(len(digests))), out)
	}
	// pairs of grammars that share node, token and nonterminal names but differ in options that change how the
	// names are rendered: the second one generated after the first in this process must equal the second one
	// generated alone in a fresh process
	pairs := n/4 + 1
	skippedPairs := 0
	for i := 0; i < pairs; i++ {
		a, b := c18PairTM(rng)
		alone := c18Sub("-", b, []int{1, 2, 8}[rng.Intn(3)])
		out := sx.List("same", sx.Int(0))
		if _, err := c18GenText(a); err != nil || alone == "error" || alone == "crash" {
			skippedPairs++ // a grammar of the pair is rejected or crashes the generator (C22's business): not a case
			continue
		} else if files, err := c18GenText(b); err != nil {
			skippedPairs++
			continue
		} else if digest(files) != alone {
			out = sx.List("differs", sx.List("depends-on-earlier-generation"))
		} else {
			out = sx.List("same", sx.Int(len(files)))
		}
		sx.Case("c18.regen", sx.List(sx.Str(a+"\n#### then\n"+b), sx.Int(2)), out)
	}
	sx.Stat("grammars_tried", tried)
	sx.Stat("grammars_skipped_because_generation_crashed", crashed)
	sx.Stat("grammar_pairs", pairs)
	sx.Stat("grammar_pairs_skipped_because_one_does_not_generate", skippedPairs)
}

func c18PairTM(rng *rand.Rand) (string, string) {
	nodes := []string{"File", "Decl", "Name", "Value", "Block", "Item"}
	rng.Shuffle(len(nodes), func(i, j int) { nodes[i], nodes[j] = nodes[j], nodes[i] })
	body := fmt.Sprintf(`:: lexer

id: /[a-z]+/
num: /[0-9]+/
'=': /=/
';': /;/
'{': /\{/
'}': /\}/
space: /[ \t\n]+/ (space)
invalid_token:

:: parser

%%input file;

file -> %s:
    decl+
;

decl -> %s:
    (id -> %s) '=' value ';'
  | block
;

value -> %s:
    num
  | id
;

block -> %s:
    '{' (decl -> %s)* '}'
;
`, nodes[0], nodes[1], nodes[2], nodes[3], nodes[4], nodes[5])
	opts := func() string {
		var sb strings.Builder
		sb.WriteString("language pair(go);\n\nlang = \"pair\"\npackage = \"github.com/verif/pair\"\neventBased = true\n")
		if rng.Intn(2) == 0 {
			sb.WriteString("eventFields = true\n")
			if rng.Intn(2) == 0 {
				sb.WriteString("eventAST = true\n")
			}
		}
		if rng.Intn(3) > 0 {
			fmt.Fprintf(&sb, "nodePrefix = %q\n", []string{"A", "B", "Nt", "X"}[rng.Intn(4)])
		}
		if rng.Intn(3) == 0 {
			sb.WriteString("reportTokens = [id, num]\n")
		}
		if rng.Intn(3) == 0 {
			sb.WriteString("extraTypes = [\"Extra\", \"More\"]\n")
		}
		if rng.Intn(4) == 0 {
			sb.WriteString("tokenLine = false\n")
		}
		if rng.Intn(4) == 0 {
			sb.WriteString("optimizeTables = true\n")
		}
		sb.WriteString("\n")
		return sb.String()
	}
	return opts() + body, opts() + body
}
