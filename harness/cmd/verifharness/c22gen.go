package main

// Structured grammar-text generator for C22: syntactically valid tm grammars that use the parser-side
// features at random (templates, flags, lookaheads, sets, lists with separators, precedence, arrows,
// interfaces, inline/void nonterminals, state markers, %assert/%generate/%inject, error recovery), with a
// small rate of dangling or misused references so that both the deep passes and their error paths run.

import (
	"fmt"
	"math/rand"
	"strings"

	"verif/harness/sx"
)

func init() {
	commands["c22.gen"] = c22Gen
}

type c22g struct {
	rng     *rand.Rand
	terms   []string
	nts     []string
	params  map[string][]string // nonterminal -> its flag parameters
	flags   []string
	cats    []string
	sets    []string
	depth   int
	wild    int // 1 in wild references is random
	hasErr  bool
	arrows  bool
	lookNts []string
	wide    bool     // c22.gen2: the additional features of c22gen2.go
	aliases []string // wide: aliases introduced in the current rule
	target  string
	cur     string // wide: the nonterminal being defined
}

func (g *c22g) pick(xs []string) string {
	if len(xs) == 0 {
		return "x"
	}
	return xs[g.rng.Intn(len(xs))]
}

func (g *c22g) chance(n int) bool { return g.rng.Intn(n) == 0 }

func (g *c22g) term() string {
	if g.chance(g.wild) {
		return g.pick([]string{"nosuch", "'?'", "input", "eoi", "error", "invalid_token"})
	}
	return g.pick(g.terms)
}

func (g *c22g) args(nt string) string {
	ps := g.params[nt]
	if len(ps) == 0 {
		if g.chance(g.wild * 2) {
			return "<+" + g.pick(g.flags) + ">"
		}
		return ""
	}
	var as []string
	for _, p := range ps {
		switch g.rng.Intn(5) {
		case 0:
			as = append(as, "+"+p)
		case 1:
			as = append(as, "~"+p)
		case 2:
			if g.wide {
				as = append(as, p+": "+g.pick(append(append([]string{}, g.params[g.cur]...), "true", "false", "true", "false", "\"v\"")))
			} else {
				as = append(as, p+"="+g.pick(append(g.flags, "true", "false")))
			}
		case 3:
			if g.wide && !contains(g.params[g.cur], p) {
				as = append(as, "+"+p)
			} else {
				as = append(as, p)
			}
		default: // omitted: must be propagated from the context
		}
	}
	if len(as) == 0 {
		return ""
	}
	return "<" + strings.Join(as, ", ") + ">"
}

func (g *c22g) ref() string {
	if g.rng.Intn(3) == 0 {
		return g.term()
	}
	nt := g.pick(g.nts)
	if g.chance(g.wild) {
		nt = g.pick([]string{"Nosuch", "input", g.pick(g.terms)})
	}
	return nt + g.args(nt)
}

func (g *c22g) setExpr(d int) string {
	switch g.rng.Intn(7 + d*3) {
	case 0:
		return g.setExpr(d+1) + " | " + g.setExpr(d+1)
	case 1:
		return g.setExpr(d+1) + " & " + g.setExpr(d+1)
	case 2:
		return "~" + g.setExpr(d+1)
	case 3:
		return "(" + g.setExpr(d+1) + ")"
	case 4:
		return g.pick([]string{"first", "last", "follow", "precede"}) + " " + g.pick(append(g.nts, g.terms...))
	case 5:
		if len(g.sets) > 0 {
			return g.pick(g.sets)
		}
	}
	return g.pick(append(g.terms, g.nts...))
}

func (g *c22g) part(d int) string {
	if g.wide && g.chance(4) {
		return g.widePart(d)
	}
	switch g.rng.Intn(22 + d*6) {
	case 0:
		return g.ref() + "?"
	case 1:
		return g.ref() + "*"
	case 2:
		return g.ref() + "+"
	case 3:
		return "(" + g.ref() + " separator " + g.term() + ")" + g.pick([]string{"+", "*", "+?"})
	case 4:
		return "(" + g.rhs(d+1) + " | " + g.rhs(d+1) + ")" + g.pick([]string{"", "?", "", "+", "*"})
	case 5:
		return g.pick([]string{"a", "b", "name", "list", "left"}) + g.pick([]string{"=", "+=", "="}) + g.ref()
	case 6:
		return "set(" + g.setExpr(0) + ")"
	case 7:
		if len(g.lookNts) > 0 {
			var ps []string
			for i := 0; i <= g.rng.Intn(2); i++ {
				ps = append(ps, g.pick([]string{"", "!"})+g.pick(g.lookNts))
			}
			return "(?= " + strings.Join(ps, " & ") + ")"
		}
		return g.ref()
	case 8:
		return "." + g.pick([]string{"m1", "m2", "recoveryScope", "greedy"})
	case 9:
		return "{ $$ = " + g.pick([]string{"$1", "$a", "${left()}", "nil", "${first().offset}", "$0"}) + " }"
	case 10:
		if g.hasErr {
			return "error"
		}
		return g.ref()
	case 11:
		return "(" + g.rhs(d+1) + ")"
	case 12:
		if g.arrows {
			return "(" + g.rhs(d+1) + " -> " + g.pick(g.cats) + ")"
		}
		return g.ref()
	case 13:
		if g.chance(10) {
			return g.ref() + " as " + g.pick(g.nts)
		}
		return g.ref()
	}
	return g.ref()
}

func (g *c22g) rhs(d int) string {
	n := g.rng.Intn(4)
	if d == 0 && g.chance(8) {
		return "%empty"
	}
	if g.wide && d == 0 && n == 0 && !g.chance(10) {
		return "%empty"
	}
	var ps []string
	for i := 0; i < n; i++ {
		ps = append(ps, g.part(d))
	}
	if d > 0 && len(ps) == 0 {
		ps = append(ps, g.ref())
	}
	return strings.Join(ps, " ")
}

func (g *c22g) rule(nt string) string {
	var sb strings.Builder
	g.aliases = g.aliases[:0]
	g.cur = nt
	if ps := g.params[nt]; len(ps) > 0 && g.chance(2) {
		sb.WriteString("[" + g.pick([]string{"", "!"}) + g.pick(ps))
		if g.chance(3) {
			if g.wide {
				sb.WriteString(g.pick([]string{" && ", " || "}) + g.pick([]string{"", "!"}) + g.pick(ps))
			} else {
				sb.WriteString(g.pick([]string{" && ", " || "}) + g.pick([]string{"", "!"}) + g.pick(append(ps, g.flags...)))
			}
		}
		sb.WriteString("] ")
	} else if g.chance(g.wild * 2) {
		sb.WriteString("[" + g.pick(append(g.flags, "Nope")) + "] ")
	}
	sb.WriteString(g.rhs(0))
	if g.chance(10) {
		sb.WriteString(" %prec " + g.term())
	}
	if g.arrows && g.chance(3) {
		sb.WriteString(" -> " + g.pick(g.cats))
		if g.chance(6) {
			sb.WriteString("/" + g.pick([]string{"Flag1", "Flag2"}))
		}
		if g.wide && g.chance(6) {
			sb.WriteString(" as " + g.pick(g.cats))
		}
	}
	return sb.String()
}

func (g *c22g) grammar() string {
	rng := g.rng
	var sb strings.Builder
	sb.WriteString("language g(go);\n")
	g.arrows = rng.Intn(2) == 0
	if g.arrows {
		sb.WriteString("eventBased = true\n")
		if rng.Intn(2) == 0 {
			sb.WriteString("eventFields = true\n")
		}
		if rng.Intn(3) == 0 {
			sb.WriteString("eventAST = true\n")
		}
	}
	for _, o := range []string{"fixWhitespace = true", "cancellable = true", "recursiveLookaheads = true", "optimizeTables = true", "defaultReduce = true",
		"tokenLine = false", "nonBacktracking = true", "genSelector = true", "writeBison = true", "noEmptyRules = true", "maxLookahead = 2",
		"expansionLimit = 20", "optInstantiationSuffix = \"opt\"", "disableSyntax = [\"Lookahead\"]", "disableSyntax = [\"Templates\", \"Arrow\"]", "scanBytes = true",
		"caseInsensitive = true", "extraTypes = [\"Extra\", \"E2 -> C1\"]", "extraTypes = [\"C1\"]", "tokenStream = true", "variantStackEntry = true"} {
		if rng.Intn(14) == 0 {
			sb.WriteString(o + "\n")
		}
	}
	sb.WriteString(":: lexer\n")
	g.terms = nil
	for i, t := range []string{"a", "b", "c", "d", "'+'", "'*'", "'('", "')'", "','", "id", "kw"} {
		if i < 3 || rng.Intn(3) != 0 {
			g.terms = append(g.terms, t)
			pat := map[string]string{"a": "a", "b": "b", "c": "c", "d": "d", "'+'": "\\+", "'*'": "\\*", "'('": "\\(", "')'": "\\)", "','": ",", "id": "[e-z]+", "kw": "kw"}[t]
			attr := ""
			if t == "id" && rng.Intn(2) == 0 {
				attr = " (class)"
			}
			if g.chance(30) {
				attr = g.pick([]string{" (space)", " (class)", " -1", " 1"})
			}
			typ := ""
			if g.chance(20) {
				typ = " {int}"
			}
			fmt.Fprintf(&sb, "%s%s: /%s/%s\n", t, typ, pat, attr)
		}
	}
	if rng.Intn(3) == 0 {
		sb.WriteString("ws: /[ \\t\\n]+/ (space)\n")
	}
	g.hasErr = rng.Intn(3) == 0
	if g.hasErr {
		sb.WriteString("error:\n")
	}
	if rng.Intn(4) == 0 {
		sb.WriteString("invalid_token:\n")
	}
	sb.WriteString(":: parser\n")
	// declarations
	g.flags = nil
	for i := 0; i < rng.Intn(3); i++ {
		f := fmt.Sprintf("F%d", i)
		g.flags = append(g.flags, f)
		switch rng.Intn(4) {
		case 0:
			fmt.Fprintf(&sb, "%%flag %s;\n", f)
		case 1:
			fmt.Fprintf(&sb, "%%flag %s = %s;\n", f, g.pick([]string{"true", "false"}))
		case 2:
			fmt.Fprintf(&sb, "%%lookahead flag %s = %s;\n", f, g.pick([]string{"true", "false"}))
		default:
			fmt.Fprintf(&sb, "%%lookahead flag %s;\n", f)
		}
	}
	g.cats = []string{"C1", "C2", "Node", "Expr"}
	if g.arrows && rng.Intn(2) == 0 {
		sb.WriteString("%interface " + g.pick(g.cats) + ";\n")
	}
	nnt := 2 + rng.Intn(5)
	g.nts = nil
	g.params = map[string][]string{}
	g.lookNts = nil
	for i := 0; i < nnt; i++ {
		nt := fmt.Sprintf("N%d", i)
		g.nts = append(g.nts, nt)
		if i > 0 && rng.Intn(4) == 0 {
			np := 1 + rng.Intn(2)
			for j := 0; j < np; j++ {
				if len(g.flags) > 0 && rng.Intn(2) == 0 {
					g.params[nt] = append(g.params[nt], g.pick(g.flags))
				} else {
					g.params[nt] = append(g.params[nt], fmt.Sprintf("P%d", j))
				}
			}
		}
		if i > 0 && len(g.params[nt]) == 0 && rng.Intn(4) == 0 {
			g.lookNts = append(g.lookNts, nt)
		}
	}
	if rng.Intn(4) != 0 {
		sb.WriteString("%input N0")
		if rng.Intn(4) == 0 {
			sb.WriteString(" no-eoi")
		}
		if rng.Intn(4) == 0 {
			sb.WriteString(", " + g.pick(g.nts) + g.pick([]string{"", " no-eoi"}))
		}
		sb.WriteString(";\n")
	}
	for _, a := range []string{"%left", "%right", "%nonassoc"} {
		if rng.Intn(4) == 0 {
			sb.WriteString(a + " " + g.term() + g.pick([]string{"", " " + g.term()}) + ";\n")
		}
	}
	g.sets = nil
	for i := 0; i < rng.Intn(3); i++ {
		s := fmt.Sprintf("S%d", i)
		fmt.Fprintf(&sb, "%%generate %s = set(%s);\n", s, g.setExpr(0))
		g.sets = append(g.sets, s)
	}
	if rng.Intn(5) == 0 {
		fmt.Fprintf(&sb, "%%assert %s set(%s);\n", g.pick([]string{"empty", "nonempty"}), g.setExpr(0))
	}
	if g.arrows && rng.Intn(6) == 0 {
		fmt.Fprintf(&sb, "%%inject %s -> %s;\n", g.term(), g.pick(g.cats))
	}
	if rng.Intn(8) == 0 {
		fmt.Fprintf(&sb, "%%expect %d;\n", rng.Intn(3))
	}
	for i, nt := range g.nts {
		name := nt
		if i == 0 && rng.Intn(3) == 0 {
			name = "input"
			g.nts[0] = "input"
		}
		if rng.Intn(14) == 0 {
			sb.WriteString("inline ")
		}
		sb.WriteString(name)
		if ps := g.params[nt]; len(ps) > 0 {
			var ds []string
			for _, p := range ps {
				if strings.HasPrefix(p, "P") {
					ds = append(ds, "flag "+p+g.pick([]string{"", " = true", " = false"}))
				} else {
					ds = append(ds, p)
				}
			}
			sb.WriteString("<" + strings.Join(ds, ", ") + ">")
		}
		if rng.Intn(30) == 0 {
			sb.WriteString(" [alias]")
		}
		if rng.Intn(12) == 0 {
			sb.WriteString(" {int}")
		}
		if g.arrows && rng.Intn(3) == 0 {
			sb.WriteString(" -> " + g.pick(g.cats))
		}
		sb.WriteString(" :\n    ")
		nr := 1 + rng.Intn(3)
		var rs []string
		for j := 0; j < nr; j++ {
			rs = append(rs, g.rule(nt))
		}
		sb.WriteString(strings.Join(rs, "\n  | "))
		sb.WriteString(" ;\n")
	}
	if rng.Intn(10) == 0 {
		sb.WriteString("%%\n${template go_parser.x}\n${end}\n")
	}
	return sb.String()
}

func c22Gen(rng *rand.Rand, n int, _ []string) {
	r := &c22Runner{}
	defer r.close()
	stats := map[string]int{}
	for i := 0; i < n; i++ {
		g := &c22g{rng: rng, wild: []int{1000000, 40, 12}[rng.Intn(3)]}
		t := g.grammar()
		if rng.Intn(4) == 0 {
			t, _ = c22MutateOnce(rng, t, "")
		}
		out := c22Case(r, t, rng.Intn(4) == 0)
		stats[c22Classify(out)]++
	}
	for k, v := range stats {
		sx.Stat(k, v)
	}
}
