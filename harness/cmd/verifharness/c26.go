package main

import (
	"math/rand"

	"github.com/inspirer/textmapper/util/container"
	"github.com/inspirer/textmapper/util/graph"
	"verif/harness/sx"
)

func init() {
	commands["c26.random"] = c26Random
	commands["c26.exhaustive"] = c26Exhaustive
}

func cloneGraph(g [][]int) [][]int {
	ret := make([][]int, len(g))
	for i, e := range g {
		ret[i] = append([]int{}, e...)
	}
	return ret
}

func c26Cases(g [][]int) {
	in := sx.IntLists(g)
	n := len(g)
	// transpose
	sx.Case("c26.transpose", in, sx.IntLists(graph.Transpose(cloneGraph(g))))
	// matrix closure
	m := graph.NewMatrix(n)
	for i, es := range g {
		for _, e := range es {
			m.AddEdge(i, e)
		}
	}
	m.Closure()
	rows := make([]string, n)
	for i := 0; i < n; i++ {
		row := make([]bool, n)
		for j := 0; j < n; j++ {
			row[j] = m.HasEdge(i, j)
		}
		rows[i] = sx.Bools(row)
	}
	adj := "()"
	if n > 0 {
		adj = sx.IntLists(m.Graph(nil))
	}
	sx.Case("c26.closure", in, sx.List(sx.List(rows...), adj))
	// tarjan
	var cbs []string
	graph.Tarjan(cloneGraph(g), func(vertices []int, onStack container.BitSet) {
		on := make([]bool, n)
		for i := range on {
			on[i] = onStack.Get(i)
		}
		cbs = append(cbs, sx.List(sx.Ints(vertices), sx.Bools(on)))
	})
	sx.Case("c26.tarjan", in, sx.List(cbs...))
	// longest path
	lp := graph.LongestPath(cloneGraph(g))
	if lp == nil {
		sx.Case("c26.longest", in, "none")
	} else {
		sx.Case("c26.longest", in, sx.List("some", sx.Ints(lp)))
	}
}

func c26Random(rng *rand.Rand, n int, _ []string) {
	for i := 0; i < n; i++ {
		size := 1 + rng.Intn(8)
		if rng.Intn(20) == 0 {
			size = 9 + rng.Intn(8)
		}
		density := rng.Intn(4) // expected out-degree ~ density/2 + ...
		dag := rng.Intn(3) == 0
		g := make([][]int, size)
		for v := range g {
			g[v] = []int{}
			k := rng.Intn(density + 2)
			for j := 0; j < k; j++ {
				if dag {
					if v+1 < size {
						g[v] = append(g[v], v+1+rng.Intn(size-v-1))
					}
				} else {
					g[v] = append(g[v], rng.Intn(size))
				}
			}
		}
		if dag && rng.Intn(2) == 0 { // relabel so that the DAG order is not the index order
			perm := rng.Perm(size)
			h := make([][]int, size)
			for v := range g {
				h[perm[v]] = []int{}
				for _, w := range g[v] {
					h[perm[v]] = append(h[perm[v]], perm[w])
				}
			}
			g = h
		}
		c26Cases(g)
	}
}

// all graphs with exactly k vertices (k given by -n), edges without multiplicity
func c26Exhaustive(_ *rand.Rand, k int, _ []string) {
	total := 1 << uint(k*k)
	for mask := 0; mask < total; mask++ {
		g := make([][]int, k)
		for v := 0; v < k; v++ {
			g[v] = []int{}
			for w := 0; w < k; w++ {
				if mask&(1<<uint(v*k+w)) != 0 {
					g[v] = append(g[v], w)
				}
			}
		}
		c26Cases(g)
	}
}
