package main

import (
	"context"
	"fmt"
	"math/rand"
	"os"
	"strings"

	"github.com/inspirer/textmapper/compiler"
	"github.com/inspirer/textmapper/syntax"
	"verif/harness/sx"
)

func init() {
	commands["c14.instantiate"] = c14Instantiate
	commands["c14.tm"] = c14Tm
	commands["c14.pipeline"] = c14Pipeline
}

type gen14 struct {
	rng   *rand.Rand
	T, N  int
	lo    int // first terminal usable in rules
	m     *xmodel
	cur   int // nonterminal being generated
	stats map[string]int
	tm    bool
	la    []int // lookahead flags (declared with %lookahead, never listed in a nonterminal's parameters)
}

func (g *gen14) term() *xe { return xref(g.lo + g.rng.Intn(g.T-g.lo)) }

// ref builds a reference to a nonterminal with one argument per parameter of the target, in the target's
// parameter order: explicit true/false, or taken from a parameter of the current nonterminal.
func (g *gen14) ref() *xe {
	target := g.rng.Intn(g.N)
	e := xref(g.T + target)
	own := g.m.nonterms[g.cur].params
	for _, p := range g.m.nonterms[target].params {
		a := xarg{param: p}
		switch {
		case (len(own) > 0 && g.rng.Intn(100) < 55) || (g.tm && g.m.params[p].def != "" && g.rng.Intn(100) < 60):
			g.stats["arg-propagated"]++
			if len(own) > 0 {
				a.take = own[g.rng.Intn(len(own))]
			}
			if g.tm {
				// by-name propagation only: the same parameter, when the current nonterminal has it
				a.take = -1
				for _, q := range own {
					if q == p {
						a.take = p
					}
				}
				if a.take < 0 {
					a.take = 0
					a.value = []string{"true", "false"}[g.rng.Intn(2)]
					if def := g.m.params[p].def; def != "" && g.rng.Intn(4) != 0 {
						g.stats["arg-default"]++
						a.value, a.omit = def, true
					}
				} else if g.rng.Intn(2) == 0 {
					g.stats["arg-implicit-by-name"]++
					a.omit = true
				}
			}
		default:
			g.stats["arg-explicit"]++
			a.value = []string{"true", "false"}[g.rng.Intn(2)]
		}
		e.args = append(e.args, a)
	}
	for _, v := range g.la {
		if g.rng.Intn(100) < 30 {
			g.stats["lookahead-flag-argument"]++
			e.args = append(e.args, xarg{param: v, value: []string{"true", "false"}[g.rng.Intn(2)]})
		}
	}
	return e
}

func (g *gen14) pred(depth int) *xpred {
	own := append(append([]int{}, g.m.nonterms[g.cur].params...), g.la...)
	if g.tm && depth > 0 {
		// the .tm syntax has no parentheses: a disjunction of conjunctions of primaries
		prim := func() *xpred {
			if g.rng.Intn(3) == 0 {
				return &xpred{op: 2, sub: []*xpred{g.pred(0)}}
			}
			return g.pred(0)
		}
		conj := func() *xpred {
			if g.rng.Intn(3) == 0 {
				return &xpred{op: 1, sub: []*xpred{prim(), prim()}}
			}
			return prim()
		}
		if g.rng.Intn(3) == 0 {
			return &xpred{op: 0, sub: []*xpred{conj(), conj()}}
		}
		return conj()
	}
	if depth <= 0 || g.rng.Intn(3) == 0 {
		p := &xpred{op: 3, param: own[g.rng.Intn(len(own))], value: "true"}
		if g.rng.Intn(5) == 0 {
			p.value = []string{"false", "x", ""}[g.rng.Intn(3)]
			if g.tm && p.value == "" {
				p.value = "false"
			}
		}
		return p
	}
	switch g.rng.Intn(3) {
	case 0:
		return &xpred{op: 2, sub: []*xpred{g.pred(0)}}
	case 1:
		return &xpred{op: 0, sub: []*xpred{g.pred(depth - 1), g.pred(depth - 1)}}
	default:
		return &xpred{op: 1, sub: []*xpred{g.pred(depth - 1), g.pred(depth - 1)}}
	}
}

func (g *gen14) part(depth int) *xe {
	r := g.rng.Intn(100)
	if depth <= 0 {
		r = g.rng.Intn(60)
	}
	switch {
	case r < 30:
		return g.term()
	case r < 60:
		return g.ref()
	case r < 72:
		return xk(syntax.Optional, g.part(depth-1))
	case r < 84:
		l := &xe{kind: syntax.List, flags: g.rng.Intn(2), sub: []*xe{g.part(depth - 1)}}
		if g.rng.Intn(3) == 0 {
			l.sub = append(l.sub, g.term())
		}
		return l
	default:
		n := 2 + g.rng.Intn(2)
		var alts []*xe
		for i := 0; i < n; i++ {
			a := g.seq(depth-1, 2)
			if len(g.m.nonterms[g.cur].params)+len(g.la) > 0 && g.rng.Intn(4) == 0 {
				g.stats["nested-conditional"]++
				a = &xe{kind: syntax.Conditional, pred: g.pred(1), sub: []*xe{a}}
			}
			alts = append(alts, a)
		}
		return xk(syntax.Choice, alts...)
	}
}

func (g *gen14) seq(depth, maxLen int) *xe {
	n := g.rng.Intn(maxLen + 1)
	var parts []*xe
	for i := 0; i < n; i++ {
		parts = append(parts, g.part(depth))
	}
	switch len(parts) {
	case 0:
		return xk(syntax.Empty)
	case 1:
		return parts[0]
	}
	return xk(syntax.Sequence, parts...)
}

func genModel14(rng *rand.Rand, stats map[string]int, tm bool) *xmodel {
	g := &gen14{rng: rng, stats: stats, tm: tm}
	m := &xmodel{}
	g.m = m
	if tm {
		k := 1 + rng.Intn(3)
		g.T, g.lo = k+2, 2
		m.terms = append([]string{"eoi", "invalid_token"}, []string{"a", "b", "c"}[:k]...)
	} else {
		g.T = 2 + rng.Intn(2)
		m.terms = synTermNames[:g.T]
	}
	np := 1 + rng.Intn(3)
	for i := 0; i < np; i++ {
		p := xparam{name: string(rune('A' + i))}
		if rng.Intn(3) == 0 || (tm && rng.Intn(2) == 0) {
			p.def = []string{"true", "false"}[rng.Intn(2)]
		}
		m.params = append(m.params, p)
	}
	if tm && rng.Intn(2) == 0 {
		stats["models-with-lookahead-flag"]++
		m.params = append(m.params, xparam{name: "V", def: "false", la: true})
		g.la = []int{np}
	}
	g.N = 2 + rng.Intn(4)
	for i := 0; i < g.N; i++ {
		nt := xnonterm{name: fmt.Sprintf("N%d", i)}
		if i > 0 {
			for p := 0; p < np; p++ {
				if rng.Intn(100) < 45 && len(nt.params) < 2 {
					nt.params = append(nt.params, p)
				}
			}
			if !tm && len(nt.params) == 2 && rng.Intn(4) == 0 {
				nt.params[0], nt.params[1] = nt.params[1], nt.params[0] // declaration order need not be sorted
			}
		}
		m.nonterms = append(m.nonterms, nt)
	}
	depth := 1 + rng.Intn(2)
	for i := 0; i < g.N; i++ {
		g.cur = i
		n := 1 + rng.Intn(3)
		var rules []*xe
		for k := 0; k < n; k++ {
			r := g.seq(depth, 3)
			if len(m.nonterms[i].params)+len(g.la) > 0 && rng.Intn(100) < 45 {
				stats["conditional-rule"]++
				r = &xe{kind: syntax.Conditional, pred: g.pred(2), sub: []*xe{r}}
			}
			rules = append(rules, r)
		}
		if n == 1 {
			m.nonterms[i].value = rules[0]
		} else {
			m.nonterms[i].value = xk(syntax.Choice, rules...)
		}
	}
	m.inputs = []xinput{{nt: 0}}
	if len(g.la) > 0 && rng.Intn(4) != 0 {
		// the rest keeps fully random uses of the flag: mostly rejected by PropagateLookaheads, which is the point
		g.laFamily()
	}
	return m
}

// laFamily rewrites N0..N2 into a shape in which a lookahead flag can be propagated: N2 tests the flag in
// rules that start with a terminal, N1 reaches N2 through an entry point (first symbol), N0 (the input) and
// the other nonterminals mention N1/N2 with and without explicit flag arguments at arbitrary positions.
func (g *gen14) laFamily() {
	m, v := g.m, g.la[0]
	for len(m.nonterms) < 3 {
		m.nonterms = append(m.nonterms, xnonterm{name: fmt.Sprintf("N%d", len(m.nonterms)), value: g.term()})
		g.N++
	}
	m.nonterms[1].params, m.nonterms[2].params = nil, nil
	flagRef := func(target int) *xe {
		e := xref(g.T + target)
		switch g.rng.Intn(3) {
		case 0:
			e.args = []xarg{{param: v, value: "true"}}
		case 1:
			e.args = []xarg{{param: v, value: "false"}}
		}
		return e
	}
	tail := func() []*xe {
		var parts []*xe
		for i, n := 0, g.rng.Intn(3); i < n; i++ {
			switch g.rng.Intn(5) {
			case 0:
				parts = append(parts, flagRef(1))
			case 1:
				parts = append(parts, flagRef(2))
			case 2:
				parts = append(parts, xk(syntax.Optional, g.term()))
			default:
				parts = append(parts, g.term())
			}
		}
		return parts
	}
	mk := func(first *xe) *xe {
		parts := append([]*xe{first}, tail()...)
		if len(parts) == 1 {
			return parts[0]
		}
		return xk(syntax.Sequence, parts...)
	}
	cond := func(value string, neg bool, body *xe) *xe {
		p := &xpred{op: 3, param: v, value: value}
		if neg {
			p = &xpred{op: 2, sub: []*xpred{p}}
		}
		return &xe{kind: syntax.Conditional, pred: p, sub: []*xe{body}}
	}
	// N2: the user of the flag
	m.nonterms[2].value = xk(syntax.Choice, cond("true", false, mk(g.term())), cond("true", true, mk(g.term())), mk(g.term()))
	// N1: reaches N2 at the start of a rule (inherits), or gives the flag explicitly
	n1 := []*xe{mk(xref(g.T + 2)), mk(g.term())}
	if g.rng.Intn(2) == 0 {
		n1 = append(n1, mk(flagRef(2)))
	}
	if g.rng.Intn(3) == 0 {
		n1 = append(n1, cond("true", g.rng.Intn(2) == 0, mk(g.term())))
	}
	m.nonterms[1].value = xk(syntax.Choice, n1...)
	// N0: the input
	var n0 []*xe
	for i, n := 0, 1+g.rng.Intn(3); i < n; i++ {
		switch g.rng.Intn(3) {
		case 0:
			n0 = append(n0, mk(flagRef(1)))
		case 1:
			n0 = append(n0, mk(flagRef(2)))
		default:
			n0 = append(n0, mk(g.term()))
		}
	}
	n0 = append(n0, mk(&xe{kind: syntax.Reference, sym: g.T + 1, args: []xarg{{param: v, value: "true"}}}))
	m.nonterms[0].value = xk(syntax.Choice, n0...)
	// the remaining nonterminals keep their random bodies but do not test or pass the flag
	for i := 3; i < len(m.nonterms); i++ {
		stripFlag(m.nonterms[i].value, v)
	}
}

func stripFlag(e *xe, v int) {
	if e.kind == syntax.Reference {
		var keep []xarg
		for _, a := range e.args {
			if a.param != v {
				keep = append(keep, a)
			}
		}
		e.args = keep
	}
	for _, s := range e.sub {
		stripFlag(s, v)
	}
	if e.kind == syntax.Conditional && predMentions(e.pred, v) {
		*e = *e.sub[0] // the rule without its condition
	}
}

func predMentions(p *xpred, v int) bool {
	if p.op == 3 && p.param == v {
		return true
	}
	for _, s := range p.sub {
		if predMentions(s, v) {
			return true
		}
	}
	return false
}

func c14Instantiate(rng *rand.Rand, n int, _ []string) {
	stats := map[string]int{}
	for i := 0; i < n; i++ {
		xm := genModel14(rng, stats, false)
		m := xm.toSyntax()
		if err := syntax.Check(m); err != nil {
			fmt.Fprintf(os.Stderr, "c14: generator produced an inconsistent model: %v\n", err)
			exitCode(3)
		}
		err := syntax.Instantiate(m)
		if err != nil {
			stats["instantiate-error"]++
			sx.Case("c14.instantiate", xm.str(), sx.List("err"))
			continue
		}
		stats["instances"] += len(m.Nonterms)
		sx.Case("c14.instantiate", xm.str(), sx.List("ok", implNontermsStr(m), implInputsStr(m)))
	}
	for k, v := range stats {
		sx.Stat(k, v)
	}
}

// ---- end to end: templated .tm text ----

func tmPred(p *xpred, m *xmodel) string {
	switch p.op {
	case 3:
		name := m.params[p.param].name
		switch p.value {
		case "true":
			return name
		default:
			return fmt.Sprintf("%s == %q", name, p.value)
		}
	case 2:
		s := p.sub[0]
		if s.value == "true" {
			return "!" + m.params[s.param].name
		}
		return fmt.Sprintf("%s != %q", m.params[s.param].name, s.value)
	case 0:
		return tmPred(p.sub[0], m) + " || " + tmPred(p.sub[1], m)
	}
	return tmPred(p.sub[0], m) + " && " + tmPred(p.sub[1], m)
}

func tmExpr14(e *xe, m *xmodel, names []string, top bool) string {
	paren := func(s *xe) string {
		t := tmExpr14(s, m, names, false)
		switch s.kind {
		case syntax.Reference, syntax.Choice, syntax.List:
			return t
		}
		return "(" + t + ")"
	}
	switch e.kind {
	case syntax.Empty:
		if top {
			return "%empty"
		}
		return "(%empty)"
	case syntax.Reference:
		if len(e.args) == 0 {
			return names[e.sym]
		}
		var as []string
		for k := range e.args {
			// textual order is free: sortArgs must restore the parameter order
			a := e.args[(k+len(names))%len(e.args)]
			if a.omit {
				continue
			}
			pn := m.params[a.param].name
			switch {
			case a.value == "true":
				as = append(as, "+"+pn)
			case a.value == "false":
				as = append(as, "~"+pn)
			default:
				as = append(as, pn) // propagated by name
			}
		}
		if len(as) == 0 {
			return names[e.sym]
		}
		return names[e.sym] + "<" + strings.Join(as, ", ") + ">"
	case syntax.Optional:
		return paren(e.sub[0]) + "?"
	case syntax.Conditional:
		return "[" + tmPred(e.pred, m) + "] " + tmExpr14(e.sub[0], m, names, true)
	case syntax.Choice:
		parts := make([]string, len(e.sub))
		for i, s := range e.sub {
			parts[i] = tmExpr14(s, m, names, true)
		}
		return "(" + strings.Join(parts, " | ") + ")"
	case syntax.Sequence:
		parts := make([]string, len(e.sub))
		for i, s := range e.sub {
			parts[i] = tmExpr14(s, m, names, false)
			if s.kind == syntax.Sequence || s.kind == syntax.Empty {
				parts[i] = "(" + tmExpr14(s, m, names, true) + ")"
			}
		}
		return strings.Join(parts, " ")
	case syntax.List:
		q := "*"
		if e.flags&1 != 0 {
			q = "+"
		}
		if len(e.sub) > 1 {
			return "(" + tmExpr14(e.sub[0], m, names, true) + " separator " + tmExpr14(e.sub[1], m, names, false) + ")" + q
		}
		return paren(e.sub[0]) + q
	}
	return "?unsupported?"
}

func c14Tm(rng *rand.Rand, n int, _ []string) {
	stats := map[string]int{}
	for i := 0; i < n; i++ {
		m := genModel14(rng, stats, true)
		names := append([]string{}, m.terms...)
		for _, nt := range m.nonterms {
			names = append(names, nt.name)
		}
		var sb strings.Builder
		sb.WriteString("language g14(go);\n\nlang = \"g14\"\npackage = \"verifgen/g14\"\n\n:: lexer\n\n")
		for t := 2; t < len(m.terms); t++ {
			fmt.Fprintf(&sb, "%s: /%s/\n", m.terms[t], m.terms[t])
		}
		sb.WriteString("invalid_token:\n\n:: parser\n\n")
		// half of the plain flags are declared inline in the headers of the nonterminals that take them (one
		// declaration per nonterminal, same name): their values travel between nonterminals by NAME
		inline := make([]bool, len(m.params))
		for j, p := range m.params {
			inline[j] = !p.la && rng.Intn(2) == 0
		}
		for j, p := range m.params {
			if inline[j] {
				stats["tm-inline-params"]++
				continue
			}
			if p.la {
				fmt.Fprintf(&sb, "%%lookahead flag %s = %s;\n", p.name, p.def)
			} else if p.def != "" {
				fmt.Fprintf(&sb, "%%flag %s = %s;\n", p.name, p.def)
			} else {
				fmt.Fprintf(&sb, "%%flag %s;\n", p.name)
			}
		}
		sb.WriteString("\n%input N0;\n\n")
		for _, nt := range m.nonterms {
			sb.WriteString(nt.name)
			if len(nt.params) > 0 {
				var ps []string
				for _, p := range nt.params {
					switch {
					case inline[p] && m.params[p].def != "":
						ps = append(ps, fmt.Sprintf("flag %s = %s", m.params[p].name, m.params[p].def))
					case inline[p]:
						ps = append(ps, "flag "+m.params[p].name)
					default:
						ps = append(ps, m.params[p].name)
					}
				}
				sb.WriteString("<" + strings.Join(ps, ", ") + ">")
			}
			sb.WriteString(" :\n")
			rules := []*xe{nt.value}
			if nt.value.kind == syntax.Choice {
				rules = nt.value.sub
			}
			for k, r := range rules {
				if k > 0 {
					sb.WriteString("  | ")
				} else {
					sb.WriteString("    ")
				}
				sb.WriteString(tmExpr14(r, m, names, true) + "\n")
			}
			sb.WriteString(";\n\n")
		}
		text := sb.String()
		if f := os.Getenv("VERIF_DUMP"); f != "" {
			os.WriteFile(f, []byte(text), 0o644) // the last grammar, for reproducing a crash of the implementation
		}
		gr, err := compiler.Compile(context.Background(), "g14.tm", text, compiler.Params{CheckOnly: true})
		if gr == nil || gr.Parser == nil || len(gr.Parser.Rules) == 0 {
			stats["tm-not-compiled"]++
			msg := ""
			if err != nil {
				msg = err.Error()
			}
			if stats["tm-not-compiled"] <= 3 || os.Getenv("VERIF_ALLERR") != "" {
				fmt.Fprintf(os.Stderr, "c14.tm: not compiled: %s\n%s\n", firstLines(msg, 3), text)
			}
			cls := "other"
			if strings.Contains(msg, "uninitialized parameter") {
				cls = "uninitialized" // the generator provides every parameter (explicitly, by name or by default)
			}
			sx.Case("c14.tm", m.str(), sx.List("err", cls))
			continue
		}
		stats["tm-compiled"]++
		syms := make([]string, len(gr.Syms))
		for j, s := range gr.Syms {
			syms[j] = sx.Str(s.Name)
		}
		rules := make([]string, len(gr.Parser.Rules))
		for j, r := range gr.Parser.Rules {
			var rhs []int
			for _, s := range r.RHS {
				if !s.IsStateMarker() {
					rhs = append(rhs, int(s))
				}
			}
			rules[j] = sx.List(sx.Int(int(r.LHS)), sx.Ints(rhs))
		}
		sx.Case("c14.tm", m.str(), sx.List("ok", sx.Int(gr.Parser.NumTerminals), sx.List(syms...), sx.List(rules...)))
	}
	for k, v := range stats {
		sx.Stat(k, v)
	}
}

// c14Pipeline runs Instantiate and then Expand on the same model: the instantiated nonterminals carry the
// unexported group field, which delays sortTail until all instances of one template have been expanded.
func c14Pipeline(rng *rand.Rand, n int, _ []string) {
	stats := map[string]int{}
	for i := 0; i < n; i++ {
		xm := genModel14(rng, stats, false)
		m := xm.toSyntax()
		if err := syntax.Instantiate(m); err != nil {
			sx.Case("c14.pipeline", xm.str(), sx.List("err"))
			continue
		}
		before := len(m.Nonterms)
		if err := syntax.Expand(m, syntax.DefaultExpandOptions()); err != nil {
			sx.Case("c14.pipeline", xm.str(), sx.List("err"))
			continue
		}
		if len(m.Nonterms) > before {
			stats["pipeline-with-extracted-nonterminals"]++
		}
		sx.Case("c14.pipeline", xm.str(), sx.List("ok", implNontermsStr(m), implInputsStr(m)))
	}
	for k, v := range stats {
		sx.Stat(k, v)
	}
}
