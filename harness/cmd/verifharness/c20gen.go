package main

// c20.gen: the listener events of GENERATED event-based parsers with reported (injected) skipped tokens.
//
// Random grammars with fixWhitespace (most), an injected (space) comment token, optionally an injected
// invalid_token / whitespace / regular tokens, nullable tails, optional parts, lists, state markers at every
// position (also at the end of a rule and behind nullable tails), mid-rule / whole-rule / nonterminal-level arrows,
// empty rules with arrows, error recovery rules in a fraction, parser.go's own pending-token flush or the generated
// TokenStream (tokenStream = true). Inputs: sentences of random derivations with blanks and comments sprinkled between
// any two tokens, and broken inputs. The events are recorded in report order and judged by the oracle of c20.events
// (TreeBuilder.in_input / ok_events); the streams are also driven into builder.addNode (c20.build).

import (
	"fmt"
	"math/rand"
	"os"
	"strings"

	tmast "github.com/inspirer/textmapper/parsers/tm/ast"
	"verif/harness/sx"
)

func init() {
	commands["c20.gen"] = c20Gen
}

const g20Err = -1 // the 'error' terminal inside a rule

type g20Elem struct {
	sym int // terminal 1..nterms-1, nonterminal nterms.., or g20Err
	rep int // 0 once, 1 optional, 2 plus, 3 star, 4 (X separator 's')+, 5 (X separator 's')*
	sep int
}

type g20Rule struct {
	lhs    int
	elems  []g20Elem
	arrows []arrow // over element positions
	marks  [][]int // len(elems)+1 lists of marker ids: in front of element i / at the end of the rule
	endIn  bool    // the end-of-rule markers are written before the closing parentheses of arrows ending there
}

type g20Gram struct {
	nterms, nnonterms int
	rules             []g20Rule
	ntArrow           []int // nonterminal-level arrow type (-1: none)
	fixws, optimize   bool
	tokenStream       bool
	injComment        bool
	injLine           bool
	injInvalid        bool
	injWS             bool
	injTok            []int
	hasErr            bool
	minH              []int
}

func (g *g20Gram) termChar(t int) byte { return byte('a' + t - 1) }
func (g *g20Gram) ntName(s int) string { return fmt.Sprintf("N%d", s-g.nterms) }

func g20TypeName(i int) string { return fmt.Sprintf("T%02d", i) }

func (g *g20Gram) mandatory(e g20Elem) bool { return e.rep == 0 || e.rep == 2 || e.rep == 4 }

func genG20(rng *rand.Rand) *g20Gram {
	const ntypes = 6
	g := &g20Gram{nterms: 4 + rng.Intn(4), nnonterms: 2 + rng.Intn(4)}
	g.fixws = rng.Intn(5) != 0
	g.optimize = rng.Intn(2) == 0
	g.tokenStream = rng.Intn(4) == 0
	if g.fixws {
		g.injComment = rng.Intn(8) != 0
		g.injLine = rng.Intn(3) == 0
		g.injInvalid = rng.Intn(3) == 0
		g.injWS = rng.Intn(10) == 0
	}
	for t := 1; t < g.nterms; t++ {
		if rng.Intn(6) == 0 {
			g.injTok = append(g.injTok, t)
		}
	}
	g.hasErr = rng.Intn(3) == 0
	term := func() int { return 1 + rng.Intn(g.nterms-1) }
	n0 := g.nterms
	// N0: a list of N1 in one of several spellings
	item := g20Elem{sym: n0 + 1}
	switch rng.Intn(6) {
	case 0:
		g.rules = append(g.rules, g20Rule{lhs: n0, elems: []g20Elem{{sym: n0}, item}}, g20Rule{lhs: n0, elems: []g20Elem{item}})
	case 1:
		g.rules = append(g.rules, g20Rule{lhs: n0, elems: []g20Elem{{sym: n0}, item}}, g20Rule{lhs: n0})
	case 2:
		g.rules = append(g.rules, g20Rule{lhs: n0, elems: []g20Elem{{sym: n0 + 1, rep: 2}}})
	case 3:
		g.rules = append(g.rules, g20Rule{lhs: n0, elems: []g20Elem{{sym: n0 + 1, rep: 3}}})
	case 4:
		g.rules = append(g.rules, g20Rule{lhs: n0, elems: []g20Elem{{sym: n0 + 1, rep: 4 + rng.Intn(2), sep: term()}}})
	default:
		g.rules = append(g.rules, g20Rule{lhs: n0, elems: []g20Elem{{sym: term()}, {sym: n0 + 1, rep: 3}, {sym: term(), rep: rng.Intn(2)}}})
	}
	forceNullable := map[int]bool{} // nonterminals used as a tail that can be empty
	for nt := 1; nt < g.nnonterms; nt++ {
		lhs := g.nterms + nt
		nrules := 1 + rng.Intn(3)
		if forceNullable[lhs] && nrules == 1 {
			nrules = 2
		}
		used := map[int]bool{}
		for r := 0; r < nrules; r++ {
			var el []g20Elem
			if nt >= 2 && r == nrules-1 && (rng.Intn(2) == 0 || forceNullable[lhs]) {
				g.rules = append(g.rules, g20Rule{lhs: lhs}) // a nullable nonterminal
				continue
			}
			// a leading terminal, distinct between the alternatives (keeps most grammars LALR(1))
			lead := term()
			for k := 0; k < 6 && used[lead]; k++ {
				lead = term()
			}
			used[lead] = true
			if nt == 1 || rng.Intn(4) != 0 {
				el = append(el, g20Elem{sym: lead})
			}
			for k := rng.Intn(4); k > 0; k-- {
				var e g20Elem
				if nt+1 < g.nnonterms && rng.Intn(2) == 0 {
					e.sym = g.nterms + nt + 1 + rng.Intn(g.nnonterms-nt-1)
					switch rng.Intn(8) {
					case 0:
						e.rep = 1
					case 1:
						e.rep = 2 + rng.Intn(2)
					case 2:
						e.rep, e.sep = 4+rng.Intn(2), term()
					}
				} else {
					e.sym = term()
					switch rng.Intn(6) {
					case 0, 1:
						e.rep = 1
					case 2:
						e.rep = 2 + rng.Intn(2)
					}
				}
				el = append(el, e)
			}
			// a tail that can be empty (the delicate shape for fixTrailingWS)
			if len(el) > 0 && rng.Intn(5) < 2 {
				var e g20Elem
				// ('x'? and N? are expanded into two rules by the compiler: only lists and nullable nonterminals leave
				// an empty symbol on the stack)
				if nt+1 < g.nnonterms && rng.Intn(2) == 0 {
					e = g20Elem{sym: g.nterms + nt + 1 + rng.Intn(g.nnonterms-nt-1), rep: []int{1, 3, 0, 0}[rng.Intn(4)]}
					if e.rep == 0 {
						forceNullable[e.sym] = true
					}
				} else {
					e = g20Elem{sym: term(), rep: []int{1, 3, 3, 3}[rng.Intn(4)]}
				}
				el = append(el, e)
			}
			g.rules = append(g.rules, g20Rule{lhs: lhs, elems: el})
		}
		if g.hasErr && (rng.Intn(2) == 0 || nt == 1) {
			var el []g20Elem
			switch rng.Intn(4) {
			case 0:
				el = []g20Elem{{sym: g20Err}}
			case 1:
				el = []g20Elem{{sym: g20Err}, {sym: term()}}
			case 2:
				el = []g20Elem{{sym: term()}, {sym: g20Err}, {sym: term()}}
			default:
				el = []g20Elem{{sym: term()}, {sym: g20Err}}
			}
			g.rules = append(g.rules, g20Rule{lhs: lhs, elems: el})
		}
	}
	// every nonterminal is referenced from an earlier one
	for nt := 2; nt < g.nnonterms; nt++ {
		ref := false
		for _, r := range g.rules {
			if r.lhs >= g.nterms+nt {
				continue
			}
			for _, e := range r.elems {
				if e.sym == g.nterms+nt {
					ref = true
				}
			}
		}
		if !ref {
			var cands []int
			for i, r := range g.rules {
				if r.lhs >= n0+1 && r.lhs < g.nterms+nt && len(r.elems) > 0 && r.elems[0].sym != g20Err && (len(r.elems) < 2 || r.elems[1].sym != g20Err) {
					cands = append(cands, i)
				}
			}
			if len(cands) == 0 {
				return nil
			}
			i := cands[rng.Intn(len(cands))]
			g.rules[i].elems = append(g.rules[i].elems, g20Elem{sym: g.nterms + nt}) // a (possibly nullable) tail
		}
	}
	// arrows and markers
	g.ntArrow = make([]int, g.nnonterms)
	for nt := range g.ntArrow {
		g.ntArrow[nt] = -1
		if rng.Intn(4) == 0 {
			g.ntArrow[nt] = rng.Intn(ntypes)
		}
	}
	for i := range g.rules {
		r := &g.rules[i]
		n := len(r.elems)
		for _, a := range genArrows(rng, n, ntypes) {
			if a.start == 0 && a.end == n {
				r.arrows = append(r.arrows, a)
				continue
			}
			if a.start == a.end && a.start == n {
				continue
			}
			// a part that can be absent needs a present symbol after it (empty ranges at the end of a rule are rejected)
			mandIn, mandAfter := false, false
			for k := a.start; k < a.end; k++ {
				mandIn = mandIn || g.mandatory(r.elems[k])
			}
			for k := a.end; k < n; k++ {
				mandAfter = mandAfter || g.mandatory(r.elems[k])
			}
			if mandIn || mandAfter {
				r.arrows = append(r.arrows, a)
			}
		}
		r.marks = make([][]int, n+1)
		for k := 0; k <= n; k++ {
			p := 6
			if k == n {
				p = 3
				if n > 0 && !g.mandatory(r.elems[n-1]) {
					p = 2
				}
			}
			if rng.Intn(p) == 0 {
				r.marks[k] = append(r.marks[k], rng.Intn(3))
				if rng.Intn(6) == 0 {
					r.marks[k] = append(r.marks[k], 3)
				}
			}
		}
		r.endIn = rng.Intn(2) == 0
	}
	// minimal derivation heights (termination of the sentence generator; unproductive grammars are dropped)
	const inf = 1 << 20
	g.minH = make([]int, g.nterms+g.nnonterms)
	for s := g.nterms; s < len(g.minH); s++ {
		g.minH[s] = inf
	}
	for changed := true; changed; {
		changed = false
		for _, r := range g.rules {
			if h := g.ruleH(r); h < g.minH[r.lhs] {
				g.minH[r.lhs] = h
				changed = true
			}
		}
	}
	for s := g.nterms; s < len(g.minH); s++ {
		if g.minH[s] >= inf {
			return nil
		}
	}
	return g
}

func (g *g20Gram) ruleH(r g20Rule) int {
	h := 0
	for _, e := range r.elems {
		if e.sym == g20Err {
			h = max(h, 3) // derivations through error rules are possible but not the cheapest
			continue
		}
		if g.mandatory(e) && g.minH[e.sym] > h {
			h = g.minH[e.sym]
		}
	}
	return h + 1
}

func (g *g20Gram) elemText(e g20Elem) string {
	var s string
	switch {
	case e.sym == g20Err:
		return "error "
	case e.sym < g.nterms:
		s = fmt.Sprintf("'%c'", g.termChar(e.sym))
	default:
		s = g.ntName(e.sym)
	}
	switch e.rep {
	case 1:
		s += "?"
	case 2:
		s += "+"
	case 3:
		s += "*"
	case 4:
		s = fmt.Sprintf("(%s separator '%c')+", s, g.termChar(e.sep))
	case 5:
		s = fmt.Sprintf("(%s separator '%c')*", s, g.termChar(e.sep))
	}
	return s + " "
}

func (g *g20Gram) ruleText(r g20Rule) string {
	n := len(r.elems)
	open := make([][]int, n+1)
	close := make([][]int, n+1)
	var whole []int
	for k, a := range r.arrows {
		if a.start == 0 && a.end == n {
			whole = append(whole, k)
			continue
		}
		open[a.start] = append([]int{k}, open[a.start]...)
		close[a.end] = append(close[a.end], k)
	}
	var sb strings.Builder
	marks := func(i int) {
		for _, m := range r.marks[i] {
			fmt.Fprintf(&sb, ".m%d ", m)
		}
	}
	for i := 0; i <= n; i++ {
		if i == n && r.endIn && n > 0 {
			marks(i)
		}
		for _, k := range close[i] {
			fmt.Fprintf(&sb, "-> %s ) ", g20TypeName(r.arrows[k].typ))
		}
		if i == n {
			break
		}
		for range open[i] {
			sb.WriteString("( ")
		}
		marks(i)
		sb.WriteString(g.elemText(r.elems[i]))
	}
	if n == 0 {
		sb.WriteString("%empty ")
	}
	if !(r.endIn && n > 0) {
		marks(n)
	}
	for _, k := range whole {
		fmt.Fprintf(&sb, "-> %s ", g20TypeName(r.arrows[k].typ))
	}
	return sb.String()
}

func (g *g20Gram) toTM(name string, withAST bool) string {
	var sb strings.Builder
	if withAST {
		fmt.Fprintf(&sb, "language %s(go);\n\nlang = %q\npackage = \"verifgen/%s/base\"\neventBased = true\neventFields = true\neventAST = true\n", name, name, name)
	} else {
		fmt.Fprintf(&sb, "language %s(go);\n\nlang = %q\npackage = \"verifgen/%s\"\neventBased = true\n", name, name, name)
	}
	if g.fixws {
		sb.WriteString("fixWhitespace = true\n")
	}
	if g.optimize {
		sb.WriteString("optimizeTables = true\n")
	}
	if g.tokenStream {
		sb.WriteString("tokenStream = true\n")
	}
	sb.WriteString("\n:: lexer\n\n")
	for t := 1; t < g.nterms; t++ {
		fmt.Fprintf(&sb, "'%c': /%c/\n", g.termChar(t), g.termChar(t))
	}
	sb.WriteString("whitespace: /[ \\n\\t]+/ (space)\ncomment: /#[a-z ]*;/ (space)\nlcomment: /%[^\\n]*/ (space)\ninvalid_token:\n")
	if g.hasErr {
		sb.WriteString("error:\n")
	}
	sb.WriteString("\n:: parser\n\n%input N0;\n\n")
	if g.injComment {
		sb.WriteString("%inject comment -> Comment;\n")
	}
	if g.injLine {
		sb.WriteString("%inject lcomment -> LineComment;\n")
	}
	if g.injInvalid {
		sb.WriteString("%inject invalid_token -> InvalidToken;\n")
	}
	if g.injWS {
		sb.WriteString("%inject whitespace -> Blank;\n")
	}
	for _, t := range g.injTok {
		fmt.Fprintf(&sb, "%%inject '%c' -> Tok%c;\n", g.termChar(t), g.termChar(t)-'a'+'A')
	}
	sb.WriteString("\n")
	for nt := 0; nt < g.nnonterms; nt++ {
		first := true
		for _, r := range g.rules {
			if r.lhs != g.nterms+nt {
				continue
			}
			if first {
				sb.WriteString(g.ntName(r.lhs))
				if g.ntArrow[nt] >= 0 {
					sb.WriteString(" -> " + g20TypeName(g.ntArrow[nt]))
				}
				sb.WriteString(" :\n    ")
				first = false
			} else {
				sb.WriteString("\n  | ")
			}
			sb.WriteString(g.ruleText(r))
		}
		sb.WriteString("\n;\n\n")
	}
	return sb.String()
}

// derive appends the terminals of a random derivation of sym (g20Err marks the place of an error rule's 'error').
func (g *g20Gram) derive(rng *rand.Rand, sym int, budget *int, out []int) []int {
	if sym < g.nterms {
		return append(out, sym)
	}
	var cands []int
	for i, r := range g.rules {
		if r.lhs == sym {
			cands = append(cands, i)
		}
	}
	*budget--
	ri := cands[rng.Intn(len(cands))]
	if sym == g.nterms && *budget > 0 && rng.Intn(4) != 0 {
		ri = cands[0] // the list keeps growing while the budget lasts
	}
	cheap := *budget < 0
	if cheap {
		best := 1 << 30
		for _, c := range cands {
			if h := g.ruleH(g.rules[c]); h < best {
				best, ri = h, c
			}
		}
	} else {
		// derivations through error rules are rare
		for k := 0; k < 3; k++ {
			hasErr := false
			for _, e := range g.rules[ri].elems {
				hasErr = hasErr || e.sym == g20Err
			}
			if !hasErr || rng.Intn(4) == 0 {
				break
			}
			ri = cands[rng.Intn(len(cands))]
		}
	}
	for _, e := range g.rules[ri].elems {
		if e.sym == g20Err {
			out = append(out, g20Err)
			continue
		}
		reps := 1
		switch e.rep {
		case 1:
			reps = rng.Intn(2)
		case 2, 4:
			reps = 1 + rng.Intn(3)
		case 3, 5:
			reps = rng.Intn(3)
		}
		if sym == g.nterms && e.rep >= 2 {
			reps += rng.Intn(4) // the top-level list
		}
		if cheap {
			if g.mandatory(e) {
				reps = 1
			} else {
				reps = 0
			}
		}
		for k := 0; k < reps; k++ {
			if k > 0 && e.rep >= 4 {
				out = append(out, e.sep)
			}
			out = g.derive(rng, e.sym, budget, out)
		}
	}
	return out
}

// trivia: blanks and comments between two tokens (possibly none, possibly several in a row).
func g20Trivia(rng *rand.Rand, broken bool) string {
	var sb strings.Builder
	for k := []int{0, 0, 1, 1, 1, 2, 3}[rng.Intn(7)]; k > 0; k-- {
		switch rng.Intn(9) {
		case 0, 1, 2:
			sb.WriteString(strings.Repeat(" ", 1+rng.Intn(2)))
		case 3:
			sb.WriteString("\n")
		case 4, 5:
			sb.WriteString("#" + []string{"", "c", "a b", " x "}[rng.Intn(4)] + ";")
		case 6:
			sb.WriteString("%" + []string{"", "l", " a#b;"}[rng.Intn(3)] + "\n")
		case 7:
			if broken {
				sb.WriteString([]string{"!", "@!", "#ab", "!#c;", "#c;!", " ! "}[rng.Intn(6)])
			} else {
				sb.WriteString("\t")
			}
		default:
			sb.WriteString(" #c; ")
		}
	}
	return sb.String()
}

// g20Driver: VerifRun(mode, input); mode = "<stop after this many errors, 0 = never>"; the answer lists the listener
// callbacks in report order. With a generated AST package (eventAST) the stream is also driven into the generated
// builder.addNode and the resulting stack of trees is appended.
func g20Driver(p *genPkg) string { return g20DriverFor(p, false) }

func g20DriverAST(p *genPkg) string { return g20DriverFor(p, true) }

func g20DriverFor(p *genPkg, withAST bool) string {
	var sb strings.Builder
	rec := p.g.Parser.IsRecovering
	stream := p.g.Options.TokenStream
	q := ""
	fmt.Fprintf(&sb, "package %s\n\nimport (\n\t\"fmt\"\n\t\"strings\"\n", p.name)
	if withAST {
		q = "base."
		fmt.Fprintf(&sb, "\n\t\"verifgen/%s/base\"\n\t\"verifgen/%s/base/ast\"\n", p.name, p.name)
	}
	sb.WriteString(")\n\n")
	sb.WriteString(strings.ReplaceAll(`func VerifRun(mode string, input []byte) string {
	var stopAfter int
	fmt.Sscanf(mode, "%d", &stopAfter)
	var ev strings.Builder
	var evs [][3]int
	nerr := 0
	_ = nerr
	listener := func(t Q.NodeType, offset, endoffset int) {
		fmt.Fprintf(&ev, " (%d %d %d)", int(t), offset, endoffset)
		evs = append(evs, [3]int{int(t), offset, endoffset})
	}
	var p Q.Parser
`, "Q.", q))
	if rec {
		fmt.Fprintf(&sb, "\tp.Init(func(se %sSyntaxError) bool {\n\t\tnerr++\n\t\treturn stopAfter == 0 || nerr < stopAfter\n\t}, listener)\n", q)
	} else {
		sb.WriteString("\tp.Init(listener)\n")
	}
	if stream {
		fmt.Fprintf(&sb, "\tvar s %sTokenStream\n\ts.Init(string(input), listener)\n\terr := p.Parse(&s)\n", q)
	} else {
		fmt.Fprintf(&sb, "\tvar l %sLexer\n\tl.Init(string(input))\n\terr := p.Parse(&l)\n", q)
	}
	sb.WriteString(strings.ReplaceAll(`	res := "accept"
	if _, ok := err.(Q.SyntaxError); ok {
		res = "syntax"
	} else if err != nil {
		res = "other"
	}
	forest := ""
`, "Q.", q))
	if withAST {
		sb.WriteString("\tif len(evs) > 0 && len(evs) < 3000 {\n\t\tforest = \" \" + ast.VerifBuild(string(input), evs)\n\t}\n")
	}
	sb.WriteString(`	return fmt.Sprintf("(%s (events%s)%s)", res, ev.String(), forest)
}
`)
	return sb.String()
}

// g20BuildHook: added to the generated ast package; drives the generated builder.addNode and dumps its stack
// (the same as parsers/tm/ast/verif_hooks.go).
func g20BuildHook(name string) string {
	return `package ast

import (
	"fmt"
	"strings"

	"verifgen/` + name + `/base"
)

func VerifBuild(content string, events [][3]int) string {
	b := newBuilder("", content)
	for _, e := range events {
		b.addNode(base.NodeType(e[0]), e[1], e[2])
	}
	var sb strings.Builder
	sb.WriteString("(")
	for i, n := range b.stack {
		if i > 0 {
			sb.WriteString(" ")
		}
		verifDump(&sb, n, nil)
	}
	sb.WriteString(")")
	return sb.String()
}

func verifDump(sb *strings.Builder, n *Node, parent *Node) {
	fmt.Fprintf(sb, "(%d %d %d", int(n.t), n.offset, n.endoffset)
	if n.parent != parent {
		sb.WriteString(" badparent")
	}
	for c := n.firstChild; c != nil; c = c.next {
		sb.WriteString(" ")
		verifDump(sb, c, n)
	}
	sb.WriteString(")")
}
`
}

// parseG20Answer: "(res (events (t o e) ...) forest?)" -> status, events, result, forest of the generated builder
func parseG20Answer(a string) (string, [][3]int, string, string) {
	if !strings.HasPrefix(a, "(") {
		f := strings.Fields(a)
		if len(f) == 0 {
			return "noanswer", nil, "", ""
		}
		return f[0], nil, "", "" // panic / timeout / nobuild / noanswer
	}
	i := strings.Index(a, "(events")
	if i < 0 {
		return "garbled", nil, "", ""
	}
	res := strings.TrimSpace(a[1:i])
	// the end of the events list
	depth, end := 0, -1
	for k := i; k < len(a); k++ {
		if a[k] == '(' {
			depth++
		} else if a[k] == ')' {
			depth--
			if depth == 0 {
				end = k
				break
			}
		}
	}
	if end < 0 || !strings.HasSuffix(a, ")") {
		return "garbled", nil, "", ""
	}
	var evs [][3]int
	rest := a[i+len("(events") : end]
	for {
		j := strings.Index(rest, "(")
		if j < 0 {
			break
		}
		k := strings.Index(rest[j:], ")")
		if k < 0 {
			return "garbled", nil, "", ""
		}
		var e [3]int
		if _, err := fmt.Sscanf(rest[j:j+k+1], "(%d %d %d)", &e[0], &e[1], &e[2]); err != nil {
			return "garbled", nil, "", ""
		}
		evs = append(evs, e)
		rest = rest[j+k+1:]
	}
	forest := strings.TrimSpace(a[end+1 : len(a)-1])
	return "ok", evs, res, forest
}

func c20Gen(rng *rand.Rand, n int, args []string) {
	perGrammar := 40
	var pkgs []*genPkg
	var grams []*g20Gram
	tried, conflicts, other, astRejected := 0, 0, 0, 0
	withAST := map[string]bool{}
	for len(pkgs) < n && tried < 80*n {
		tried++
		g := genG20(rng)
		if g == nil {
			continue
		}
		name := fmt.Sprintf("w%04d", len(pkgs))
		p := &genPkg{name: name, tm: g.toTM(name, false), driver: g20Driver}
		c16Compile(p)
		if p.err == nil && rng.Intn(2) == 0 {
			// the same grammar with a generated AST package, when the field inference accepts it
			pa := &genPkg{name: name, tm: g.toTM(name, true), driver: g20DriverAST}
			c16Compile(pa)
			if pa.err == nil {
				files := map[string]string{}
				for k, v := range pa.files {
					files["base/"+k] = v
				}
				files["base/ast/verif_build.go"] = g20BuildHook(name)
				pa.files = files
				p = pa
				withAST[name] = true
			} else {
				astRejected++
			}
		}
		if p.err != nil {
			if strings.Contains(p.err.Error(), "conflict") {
				conflicts++
			} else {
				other++
				if os.Getenv("C20_DEBUG") != "" {
					fmt.Fprintf(os.Stderr, "---- %s\n%s\n", firstLines(p.err.Error(), 4), p.tm)
				}
			}
			continue
		}
		pkgs = append(pkgs, p)
		grams = append(grams, g)
	}
	type sample struct {
		pkg    int
		text   string
		broken bool
	}
	var reqs []genRequest
	var samples []sample
	for i, p := range pkgs {
		g := grams[i]
		for s := 0; s < perGrammar; s++ {
			budget := 1 + rng.Intn(12)
			toks := g.derive(rng, g.nterms, &budget, nil)
			if len(toks) > 60 {
				toks = toks[:60]
			}
			broken := false
			// the place of 'error': some broken text
			var nt []int
			for _, t := range toks {
				if t == g20Err {
					broken = true
					for k := rng.Intn(3); k > 0; k-- {
						nt = append(nt, 1+rng.Intn(g.nterms-1))
					}
				} else {
					nt = append(nt, t)
				}
			}
			toks = nt
			if !broken && s%3 == 2 {
				broken = true
				for k := 1 + rng.Intn(2); k > 0; k-- {
					switch {
					case len(toks) > 0 && rng.Intn(3) == 0:
						q := rng.Intn(len(toks))
						toks = append(toks[:q:q], toks[q+1:]...)
					case len(toks) > 0 && rng.Intn(2) == 0:
						toks[rng.Intn(len(toks))] = 1 + rng.Intn(g.nterms-1)
					default:
						q := rng.Intn(len(toks) + 1)
						toks = append(toks[:q:q], append([]int{1 + rng.Intn(g.nterms-1)}, toks[q:]...)...)
					}
				}
			}
			var text strings.Builder
			dense := rng.Intn(4) == 0 // no trivia at all
			for _, t := range toks {
				if !dense {
					text.WriteString(g20Trivia(rng, broken))
				}
				text.WriteByte(g.termChar(t))
			}
			if !dense {
				text.WriteString(g20Trivia(rng, broken))
			}
			mode := "0"
			if broken && rng.Intn(4) == 0 {
				mode = fmt.Sprint(1 + rng.Intn(2))
			}
			samples = append(samples, sample{i, text.String(), broken})
			reqs = append(reqs, genRequest{pkg: p.name, mode: mode, input: []byte(text.String())})
		}
	}
	answers, err := buildAndRun(pkgs, reqs)
	if err != nil {
		fmt.Fprintln(os_stderr(), "c20.gen:", err)
		exitCode(3)
	}
	for i, p := range pkgs {
		if p.err != nil {
			sx.Case("c20.gennobuild", sx.List(sx.Str(p.tm), sx.Str(firstLines(p.err.Error(), 6))), "failed")
			continue
		}
		g := grams[i]
		sx.Stat(fmt.Sprintf("gen_fixws_%v", g.fixws), 1)
		sx.Stat(fmt.Sprintf("gen_recovering_%v", p.g.Parser.IsRecovering), 1)
		sx.Stat(fmt.Sprintf("gen_tokenstream_%v", g.tokenStream), 1)
		if g.injComment || g.injLine || g.injInvalid || g.injWS {
			sx.Stat("gen_reports_skipped_tokens", 1)
		}
		if g.injInvalid {
			sx.Stat("gen_reports_invalid_token", 1)
		}
		if len(g.injTok) > 0 {
			sx.Stat("gen_reports_regular_tokens", 1)
		}
		endMark, nullTailMark := false, false
		for _, r := range p.g.Parser.Rules {
			if k := len(r.RHS); k > 0 && r.RHS[k-1].IsStateMarker() {
				endMark = true
				for j := k - 1; j >= 0; j-- {
					if !r.RHS[j].IsStateMarker() {
						nullTailMark = nullTailMark || p.g.Syms[r.RHS[j]].CanBeNull
						break
					}
				}
			}
		}
		if endMark {
			sx.Stat("gen_marker_at_rule_end", 1)
		}
		if nullTailMark {
			sx.Stat("gen_marker_after_nullable_tail", 1)
		}
	}
	for k, s := range samples {
		p := pkgs[s.pkg]
		if p.err != nil {
			continue
		}
		st, evs, res, forest := parseG20Answer(answers[k])
		sx.Case("c20.genev", sx.List(sx.Str(p.tm), sx.Int(len(s.text)), sx.Str(s.text)), sx.List(st, evStr(evs)))
		if s.broken {
			sx.Stat("gen_inputs_broken", 1)
		} else {
			sx.Stat("gen_inputs_sentences", 1)
		}
		if res != "" {
			sx.Stat("gen_result_"+res, 1)
		}
		if !s.broken && res != "accept" {
			sx.Stat("gen_sentence_not_accepted", 1)
		}
		if st == "ok" && forest != "" {
			// the generated builder.addNode (go_ast_parse.go.tmpl instantiated for this grammar) on the stream
			sx.Case("c20.build", sx.List(sx.Int(len(s.text)), evStr(evs)), forest)
			sx.Stat("gen_streams_into_generated_builder", 1)
		} else if st == "ok" && len(evs) > 0 && len(evs) < 3000 && k%2 == 0 {
			// builder.addNode (the tm instance of go_ast_parse.go.tmpl) on the stream of a generated parser
			sx.Case("c20.build", sx.List(sx.Int(len(s.text)), evStr(evs)), tmast.VerifBuild(s.text, evs))
		}
	}
	sx.Stat("gen_grammars_tried", tried)
	sx.Stat("gen_grammars_conflicting", conflicts)
	sx.Stat("gen_grammars_rejected_otherwise", other)
	sx.Stat("gen_grammars_with_generated_ast", len(withAST))
	sx.Stat("gen_ast_variant_rejected", astRejected)
}
