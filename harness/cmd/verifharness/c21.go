package main

// C21 — typed AST accessors match the trees the parser builds.
//
// Random event-based grammars (eventBased, eventFields, eventAST) with typed nonterminals, inline arrows,
// categories (%interface, sometimes called TokenSet), named fields, optional parts, groups, lists and an
// injected token. The generated ast package gets a monitor (generated from grammar.Parser.Types) that walks
// every node of every tree and calls every accessor.

import (
	"fmt"
	"math/rand"
	"os"
	"sort"
	"strings"

	"github.com/inspirer/textmapper/syntax"
	"verif/harness/sx"
)

func init() {
	commands["c21.random"] = c21Random
}

const (
	ekTok = iota
	ekNt
	ekOpt
	ekSeq
	ekGroup
	ekList
	ekArrow
	ekAssign
	ekRaw
)

type c21Expr struct {
	kind  int
	tok   int
	nt    int
	sub   []*c21Expr
	name  string // arrow type / field name
	plus  bool
	apnd  bool // += instead of =
	sep   int  // list separator terminal (0 = none); only the c21.infer generator sets it
	raw   string // ekRaw: literal grammar text without fields (code block, state marker, set)
}

type c21Nt struct {
	kind int // 0 plain, 1 typed, 2 category
	name string
	alts []*c21Expr
}

type c21Gram struct {
	nterms   int
	inject   int    // injected terminal (0 = none)
	inject2  int    // a second terminal injected as the same node type (0 = none)
	injName  string
	nts      []*c21Nt
	ntypes   int
	cats     []string
	nfields  int
}

func (g *c21Gram) termName(t int) string { return "t" + string(rune('a'+t-1)) }

type c21gen struct {
	rng      *rand.Rand
	g        *c21Gram
	nt       int
	nextTerm int
	wild     bool // c21.infer only: recursive references, separators, code blocks, state markers, sets, %prec-free extras
}

func (c *c21gen) newType() string {
	c.g.ntypes++
	return fmt.Sprintf("T%02d", c.g.ntypes)
}

func (c *c21gen) tok() *c21Expr {
	if c.rng.Intn(100) < 20 {
		c.nextTerm = c.rng.Intn(c.g.nterms - 1)
	}
	t := 1 + c.nextTerm%(c.g.nterms-1)
	c.nextTerm++
	return &c21Expr{kind: ekTok, tok: t}
}

// node: an expression producing exactly one node
func (c *c21gen) node(depth int) *c21Expr {
	if c.nt+1 < len(c.g.nts) && c.rng.Intn(100) < 50 {
		// a later typed / category nonterminal
		var cands []int
		for j := c.nt + 1; j < len(c.g.nts); j++ {
			if c.g.nts[j].kind != 0 {
				cands = append(cands, j)
			}
		}
		if len(cands) > 0 {
			return &c21Expr{kind: ekNt, nt: cands[c.rng.Intn(len(cands))]}
		}
	}
	var body *c21Expr
	if depth < 2 && c.rng.Intn(3) == 0 {
		body = c.seq(depth+1, 1+c.rng.Intn(2))
	} else {
		body = c.tok()
	}
	return &c21Expr{kind: ekArrow, name: c.newType(), sub: []*c21Expr{body}}
}

func (c *c21gen) primary(depth int) *c21Expr {
	if c.wild {
		switch y := c.rng.Intn(100); {
		case y < 14:
			// a reference to this or an earlier nonterminal: recursion (the cycle rule of nontermPhrase); plain
			// nonterminals are preferred, their references are not cut by an arrow (mutual recursion)
			var plain []int
			for j := 0; j <= c.nt; j++ {
				if c.g.nts[j].kind == 0 {
					plain = append(plain, j)
				}
			}
			if len(plain) > 0 && c.rng.Intn(3) != 0 {
				return &c21Expr{kind: ekNt, nt: plain[c.rng.Intn(len(plain))]}
			}
			return &c21Expr{kind: ekNt, nt: c.rng.Intn(c.nt + 1)}
		case y < 18:
			return &c21Expr{kind: ekRaw, raw: []string{"{ act() }", ".mark", "set(ta | tb)"}[c.rng.Intn(3)]}
		}
	}
	x := c.rng.Intn(100)
	switch {
	case x < 25:
		return c.tok()
	case x < 60 || depth >= 2:
		return c.node(depth)
	case x < 70 && c.nt+1 < len(c.g.nts):
		return &c21Expr{kind: ekNt, nt: c.nt + 1 + c.rng.Intn(len(c.g.nts)-c.nt-1)}
	case x < 85:
		n := 2 + c.rng.Intn(2)
		p := &c21Expr{kind: ekGroup}
		for i := 0; i < n; i++ {
			p.sub = append(p.sub, c.seq(depth+1, 1+c.rng.Intn(2)))
		}
		return p
	default:
		var el *c21Expr
		if c.rng.Intn(2) == 0 {
			el = c.node(depth + 1)
		} else {
			el = &c21Expr{kind: ekGroup, sub: []*c21Expr{c.seq(depth+1, 1+c.rng.Intn(2))}}
		}
		l := &c21Expr{kind: ekList, plus: c.rng.Intn(2) == 0, sub: []*c21Expr{el}}
		if c.wild && c.rng.Intn(3) == 0 {
			l.sep = 1 + c.rng.Intn(c.g.nterms-1)
		}
		return l
	}
}

func (c *c21gen) seq(depth, n int) *c21Expr {
	p := &c21Expr{kind: ekSeq}
	for i := 0; i < n; i++ {
		q := c.primary(depth)
		if c.rng.Intn(100) < 25 {
			q = &c21Expr{kind: ekOpt, sub: []*c21Expr{q}}
		}
		if c.rng.Intn(100) < 18 && (q.kind == ekArrow || q.kind == ekNt && c.g.nts[q.nt].kind != 0 ||
			q.kind == ekOpt && (q.sub[0].kind == ekArrow || q.sub[0].kind == ekNt && c.g.nts[q.sub[0].nt].kind != 0)) {
			c.g.nfields++
			q = &c21Expr{kind: ekAssign, name: fmt.Sprintf("f%d", c.g.nfields), sub: []*c21Expr{q}, apnd: c.rng.Intn(5) == 0}
		}
		p.sub = append(p.sub, q)
	}
	if c.rng.Intn(100) < 20 {
		// two named fields of the same node type: the second accessor must fetch after the first (FetchAfter)
		var cands []int
		for j := c.nt + 1; j < len(c.g.nts); j++ {
			if c.g.nts[j].kind == 1 {
				cands = append(cands, j)
			}
		}
		if len(cands) > 0 {
			j := cands[c.rng.Intn(len(cands))]
			for k := 0; k < 2; k++ {
				c.g.nfields++
				p.sub = append(p.sub, &c21Expr{kind: ekAssign, name: fmt.Sprintf("f%d", c.g.nfields), sub: []*c21Expr{{kind: ekNt, nt: j}}})
			}
		}
	}
	if c.rng.Intn(100) < 12 && !c.wild {
		// two required fields in a row whose type sets overlap but differ: key is A or B, value is B or C (each accessor
		// needs its own multi-type selector, and the second one has to fetch after the first)
		ta, tb, tc := c.newType(), c.newType(), c.newType()
		k1, k2, k3 := c.tok(), c.tok(), c.tok()
		c.g.nfields++
		key := fmt.Sprintf("f%d", c.g.nfields)
		c.g.nfields++
		val := fmt.Sprintf("f%d", c.g.nfields)
		field := func(name, typ string, t *c21Expr) *c21Expr {
			return &c21Expr{kind: ekSeq, sub: []*c21Expr{{kind: ekAssign, name: name, sub: []*c21Expr{{kind: ekArrow, name: typ, sub: []*c21Expr{{kind: ekTok, tok: t.tok}}}}}}}
		}
		p.sub = append(p.sub,
			&c21Expr{kind: ekGroup, sub: []*c21Expr{field(key, ta, k1), field(key, tb, k2)}},
			c.tok(),
			&c21Expr{kind: ekGroup, sub: []*c21Expr{field(val, tb, k2), field(val, tc, k3)}})
	}
	return p
}

func genC21Gram(rng *rand.Rand) *c21Gram { return genC21GramOpt(rng, false) }

func genC21GramOpt(rng *rand.Rand, wild bool) *c21Gram {
	g := &c21Gram{nterms: 4 + rng.Intn(4)}
	if rng.Intn(3) != 0 {
		g.inject = 1 + rng.Intn(g.nterms-1)
		if rng.Intn(3) == 0 {
			if t := 1 + rng.Intn(g.nterms-1); t != g.inject {
				g.inject2 = t
			}
		}
		g.injName = "Inj"
	}
	n := 2 + rng.Intn(4)
	for i := 0; i < n; i++ {
		nt := &c21Nt{name: fmt.Sprintf("N%d", i)}
		switch {
		case i == 0:
			nt.kind = 1
		case rng.Intn(100) < 30:
			nt.kind = 0
		case rng.Intn(100) < 55:
			nt.kind = 1
		default:
			nt.kind = 2
		}
		g.nts = append(g.nts, nt)
	}
	c := &c21gen{rng: rng, g: g, wild: wild}
	for i, nt := range g.nts {
		c.nt = i
		switch nt.kind {
		case 0:
			for a := 1 + rng.Intn(2); a > 0; a-- {
				nt.alts = append(nt.alts, c.seq(0, 1+rng.Intn(3)))
			}
		case 1:
			nt.name = fmt.Sprintf("N%d", i)
			tn := c.newType()
			if i == 0 {
				tn = "Root"
			}
			for a := 1 + rng.Intn(2); a > 0; a-- {
				nt.alts = append(nt.alts, &c21Expr{kind: ekArrow, name: tn, sub: []*c21Expr{c.seq(0, 1+rng.Intn(3))}})
			}
		case 2:
			cat := fmt.Sprintf("C%d", len(g.cats))
			if rng.Intn(6) == 0 {
				cat = "TokenSet"
				for _, x := range g.cats {
					if x == cat {
						cat = fmt.Sprintf("C%d", len(g.cats))
					}
				}
			}
			g.cats = append(g.cats, cat)
			for a := 1 + rng.Intn(3); a > 0; a-- {
				nt.alts = append(nt.alts, &c21Expr{kind: ekArrow, name: cat, sub: []*c21Expr{c.node(1)}})
			}
		}
	}
	return g
}

func (g *c21Gram) text(e *c21Expr, top bool) string {
	switch e.kind {
	case ekTok:
		return g.termName(e.tok)
	case ekNt:
		return g.nts[e.nt].name
	case ekOpt:
		return g.text(e.sub[0], false) + "?"
	case ekSeq:
		parts := make([]string, len(e.sub))
		for i, s := range e.sub {
			parts[i] = g.text(s, false)
		}
		return strings.Join(parts, " ")
	case ekGroup:
		parts := make([]string, len(e.sub))
		for i, s := range e.sub {
			parts[i] = g.text(s, false)
		}
		return "(" + strings.Join(parts, " | ") + ")"
	case ekList:
		q := "*"
		if e.plus {
			q = "+"
		}
		if e.sep > 0 {
			return "(" + g.text(e.sub[0], false) + " separator " + g.termName(e.sep) + ")" + q
		}
		return g.text(e.sub[0], false) + q
	case ekRaw:
		return e.raw
	case ekArrow:
		if top {
			return g.text(e.sub[0], false) + " -> " + e.name
		}
		return "(" + g.text(e.sub[0], false) + " -> " + e.name + ")"
	case ekAssign:
		op := "="
		if e.apnd {
			op = "+="
		}
		return e.name + op + g.text(e.sub[0], false)
	}
	return ""
}

func (g *c21Gram) toTM(name string) string {
	var sb strings.Builder
	fmt.Fprintf(&sb, "language %s(go);\n\nlang = %q\npackage = \"verifgen/%s/base\"\neventBased = true\neventFields = true\neventAST = true\n\n:: lexer\n\n", name, name, name)
	for t := 1; t < g.nterms; t++ {
		fmt.Fprintf(&sb, "%s: /%c/\n", g.termName(t), 'a'+t-1)
	}
	sb.WriteString("invalid_token:\n\n:: parser\n\n%input N0;\n\n")
	if g.inject > 0 {
		fmt.Fprintf(&sb, "%%inject %s -> %s;\n", g.termName(g.inject), g.injName)
		if g.inject2 > 0 {
			fmt.Fprintf(&sb, "%%inject %s -> %s;\n", g.termName(g.inject2), g.injName)
		}
		sb.WriteString("\n")
	}
	for _, c := range g.cats {
		fmt.Fprintf(&sb, "%%interface %s;\n", c)
	}
	sb.WriteString("\n")
	for _, nt := range g.nts {
		switch nt.kind {
		case 0:
			fmt.Fprintf(&sb, "%s:\n", nt.name)
			for i, a := range nt.alts {
				sep := "    "
				if i > 0 {
					sep = "  | "
				}
				sb.WriteString(sep + g.text(a, true) + "\n")
			}
		case 1:
			fmt.Fprintf(&sb, "%s -> %s:\n", nt.name, nt.alts[0].name)
			for i, a := range nt.alts {
				sep := "    "
				if i > 0 {
					sep = "  | "
				}
				sb.WriteString(sep + g.text(a.sub[0], true) + "\n")
			}
		case 2:
			fmt.Fprintf(&sb, "%s -> %s:\n", nt.name, nt.alts[0].name)
			for i, a := range nt.alts {
				sep := "    "
				if i > 0 {
					sep = "  | "
				}
				// the alternative's own node; the category comes from the nonterminal's default report
				sb.WriteString(sep + g.text(a.sub[0], true) + "\n")
			}
		}
		sb.WriteString(";\n\n")
	}
	return sb.String()
}

// ---------- sentences ----------

func (g *c21Gram) derive(rng *rand.Rand, e *c21Expr, out *[]byte, budget *int) {
	switch e.kind {
	case ekTok:
		*out = append(*out, byte('a'+e.tok-1))
	case ekNt:
		alts := g.nts[e.nt].alts
		g.derive(rng, alts[rng.Intn(len(alts))], out, budget)
	case ekOpt:
		if rng.Intn(5) < 3 {
			g.derive(rng, e.sub[0], out, budget)
		}
	case ekSeq:
		for _, s := range e.sub {
			g.derive(rng, s, out, budget)
		}
	case ekGroup:
		g.derive(rng, e.sub[rng.Intn(len(e.sub))], out, budget)
	case ekList:
		n := rng.Intn(3)
		if e.plus {
			n++
		}
		if *budget < 0 && n > 1 {
			n = 1
		}
		for i := 0; i < n; i++ {
			*budget--
			g.derive(rng, e.sub[0], out, budget)
		}
	case ekArrow, ekAssign:
		g.derive(rng, e.sub[0], out, budget)
	}
}

// ---------- the monitor, generated from the inferred Types ----------

func c21TypeIDs(t *syntax.Types) map[string]int {
	ids := map[string]int{}
	for i, rt := range t.RangeTypes {
		ids[rt.Name] = i + 1
	}
	return ids
}

func c21Expand(t *syntax.Types, sel []string) []int {
	ids := c21TypeIDs(t)
	seen := map[int]bool{}
	var ret []int
	for _, s := range sel {
		isCat := false
		for _, c := range t.Categories {
			if c.Name == s {
				isCat = true
				for _, x := range c.Types {
					if !seen[ids[x]] {
						seen[ids[x]] = true
						ret = append(ret, ids[x])
					}
				}
			}
		}
		if !isCat && !seen[ids[s]] {
			seen[ids[s]] = true
			ret = append(ret, ids[s])
		}
	}
	sort.Ints(ret)
	return ret
}

func c21Title(s string) string { return strings.ToUpper(s[:1]) + s[1:] }

func c21Monitor(p *genPkg) string {
	t := p.g.Parser.Types
	base := c21Title(p.g.Name) + "Node"
	var sb strings.Builder
	fmt.Fprintf(&sb, "package ast\n\nimport (\n\t\"fmt\"\n\t\"strings\"\n\n\tbase \"verifgen/%s/base\"\n)\n\n", p.name)
	sb.WriteString(`func verifIdx(kids []*Node, n *Node) int {
	if n == nil {
		return -1
	}
	for i, k := range kids {
		if k == n {
			return i
		}
	}
	return -2
}

func verifCall(sb *strings.Builder, field int, f func() string) {
	sep := ""
	if field > 0 {
		sep = " "
	}
	defer func() {
		if r := recover(); r != nil {
			fmt.Fprintf(sb, "%s(%d p)", sep, field)
		}
	}()
	s := f()
	fmt.Fprintf(sb, "%s(%d%s)", sep, field, s)
}

func verifWalk(n *Node, sb *strings.Builder) {
	var kids []*Node
	for c := n.firstChild; c != nil; c = c.next {
		kids = append(kids, c)
	}
	fmt.Fprintf(sb, "(%d (", int(n.Type()))
	for i, k := range kids {
		if i > 0 {
			sb.WriteByte(' ')
		}
		fmt.Fprintf(sb, "%d", int(k.Type()))
	}
	sb.WriteString(") (")
	switch n.Type() {
`)
	for _, rt := range t.RangeTypes {
		if len(rt.Fields) == 0 {
			continue
		}
		fmt.Fprintf(&sb, "\tcase base.%s:\n\t\tx := %s{n}\n", rt.Name, rt.Name)
		for i, f := range rt.Fields {
			m := c21Title(f.Name)
			switch {
			case f.IsList:
				fmt.Fprintf(&sb, "\t\tverifCall(sb, %d, func() string {\n\t\t\ts := \"\"\n\t\t\tfor _, v := range x.%s() {\n\t\t\t\ts += fmt.Sprintf(\" %%d\", verifIdx(kids, v.%s()))\n\t\t\t}\n\t\t\treturn s\n\t\t})\n", i, m, base)
			case f.IsRequired:
				fmt.Fprintf(&sb, "\t\tverifCall(sb, %d, func() string { v := x.%s(); return fmt.Sprintf(\" %%d\", verifIdx(kids, v.%s())) })\n", i, m, base)
			default:
				fmt.Fprintf(&sb, "\t\tverifCall(sb, %d, func() string { v, ok := x.%s(); return fmt.Sprintf(\" %%v %%d\", ok, verifIdx(kids, v.%s())) })\n", i, m, base)
			}
		}
	}
	sb.WriteString(`	}
	empty := 0
	if n.offset == n.endoffset {
		empty = 1
	}
	fmt.Fprintf(sb, ") %d)", empty)
	for _, k := range kids {
		sb.WriteByte(' ')
		verifWalk(k, sb)
	}
}

// VerifMonitor parses the input and calls every accessor on every node of the tree.
func VerifMonitor(content string) string {
	tree, err := Parse("x", content)
	if err != nil {
		if se, ok := err.(base.SyntaxError); ok {
			return fmt.Sprintf("(syntax %d)", se.Offset)
		}
		return "(other " + strings.ReplaceAll(err.Error(), " ", "_") + ")"
	}
	var sb strings.Builder
	sb.WriteString("(tree ")
	verifWalk(tree.Root(), &sb)
	sb.WriteString(")")
	return sb.String()
}
`)
	return sb.String()
}

func c21Driver(p *genPkg) string {
	return fmt.Sprintf("package %s\n\nimport \"verifgen/%s/base/ast\"\n\nfunc VerifRun(mode string, input []byte) string { return ast.VerifMonitor(string(input)) }\n", p.name, p.name)
}

// typesStr: ((fields per range type) (categories) injected-type-id)
//   field = ((expanded selector ids) fetchAfter required list assert) ; assert: 0 struct wrap, 1+k category k, -1 base interface
//   category = ((type ids) nil-implements) ; NilNode implements every category but the synthetic TokenSet
func c21TypesStr(t *syntax.Types, injName string, declared []string) string {
	ids := c21TypeIDs(t)
	rts := make([]string, len(t.RangeTypes))
	for i, rt := range t.RangeTypes {
		fs := make([]string, len(rt.Fields))
		for j, f := range rt.Fields {
			assert := -1
			if len(f.Selector) == 1 {
				assert = 0
				for k, c := range t.Categories {
					if c.Name == f.Selector[0] {
						assert = 1 + k
					}
				}
			}
			fs[j] = sx.List(sx.Ints(c21Expand(t, f.Selector)), sx.Int(f.FetchAfter), sx.Bool(f.IsRequired), sx.Bool(f.IsList), sx.Int(assert))
		}
		rts[i] = sx.List(fs...)
	}
	cs := make([]string, len(t.Categories))
	for i, c := range t.Categories {
		// NilNode implements every category except the synthetic TokenSet (the one the grammar did not declare)
		nilImplements := c.Name != "TokenSet"
		for _, d := range declared {
			if d == c.Name {
				nilImplements = true
			}
		}
		cs[i] = sx.List(sx.Ints(c21Expand(t, []string{c.Name})), sx.Bool(nilImplements))
	}
	return sx.List(sx.List(rts...), sx.List(cs...), sx.Int(ids[injName]))
}

// ---------- arrow bodies as child-level expressions (for the validator) ----------

func (g *c21Gram) isCat(name string) bool {
	for _, c := range g.cats {
		if c == name {
			return true
		}
	}
	return false
}

func c21Nest(op string, parts []string) string {
	if len(parts) == 0 {
		return "(e)"
	}
	if len(parts) == 1 {
		return parts[0]
	}
	return sx.List(op, parts[0], c21Nest(op, parts[1:]))
}

func (g *c21Gram) childExpr(e *c21Expr, ids map[string]int) string {
	switch e.kind {
	case ekTok:
		if e.tok == g.inject || (g.inject2 > 0 && e.tok == g.inject2) {
			return sx.List("n", sx.Int(ids[g.injName]))
		}
		return "(e)"
	case ekNt:
		nt := g.nts[e.nt]
		if nt.kind == 1 {
			return sx.List("n", sx.Int(ids[nt.alts[0].name]))
		}
		parts := make([]string, len(nt.alts))
		for i, a := range nt.alts {
			parts[i] = g.childExpr(a, ids)
		}
		return c21Nest("c", parts)
	case ekOpt:
		return sx.List("o", g.childExpr(e.sub[0], ids))
	case ekSeq, ekGroup:
		parts := make([]string, len(e.sub))
		for i, s := range e.sub {
			parts[i] = g.childExpr(s, ids)
		}
		if e.kind == ekSeq {
			return c21Nest("q", parts)
		}
		return c21Nest("c", parts)
	case ekList:
		return sx.List("l", g.childExpr(e.sub[0], ids), sx.Bool(e.plus))
	case ekArrow:
		if g.isCat(e.name) {
			return g.childExpr(e.sub[0], ids)
		}
		return sx.List("n", sx.Int(ids[e.name]))
	case ekAssign:
		return g.childExpr(e.sub[0], ids)
	}
	return "(e)"
}

// bodiesStr: for every range type (in id order) the child-level expressions of all arrows of that type
func (g *c21Gram) bodiesStr(t *syntax.Types) string {
	ids := c21TypeIDs(t)
	bodies := make([][]string, len(t.RangeTypes))
	var visit func(e *c21Expr)
	visit = func(e *c21Expr) {
		if e.kind == ekArrow && !g.isCat(e.name) {
			if i := ids[e.name] - 1; i >= 0 { // arrows of unreachable nonterminals have no type
				bodies[i] = append(bodies[i], g.childExpr(e.sub[0], ids))
			}
		}
		for _, s := range e.sub {
			visit(s)
		}
	}
	for _, nt := range g.nts {
		for _, a := range nt.alts {
			visit(a)
		}
	}
	parts := make([]string, len(bodies))
	for i, b := range bodies {
		parts[i] = sx.List(b...)
	}
	return sx.List(parts...)
}

func c21Random(rng *rand.Rand, n int, args []string) {
	perGrammar := 10
	want := (n + perGrammar - 1) / perGrammar
	var pkgs []*genPkg
	var grams []*c21Gram
	tried, rejected := 0, 0
	reasons := map[string]int{}
	var failures []string
	for len(pkgs) < want && tried < 80*want {
		tried++
		g := genC21Gram(rng)
		name := fmt.Sprintf("k%04d", len(pkgs))
		p := &genPkg{name: name, tm: g.toTM(name), driver: c21Driver}
		c16Compile(p)
		if p.err != nil {
			msg := p.err.Error()
			rejected++
			switch {
			case strings.Contains(msg, "conflict"):
				reasons["conflict"]++
			case strings.Contains(msg, "overlapping sets"):
				reasons["overlapping_fields"]++
			case strings.Contains(msg, "exactly one node"), strings.Contains(msg, "category expression"):
				reasons["category_cardinality"]++
			case strings.Contains(msg, "multiple fields found"):
				reasons["assign_multiple"]++
			case strings.Contains(msg, "unused"), strings.Contains(msg, "unresolved"):
				reasons["unused"]++
			default:
				reasons["other"]++
				if os.Getenv("C21_DEBUG") != "" {
					fmt.Fprintln(os.Stderr, firstLines(msg, 3))
				}
				if strings.Contains(msg, "panic") && len(failures) < 10 {
					failures = append(failures, sx.List(sx.Str(p.tm), sx.Str(firstLines(msg, 3))))
				}
			}
			continue
		}
		// move the generated files below base/ so that the root package can import the ast package
		files := map[string]string{}
		for k, v := range p.files {
			files["base/"+k] = v
		}
		files["base/ast/verif_monitor.go"] = c21Monitor(p)
		p.files = files
		pkgs = append(pkgs, p)
		grams = append(grams, g)
	}
	type pending struct {
		pkg  int
		text string
	}
	var reqs []genRequest
	var pend []pending
	for i, p := range pkgs {
		g := grams[i]
		for j := 0; j < perGrammar && len(reqs) < n; j++ {
			var text []byte
			budget := 6
			alts := g.nts[0].alts
			g.derive(rng, alts[rng.Intn(len(alts))], &text, &budget)
			reqs = append(reqs, genRequest{pkg: p.name, mode: "0", input: text})
			pend = append(pend, pending{i, string(text)})
		}
	}
	answers, err := buildAndRun(pkgs, reqs)
	if err != nil {
		fmt.Fprintln(os_stderr(), "c21:", err)
		exitCode(3)
	}
	for _, f := range failures {
		sx.Case("c21.gen", f, "failed")
	}
	nobuild, noRoot := 0, 0
	for _, p := range pkgs {
		if p.err != nil {
			nobuild++
			sx.Case("c21.gen", sx.List(sx.Str(p.tm), sx.Str(firstLines(p.err.Error(), 8))), "failed")
		}
	}
	for i, p := range pkgs {
		if p.err != nil {
			continue
		}
		t := p.g.Parser.Types
		ones := make([]int, len(t.RangeTypes))
		for j := range ones {
			ones[j] = 1
		}
		// textmapper accepted the grammar: it claims the inferred fields fit every tree
		sx.Case("c21.types", sx.List(c21TypesStr(t, grams[i].injName, grams[i].cats), grams[i].bodiesStr(t)), sx.Ints(ones))
	}
	for i, pd := range pend {
		if answers[i] == "nobuild" {
			continue
		}
		p := pkgs[pd.pkg]
		if os.Getenv("C21_DUMP") != "" && strings.Contains(answers[i], os.Getenv("C21_DUMP")) {
			fmt.Fprintf(os.Stderr, "---- %s input %q answer %s\n%s\n", p.name, pd.text, answers[i], p.tm)
		}
		if strings.HasPrefix(answers[i], "(other exactly_one_root") {
			// the tree builder wants a single root: empty sentences / roots that are not reported are C20's
			// business, not an accessor question (counted, not judged)
			noRoot++
			continue
		}
		sx.Case("c21.run", sx.List(c21TypesStr(p.g.Parser.Types, grams[pd.pkg].injName, grams[pd.pkg].cats), sx.Str(pd.text)), answers[i])
	}
	sx.Stat("grammars_tried", tried)
	sx.Stat("grammars_rejected", rejected)
	for k, v := range reasons {
		sx.Stat("rejected_"+k, v)
	}
	sx.Stat("grammars_built", len(pkgs)-nobuild)
	sx.Stat("sentences_without_single_root", noRoot)
}
