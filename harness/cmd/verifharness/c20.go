package main

import (
	"context"
	"fmt"
	"math/rand"
	"os"
	"path/filepath"
	"sort"
	"strings"
	"time"

	"github.com/inspirer/textmapper/parsers/js"
	jsast "github.com/inspirer/textmapper/parsers/js/ast"
	"github.com/inspirer/textmapper/parsers/json"
	"github.com/inspirer/textmapper/parsers/test"
	"github.com/inspirer/textmapper/parsers/tm"
	tmast "github.com/inspirer/textmapper/parsers/tm/ast"
	"verif/harness/sx"
)

func init() {
	commands["c20.builder"] = c20Builder
	commands["c20.events"] = c20Events
}

type ival struct{ ty, off, end int }

// randomNest produces a random well-nested family over [lo, hi) in an order where every node comes after
// the nodes it contains; independent nodes are interleaved at random (so earlier events may lie to the right).
func randomNest(rng *rand.Rand, lo, hi, depth int) []ival {
	var out []ival
	var groups [][]ival
	p := lo
	for p <= hi && len(groups) < 5 {
		if rng.Intn(3) == 0 {
			p += rng.Intn(3)
			continue
		}
		ln := rng.Intn(hi - p + 1)
		if rng.Intn(5) == 0 {
			ln = 0 // zero-length node
		}
		e := p + ln
		var sub []ival
		if depth < 3 && rng.Intn(2) == 0 {
			sub = randomNest(rng, p, e, depth+1)
		}
		sub = append(sub, ival{1 + rng.Intn(9), p, e})
		groups = append(groups, sub)
		p = e
		if ln == 0 && rng.Intn(2) == 0 {
			p++
		}
	}
	// random interleaving that keeps the order inside each group
	idx := make([]int, len(groups))
	for {
		var live []int
		for g := range groups {
			if idx[g] < len(groups[g]) {
				live = append(live, g)
			}
		}
		if len(live) == 0 {
			break
		}
		g := live[0]
		if rng.Intn(4) == 0 {
			g = live[rng.Intn(len(live))]
		}
		out = append(out, groups[g][idx[g]])
		idx[g]++
	}
	return out
}

func c20Builder(rng *rand.Rand, n int, _ []string) {
	for i := 0; i < n; i++ {
		ln := 1 + rng.Intn(24)
		var evs []ival
		kind := "nested"
		switch rng.Intn(10) {
		case 0, 1: // arbitrary events
			kind = "arbitrary"
			for k := rng.Intn(8); k > 0; k-- {
				a, b := rng.Intn(ln+1), rng.Intn(ln+1)
				if a > b {
					a, b = b, a
				}
				evs = append(evs, ival{1 + rng.Intn(9), a, b})
			}
		case 2: // a nested family with one corrupted event
			evs = randomNest(rng, 0, ln, 0)
			if len(evs) > 0 {
				kind = "corrupted"
				k := rng.Intn(len(evs))
				evs[k].end += 1 + rng.Intn(3)
			}
		default:
			evs = randomNest(rng, 0, ln, 0)
		}
		raw := make([][3]int, len(evs))
		parts := make([]string, len(evs))
		for k, e := range evs {
			raw[k] = [3]int{e.ty, e.off, e.end}
			parts[k] = sx.List(sx.Int(e.ty), sx.Int(e.off), sx.Int(e.end))
		}
		content := strings.Repeat("x", ln+4)
		in := sx.List(sx.Int(ln+4), sx.List(parts...))
		sx.Case("c20.build", in, tmast.VerifBuild(content, raw))
		sx.Case("c20.build", in, jsast.VerifBuild(content, raw))
		sx.Stat("events_"+kind, 1)
	}
}

// ---- producer monitor: the listener events of the shipped parsers on valid and broken inputs ----

func mutateText(rng *rand.Rand, s string) string {
	b := []byte(s)
	for k := 1 + rng.Intn(3); k > 0 && len(b) > 0; k-- {
		p := rng.Intn(len(b))
		switch rng.Intn(5) {
		case 0:
			b = append(b[:p], b[p+1:]...)
		case 1:
			const punct = "(){}[];:,'\"/|*+?=-> \n%$#@\\.<"
			c := punct[rng.Intn(len(punct))]
			b = append(b[:p], append([]byte{c}, b[p:]...)...)
		case 2:
			q := rng.Intn(len(b))
			b[p], b[q] = b[q], b[p]
		case 3:
			b = b[:p]
		default:
			q := p + rng.Intn(len(b)-p)
			b = append(b[:p], b[q:]...)
		}
	}
	return string(b)
}

func evStr(evs [][3]int) string {
	parts := make([]string, len(evs))
	for i, e := range evs {
		parts[i] = sx.List(sx.Int(e[0]), sx.Int(e[1]), sx.Int(e[2]))
	}
	return sx.List(parts...)
}

func guarded(f func()) (res string) {
	done := make(chan string, 1)
	go func() {
		defer func() {
			if r := recover(); r != nil {
				done <- fmt.Sprintf("panic:%v", r)
			}
		}()
		f()
		done <- "ok"
	}()
	select {
	case s := <-done:
		return s
	case <-time.After(10 * time.Second):
		return "timeout"
	}
}

func c20Events(rng *rand.Rand, n int, _ []string) {
	repo := os.Getenv("VERIF_REPO")
	if repo == "" {
		repo = "/repo"
	}
	var tmSeeds []string
	files, _ := filepath.Glob(filepath.Join(repo, "parsers", "*", "*.tm"))
	more, _ := filepath.Glob(filepath.Join(repo, "testing", "*", "*", "*.tm"))
	files = append(files, more...)
	sort.Strings(files)
	for _, f := range files {
		if data, err := os.ReadFile(f); err == nil && len(data) < 40000 {
			tmSeeds = append(tmSeeds, string(data))
		}
	}
	jsSeeds := []string{
		"var a = 1;\nfunction f(x, y) { return x + y * 2; }\n",
		"class A extends B { constructor() { super(); this.x = [1, 2, ...r]; } get y() { return `t${this.x}`; } }\n",
		"for (let i = 0; i < 10; i++) { if (i % 2) continue; else break; }\nlabel: while (true) { do { x-- } while (x) }\n",
		"const {a, b: [c, d = 3]} = obj, f = async (x) => { await x; yield; };\nexport default function* g() {}\nimport * as q from 'm';\n",
		"try { throw new Error('x') } catch (e) { console.log(e ?? 1, a?.b) } finally { }\nswitch (x) { case 1: break; default: y = /re/g.test(s) ? 1 : 2 }\n",
		"a = b\n++c\nreturn\nx\nvar s = \"unterminated\n",
		"let t: Array<number> = <T>(x: T): T => x; interface I { a?: string } type U = A | B & C;\n",
		"<div className=\"a\">{x}<b/>text</div>;\n",
		"// one\n// two\n(x = f(1 /* first */, 2), y /* second */) => x + y;\n/* a */ /* b */ (p /* c */, q /* d */) => { return p /* e */ }\n",
		"a = 1; // c1\n/* c2 */ b = (c /* c3 */ + d) /* c4 */ ;\n// c5\nfor (/* c6 */ ;;) { /* c7 */ }\n",
	}
	jsonSeeds := []string{
		`{"a": [1, 2.5e3, -0, true, false, null], "b": {"c": "d\né"}, "e": []}`,
		`[[], {}, [{"x": [1, [2, [3]]]}], "s"]`,
		` 42 `, `"str"`, `{"a":}`, `[1,,2]`, `{`, ``, "[1, /* c */ }", "{ /* c */ ]", "[1] /* tail */",
	}
	testSeeds := []string{
		" decl2 decl1(a)", "{decl2}", "{-decl2}", "{--}", "if(as) decl2 else if(as) decl2 else decl2", "{decl1(a.b.c.d123)}",
		"42 7 9 ", "{3 9 11 9}", " test (   )  ", "test { decl1 }", "{-- 5 9[] 3}", "if(f_a as f_a) decl2", "9\n\n9 ",
		"decl2 % q\n% q\ndecl2", "  //cmnt\n)", "decl1(abcdef)", "decl2 //c\n(", "{ decl2 decl2 } eval(1+2*3)", "eval (1", "{{{", "decl1(", "if (", "%%", "",
	}
	type target struct {
		name  string
		seeds []string
		run   func(text string) ([][3]int, string)
	}
	// one Parser per target that is initialised once and reused for every second input (a Parser may be reused:
	// what one parse leaves behind must not leak into the next one)
	reuse := false
	var cur *[][3]int
	var tmP tm.Parser
	tmP.Init(func(tm.SyntaxError) bool { return true }, func(t tm.NodeType, offset, endoffset int) { *cur = append(*cur, [3]int{int(t), offset, endoffset}) })
	var jsP js.Parser
	jsP.Init(func(js.SyntaxError) bool { return true }, func(t js.NodeType, offset, endoffset int) { *cur = append(*cur, [3]int{int(t), offset, endoffset}) })
	var jsonP json.Parser
	jsonP.Init(func(t json.NodeType, offset, endoffset int) { *cur = append(*cur, [3]int{int(t), offset, endoffset}) })
	var testP test.Parser
	testP.Init(func(t test.NodeType, flags test.NodeFlags, offset, endoffset int) { *cur = append(*cur, [3]int{int(t), offset, endoffset}) })
	targets := []target{
		{"tm", tmSeeds, func(text string) ([][3]int, string) {
			var evs [][3]int
			l := func(t tm.NodeType, offset, endoffset int) { evs = append(evs, [3]int{int(t), offset, endoffset}) }
			st := guarded(func() {
				var s tm.TokenStream
				s.Init(text, l)
				if reuse {
					cur = &evs
					tmP.ParseFile(context.Background(), &s)
					return
				}
				var p tm.Parser
				p.Init(func(tm.SyntaxError) bool { return true }, l)
				p.ParseFile(context.Background(), &s)
			})
			return evs, st
		}},
		{"js", jsSeeds, func(text string) ([][3]int, string) {
			var evs [][3]int
			l := func(t js.NodeType, offset, endoffset int) { evs = append(evs, [3]int{int(t), offset, endoffset}) }
			st := guarded(func() {
				var s js.TokenStream
				s.Init(text, l)
				if reuse {
					cur = &evs
					jsP.ParseModule(context.Background(), &s)
					return
				}
				var p js.Parser
				p.Init(func(js.SyntaxError) bool { return true }, l)
				p.ParseModule(context.Background(), &s)
			})
			return evs, st
		}},
		{"json", jsonSeeds, func(text string) ([][3]int, string) {
			var evs [][3]int
			st := guarded(func() {
				var l json.Lexer
				l.Init(text)
				if reuse {
					cur = &evs
					jsonP.Parse(&l)
					return
				}
				var p json.Parser
				p.Init(func(t json.NodeType, offset, endoffset int) { evs = append(evs, [3]int{int(t), offset, endoffset}) })
				p.Parse(&l)
			})
			return evs, st
		}},
		{"test", testSeeds, func(text string) ([][3]int, string) {
			var evs [][3]int
			st := guarded(func() {
				var l test.Lexer
				l.Init(text)
				if reuse {
					cur = &evs
					testP.ParseTest(context.Background(), &l)
					return
				}
				var p test.Parser
				p.Init(func(t test.NodeType, flags test.NodeFlags, offset, endoffset int) {
					evs = append(evs, [3]int{int(t), offset, endoffset})
				})
				p.ParseTest(context.Background(), &l)
			})
			return evs, st
		}},
	}
	for i := 0; i < n; i++ {
		tg := targets[i%len(targets)]
		if len(tg.seeds) == 0 {
			continue
		}
		text := tg.seeds[rng.Intn(len(tg.seeds))]
		kind := "valid"
		if i >= 4*len(tg.seeds) || rng.Intn(3) != 0 {
			text = mutateText(rng, text)
			kind = "mutated"
		}
		if len(text) > 6000 {
			text = text[:6000]
		}
		reuse = (i/len(targets))%2 == 1
		evs, st := tg.run(text)
		sx.Case("c20.events", sx.List(sx.Str(tg.name), sx.Int(len(text)), sx.Str(text)), sx.List(st, evStr(evs)))
		sx.Stat("events_"+tg.name+"_"+kind, 1)
		// the tree builder on the events of a real parse (tm, js): compare with the model's forest
		if st == "ok" && (tg.name == "tm" || tg.name == "js") && len(evs) < 3000 {
			var forest string
			if tg.name == "tm" {
				forest = tmast.VerifBuild(text, evs)
			} else {
				forest = jsast.VerifBuild(text, evs)
			}
			sx.Case("c20.build", sx.List(sx.Int(len(text)), evStr(evs)), forest)
		}
	}
}
