package main

import (
	"math/rand"

	"github.com/inspirer/textmapper/lalr"
	"verif/harness/sx"
)

func init() {
	commands["c08.random"] = c08Random
}

func lasStr(las []lalr.Lookahead) string {
	parts := make([]string, len(las))
	for i, la := range las {
		ps := make([]string, len(la.Predicates))
		for j, p := range la.Predicates {
			ps[j] = sx.List(sx.Int(int(p.Input)), sx.Bool(p.Negated))
		}
		parts[i] = sx.List(sx.Int(int(la.Nonterminal)), sx.List(ps...))
	}
	return sx.List(parts...)
}

func ruleStr(r lalr.LookaheadRule) string {
	cs := make([]string, len(r.Cases))
	for i, c := range r.Cases {
		cs[i] = sx.List(sx.Int(int(c.Input)), sx.Bool(c.Negated), sx.Int(int(c.Target)))
	}
	return sx.List("ok", sx.List(cs...), sx.Int(int(r.DefaultTarget)))
}

// genLookaheads builds 2..5 alternatives over up to 5 inputs. Strategies: (a) a decision tree
// (always exclusive, ordered consistently), (b) a decision tree with random corruption (polarity flip,
// dropped literal, swapped order), (c) unstructured.
func genLookaheads(rng *rand.Rand) []lalr.Lookahead {
	ninputs := 1 + rng.Intn(5)
	inputs := rng.Perm(7)[:ninputs]
	for i := range inputs {
		inputs[i]++ // inputs 1..7 (index 0 is the user's main input in real grammars)
	}
	if rng.Intn(12) == 0 {
		inputs[0] = 0 // exercise input index 0 as well
	}
	var las []lalr.Lookahead
	nt := 100
	strategy := rng.Intn(3)
	if strategy < 2 {
		// decision list along the order inputs[0], inputs[1], ...: alternative k asserts the first k-1
		// literals with the polarity that "falls through" and then its own literal
		pol := make([]bool, ninputs) // polarity (negated?) that selects alternative k at input k
		for i := range pol {
			pol[i] = rng.Intn(2) == 0
		}
		n := 2 + rng.Intn(ninputs)
		if n > ninputs+1 {
			n = ninputs + 1
		}
		for k := 0; k < n; k++ {
			var preds []lalr.Predicate
			for j := 0; j < k && j < ninputs; j++ {
				preds = append(preds, lalr.Predicate{Input: int32(inputs[j]), Negated: !pol[j]})
			}
			if k < ninputs && (k < n-1 || rng.Intn(2) == 0) {
				preds = append(preds, lalr.Predicate{Input: int32(inputs[k]), Negated: pol[k]})
			}
			// optionally drop leading literals that are not needed for exclusivity
			las = append(las, lalr.Lookahead{Nonterminal: lalr.Sym(nt), Predicates: preds})
			nt++
		}
		rng.Shuffle(len(las), func(i, j int) { las[i], las[j] = las[j], las[i] })
		if strategy == 1 {
			// corrupt
			k := rng.Intn(len(las))
			ps := append([]lalr.Predicate{}, las[k].Predicates...)
			if len(ps) > 0 {
				switch rng.Intn(3) {
				case 0:
					j := rng.Intn(len(ps))
					ps[j].Negated = !ps[j].Negated
				case 1:
					j := rng.Intn(len(ps))
					ps = append(ps[:j:j], ps[j+1:]...)
				default:
					if len(ps) > 1 {
						ps[0], ps[len(ps)-1] = ps[len(ps)-1], ps[0]
					}
				}
			}
			las[k].Predicates = ps
		}
		return las
	}
	n := 2 + rng.Intn(3)
	for k := 0; k < n; k++ {
		var preds []lalr.Predicate
		for _, in := range inputs {
			if rng.Intn(3) != 0 {
				preds = append(preds, lalr.Predicate{Input: int32(in), Negated: rng.Intn(2) == 0})
			}
		}
		las = append(las, lalr.Lookahead{Nonterminal: lalr.Sym(nt), Predicates: preds})
		nt++
	}
	return las
}

func c08Random(rng *rand.Rand, n int, _ []string) {
	accepted := 0
	for i := 0; i < n; i++ {
		las := genLookaheads(rng)
		in := lasStr(las)
		r, err := lalr.VerifNewLookaheadRule(las)
		if err != nil {
			why := map[string]int{"inconsistent order": 1, "ambiguous order": 2, "cannot decide on the next lookahead": 3}[err.Error()]
			sx.Case("c08.rule", in, sx.List("err", sx.Int(why)))
			continue
		}
		accepted++
		sx.Case("c08.rule", in, ruleStr(r))
	}
	sx.Stat("accepted", accepted)
}
