package main

import (
	"context"
	"fmt"
	"math/rand"
	"strings"

	"github.com/inspirer/textmapper/compiler"
	"github.com/inspirer/textmapper/grammar"
	"github.com/inspirer/textmapper/lalr"
	"verif/harness/sx"
)

func init() {
	commands["c01.random"] = c01Random
	commands["c01.tables"] = c01Tables
}

type tmOpts struct {
	optimize, defaultReduce, minimize bool
	extra                             []string // further option lines
	eventBased                        bool
}

func (g *cfg) termChar(t int) byte { return byte('a' + t - 1) }

// toTM renders the grammar as textmapper source. Terminal k is the single character 'a'+k-1.
func (g *cfg) toTM(name string, o tmOpts, ruleSuffix func(i int) string) string {
	var sb strings.Builder
	fmt.Fprintf(&sb, "language %s(go);\n\nlang = %q\npackage = \"verifgen/%s\"\n", name, name, name)
	if o.optimize {
		sb.WriteString("optimizeTables = true\n")
	}
	if o.defaultReduce {
		sb.WriteString("defaultReduce = true\n")
	}
	if o.minimize {
		sb.WriteString("minimizeDFA = true\n")
	}
	sb.WriteString("eventBased = true\n")
	for _, l := range o.extra {
		sb.WriteString(l + "\n")
	}
	sb.WriteString("\n:: lexer\n\n")
	for t := 1; t < g.nterms; t++ {
		fmt.Fprintf(&sb, "'%c': /%c/\n", g.termChar(t), g.termChar(t))
	}
	sb.WriteString("invalid_token:\n\n:: parser\n\n%input ")
	for i, in := range g.inputs {
		if i > 0 {
			sb.WriteString(", ")
		}
		sb.WriteString(g.symName(in.nt))
		if !in.eoi {
			sb.WriteString(" no-eoi")
		}
	}
	sb.WriteString(";\n\n")
	for _, p := range g.prec {
		sb.WriteString([]string{"%left", "%right", "%nonassoc"}[p.assoc])
		for _, t := range p.terms {
			fmt.Fprintf(&sb, " '%c'", g.termChar(t))
		}
		sb.WriteString(";\n")
	}
	for nt := 0; nt < g.nnonterms; nt++ {
		first := true
		for i, r := range g.rules {
			if r.lhs != g.nterms+nt {
				continue
			}
			if first {
				fmt.Fprintf(&sb, "%s :\n    ", g.symName(r.lhs))
				first = false
			} else {
				sb.WriteString("\n  | ")
			}
			for _, s := range r.rhs {
				if s < g.nterms {
					fmt.Fprintf(&sb, "'%c' ", g.termChar(s))
				} else {
					sb.WriteString(g.symName(s) + " ")
				}
			}
			if r.prec != 0 {
				fmt.Fprintf(&sb, "%%prec '%c' ", g.termChar(r.prec))
			}
			if ruleSuffix != nil {
				sb.WriteString(ruleSuffix(i))
			}
		}
		if !first {
			sb.WriteString("\n;\n\n")
		}
	}
	return sb.String()
}

// reduced keeps only reachable and productive nonterminals (textmapper rejects or warns otherwise) and
// renumbers them; returns nil when an input is unproductive.
func (g *cfg) reduced() *cfg {
	prod := g.productive()
	reach := make([]bool, g.nterms+g.nnonterms)
	var visit func(s int)
	visit = func(s int) {
		if reach[s] {
			return
		}
		reach[s] = true
		for _, r := range g.rules {
			if r.lhs != s {
				continue
			}
			ok := true
			for _, x := range r.rhs {
				if !prod[x] {
					ok = false
				}
			}
			if ok {
				for _, x := range r.rhs {
					visit(x)
				}
			}
		}
	}
	for _, in := range g.inputs {
		if !prod[in.nt] {
			return nil
		}
		visit(in.nt)
	}
	remap := make([]int, g.nterms+g.nnonterms)
	n := 0
	for s := g.nterms; s < g.nterms+g.nnonterms; s++ {
		if reach[s] && prod[s] {
			remap[s] = g.nterms + n
			n++
		} else {
			remap[s] = -1
		}
	}
	for s := 0; s < g.nterms; s++ {
		remap[s] = s
	}
	ret := &cfg{nterms: g.nterms, nnonterms: n, prec: g.prec, expectSR: g.expectSR, expectRR: g.expectRR}
rules:
	for _, r := range g.rules {
		if remap[r.lhs] < 0 {
			continue
		}
		nr := cfgRule{lhs: remap[r.lhs], prec: r.prec}
		for _, x := range r.rhs {
			if remap[x] < 0 {
				continue rules
			}
			nr.rhs = append(nr.rhs, remap[x])
		}
		ret.rules = append(ret.rules, nr)
	}
	seen := map[int]bool{}
	for _, in := range g.inputs {
		if seen[remap[in.nt]] {
			continue
		}
		seen[remap[in.nt]] = true
		ret.inputs = append(ret.inputs, cfgInput{nt: remap[in.nt], eoi: in.eoi})
	}
	return ret
}

func tablesOf(t *lalr.Tables) string {
	opt := "()"
	if t.Optimized != nil {
		opt = sx.List(dispEncStr(t.Optimized))
	}
	return sx.List(defaultEncStr(t.DefaultEnc), opt, sx.Ints(t.RuleLen), sx.Ints(t.RuleSymbol), sx.Ints(t.FinalStates), sx.Int(t.NumStates))
}

// tmGrammarStr serialises the grammar textmapper's compiler handed to lalr (its own symbol numbering).
func tmGrammarStr(g *grammar.Grammar) string {
	p := g.Parser
	rs := make([]string, len(p.Rules))
	for i, r := range p.Rules {
		rhs := make([]int, 0, len(r.RHS))
		for _, s := range r.RHS {
			rhs = append(rhs, int(s))
		}
		rs[i] = sx.List(sx.Int(int(r.LHS)), sx.Ints(rhs), sx.Int(int(r.Precedence)))
	}
	ins := make([]string, len(p.Inputs))
	for i, in := range p.Inputs {
		ins[i] = sx.List(sx.Int(p.NumTerminals+in.Nonterm), sx.Bool(!in.NoEoi))
	}
	return sx.List(sx.Int(p.NumTerminals), sx.Int(len(g.Syms)-p.NumTerminals), sx.List(rs...), sx.List(ins...), "()")
}

// plainDriver: VerifRun(mode, input); mode = "<input index>" or "<input index>e" (append the listener events).
// All generated test grammars are event-based: the pinned templates reference NodeType from
// parser_tables.go unconditionally, so a non-event-based Go grammar does not build (outside C01).
func plainDriver(g *cfg) func(p *genPkg) string {
	return func(p *genPkg) string {
		var sb strings.Builder
		fmt.Fprintf(&sb, "package %s\n\nimport (\n\t\"fmt\"\n\t\"strings\"\n)\n\nfunc VerifRun(mode string, input []byte) string {\n", p.name)
		sb.WriteString("\tvar l Lexer\n\tl.Init(string(input))\n\tvar p Parser\n\tvar ev strings.Builder\n")
		sb.WriteString("\tp.Init(func(t NodeType, offset, endoffset int) { fmt.Fprintf(&ev, \" (%d %d %d)\", int(t), offset, endoffset) })\n")
		sb.WriteString("\twantEvents := strings.HasSuffix(mode, \"e\")\n\tmode = strings.TrimSuffix(mode, \"e\")\n\tvar err error\n\tswitch mode {\n")
		for i, in := range g.inputs {
			fn := "Parse"
			if len(g.inputs) > 1 {
				fn = "Parse" + g.symName(in.nt)
			}
			fmt.Fprintf(&sb, "\tcase \"%d\":\n\t\terr = p.%s(&l)\n", i, fn)
		}
		sb.WriteString("\t}\n\tevs := \"\"\n\tif wantEvents {\n\t\tevs = \" (events\" + ev.String() + \")\"\n\t}\n")
		sb.WriteString("\tif err == nil {\n\t\tconsumed := p.next.offset\n\t\tif p.next.symbol == noToken {\n\t\t\t_, consumed = l.Pos()\n\t\t}\n\t\treturn fmt.Sprintf(\"(accept %d%s)\", consumed, evs)\n\t}\n")
		sb.WriteString("\tif se, ok := err.(SyntaxError); ok {\n\t\treturn fmt.Sprintf(\"(syntax %d %d%s)\", se.Offset, se.Endoffset, evs)\n\t}\n\treturn \"(other)\"\n}\n")
		return sb.String()
	}
}

func allStrings(nterms, maxLen int) [][]int {
	var ret [][]int
	var rec func(cur []int)
	rec = func(cur []int) {
		ret = append(ret, append([]int{}, cur...))
		if len(cur) >= maxLen {
			return
		}
		for t := 1; t < nterms; t++ {
			rec(append(cur, t))
		}
	}
	rec(nil)
	return ret
}

func c01Random(rng *rand.Rand, n int, args []string) {
	var pkgs []*genPkg
	var grammars []*cfg
	var opts []tmOpts
	tried := 0
	for len(pkgs) < n && tried < 40*n {
		tried++
		k := defaultKnobs
		k.maxTerms = 3
		k.maxNonterms = 4
		g := genCFG(rng, k).reduced()
		if g == nil || len(g.rules) == 0 {
			continue
		}
		t, err := lalr.Compile(g.toLalr(), lalr.Options{})
		if err != nil || t == nil || t.SR+t.RR > 0 {
			continue
		}
		o := tmOpts{optimize: rng.Intn(2) == 0, minimize: rng.Intn(3) == 0}
		o.defaultReduce = o.optimize && rng.Intn(2) == 0
		name := fmt.Sprintf("g%d", len(pkgs))
		pkgs = append(pkgs, &genPkg{name: name, tm: g.toTM(name, o, nil), driver: plainDriver(g)})
		grammars = append(grammars, g)
		opts = append(opts, o)
	}
	compileAll(pkgs)
	var reqs []genRequest
	type batch struct {
		pkg, input int
		strs       [][]int
		first      int
	}
	var batches []batch
	for i, p := range pkgs {
		if p.err != nil {
			continue
		}
		g := grammars[i]
		for idx, in := range g.inputs {
			strs := capLen(g.sampleInputs(rng, in.nt, 25), 16)
			if g.nterms <= 3 {
				strs = append(strs, allStrings(g.nterms, 5)...)
			} else {
				strs = append(strs, allStrings(g.nterms, 3)...)
			}
			b := batch{pkg: i, input: idx, strs: strs, first: len(reqs)}
			for _, s := range strs {
				text := make([]byte, len(s))
				for j, t := range s {
					text[j] = g.termChar(t)
				}
				reqs = append(reqs, genRequest{pkg: p.name, mode: fmt.Sprint(idx), input: text})
			}
			batches = append(batches, b)
		}
	}
	answers, err := buildAndRun(pkgs, reqs)
	if err != nil {
		fmt.Fprintln(os_stderr(), "c01:", err)
		exitCode(3)
	}
	compiled := 0
	for i, p := range pkgs {
		if p.err != nil {
			// a conflict-free grammar that textmapper cannot compile/generate/build: reported as a case
			sx.Case("c01.nocompile", sx.List(grammars[i].cfgStr(), sx.Str(firstLines(p.err.Error(), 3))), "failed")
			continue
		}
		compiled++
		// the tables the generated parser embeds, validated against the grammar handed to lalr
		// (minimized tables merge states with different item sets: the unminimized compile is validated)
		vg := p.g
		if opts[i].minimize {
			o2 := opts[i]
			o2.minimize = false
			g2, err := compiler.Compile(context.Background(), p.name+".tm", grammars[i].toTM(p.name, o2, nil), compiler.Params{})
			if err != nil {
				continue
			}
			vg = g2
		}
		sx.Case("c01.validate", sx.List(tmGrammarStr(vg), tablesOf(vg.Parser.Tables)), "validated")
		sx.Stat(fmt.Sprintf("opts_opt%v_dr%v_min%v", opts[i].optimize, opts[i].defaultReduce, opts[i].minimize), 1)
	}
	for _, b := range batches {
		p := pkgs[b.pkg]
		if p.err != nil {
			continue
		}
		g := grammars[b.pkg]
		o := opts[b.pkg]
		toks := make([]string, len(b.strs))
		outs := make([]string, len(b.strs))
		for j, s := range b.strs {
			toks[j] = sx.Ints(s)
			outs[j] = answers[b.first+j]
		}
		_ = o
		tmap := make([]int, g.nterms)
		for t := 1; t < g.nterms; t++ {
			tmap[t] = -1
			for _, sym := range p.g.Syms {
				if sym.Name == fmt.Sprintf("'%c'", g.termChar(t)) {
					tmap[t] = sym.Index
				}
			}
		}
		in := sx.List(g.cfgStr(), sx.Int(b.input), tmGrammarStr(p.g), tablesOf(p.g.Parser.Tables), sx.Ints(tmap), sx.List(toks...))
		sx.Case("c01.parse", in, sx.List(outs...))
	}
	sx.Stat("grammars_tried", tried)
	sx.Stat("grammars_compiled", compiled)
}

// c01Tables: table-level run (no generated code): lalr.Compile on random conflict-free grammars, with and
// without Optimize; the model validates the tables and runs the loop model on sampled and exhaustive strings.
func c01Tables(rng *rand.Rand, n int, args []string) {
	tried, done := 0, 0
	for done < n && tried < 60*n {
		tried++
		k := defaultKnobs
		if rng.Intn(3) == 0 {
			k.emptyProb = 35
		}
		g := genCFG(rng, k).reduced()
		if tried%4 == 3 {
			g = recursiveInputCFG(rng).reduced()
		}
		if g == nil || len(g.rules) == 0 {
			continue
		}
		opt := rng.Intn(2) == 0
		dr := opt && rng.Intn(2) == 0
		t, err := lalr.Compile(g.toLalr(), lalr.Options{Optimize: opt, DefaultReduce: dr})
		if err != nil || t == nil || t.SR+t.RR > 0 {
			continue
		}
		done++
		var batches []string
		for idx, in := range g.inputs {
			strs := capLen(g.sampleInputs(rng, in.nt, 12), 14)
			if g.nterms <= 3 {
				strs = append(strs, allStrings(g.nterms, 4)...)
			} else {
				strs = append(strs, allStrings(g.nterms, 2)...)
			}
			toks := make([]string, len(strs))
			for j, s := range strs {
				toks[j] = sx.Ints(s)
			}
			batches = append(batches, sx.List(sx.Int(idx), sx.List(toks...)))
		}
		sx.Case("c01.tables", sx.List(g.cfgStr(), tablesOf(t), sx.List(batches...)), "validated")
		sx.Stat(fmt.Sprintf("tables_opt%v_dr%v", opt, dr), 1)
		sx.Stat(fmt.Sprintf("tables_nonterms_%d", g.nnonterms), 1)
	}
	sx.Stat("tables_grammars_tried", tried)
}

// capLen truncates token strings (the chart recognisers of the oracle are polynomial of high degree).
func capLen(strs [][]int, n int) [][]int {
	for i, s := range strs {
		if len(s) > n {
			strs[i] = s[:n]
		}
	}
	return strs
}

// recursiveInputCFG: the input nonterminal N0 is left-recursive through N1, and N1 (or N0) is also used elsewhere,
// so that the state reached from the start state on N0 is shared with inner contexts (the accepting state must
// then be a private copy): N0: N1 | t | l N1 r ...; N1: N0 t t | N0 t ... .
func recursiveInputCFG(rng *rand.Rand) *cfg {
	g := &cfg{nterms: 4 + rng.Intn(4), nnonterms: 2}
	n0, n1 := g.nterms, g.nterms+1
	term := func() int { return 1 + rng.Intn(g.nterms-1) }
	g.rules = append(g.rules, cfgRule{lhs: n0, rhs: []int{n1}}, cfgRule{lhs: n0, rhs: []int{term()}})
	for k := rng.Intn(3); k > 0; k-- {
		inner := n1
		if rng.Intn(3) == 0 {
			inner = n0
		}
		g.rules = append(g.rules, cfgRule{lhs: n0, rhs: []int{term(), inner, term()}})
	}
	for k := 1 + rng.Intn(4); k > 0; k-- {
		rhs := []int{n0, term()}
		for j := rng.Intn(2); j > 0; j-- {
			rhs = append(rhs, term())
		}
		g.rules = append(g.rules, cfgRule{lhs: n1, rhs: rhs})
	}
	g.inputs = []cfgInput{{nt: n0, eoi: rng.Intn(3) != 0}}
	return g
}
