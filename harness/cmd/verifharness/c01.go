package main

import (
	"fmt"
	"math/rand"
	"strings"

	"github.com/inspirer/textmapper/lalr"
	"verif/harness/sx"
)

func init() {
	commands["c01.random"] = c01Random
}

type tmOpts struct {
	optimize, defaultReduce, minimize bool
	extra                             []string // further option lines
	eventBased                        bool
}

func (g *cfg) termChar(t int) byte { return byte('a' + t - 1) }

// toTM renders the grammar as textmapper source. Terminal k is the single character 'a'+k-1.
func (g *cfg) toTM(name string, o tmOpts, ruleSuffix func(i int) string) string {
	var sb strings.Builder
	fmt.Fprintf(&sb, "language %s(go);\n\nlang = %q\npackage = \"verifgen/%s\"\n", name, name, name)
	if o.optimize {
		sb.WriteString("optimizeTables = true\n")
	}
	if o.defaultReduce {
		sb.WriteString("defaultReduce = true\n")
	}
	if o.minimize {
		sb.WriteString("minimizeDFA = true\n")
	}
	if o.eventBased {
		sb.WriteString("eventBased = true\n")
	}
	for _, l := range o.extra {
		sb.WriteString(l + "\n")
	}
	sb.WriteString("\n:: lexer\n\n")
	for t := 1; t < g.nterms; t++ {
		fmt.Fprintf(&sb, "'%c': /%c/\n", g.termChar(t), g.termChar(t))
	}
	sb.WriteString("invalid_token:\n\n:: parser\n\n%input ")
	for i, in := range g.inputs {
		if i > 0 {
			sb.WriteString(", ")
		}
		sb.WriteString(g.symName(in.nt))
		if !in.eoi {
			sb.WriteString(" no-eoi")
		}
	}
	sb.WriteString(";\n\n")
	for _, p := range g.prec {
		sb.WriteString([]string{"%left", "%right", "%nonassoc"}[p.assoc])
		for _, t := range p.terms {
			fmt.Fprintf(&sb, " '%c'", g.termChar(t))
		}
		sb.WriteString(";\n")
	}
	for nt := 0; nt < g.nnonterms; nt++ {
		first := true
		for i, r := range g.rules {
			if r.lhs != g.nterms+nt {
				continue
			}
			if first {
				fmt.Fprintf(&sb, "%s :\n    ", g.symName(r.lhs))
				first = false
			} else {
				sb.WriteString("\n  | ")
			}
			for _, s := range r.rhs {
				if s < g.nterms {
					fmt.Fprintf(&sb, "'%c' ", g.termChar(s))
				} else {
					sb.WriteString(g.symName(s) + " ")
				}
			}
			if r.prec != 0 {
				fmt.Fprintf(&sb, "%%prec '%c' ", g.termChar(r.prec))
			}
			if ruleSuffix != nil {
				sb.WriteString(ruleSuffix(i))
			}
		}
		if !first {
			sb.WriteString("\n;\n\n")
		}
	}
	return sb.String()
}

// reduced keeps only reachable and productive nonterminals (textmapper rejects or warns otherwise) and
// renumbers them; returns nil when an input is unproductive.
func (g *cfg) reduced() *cfg {
	prod := g.productive()
	reach := make([]bool, g.nterms+g.nnonterms)
	var visit func(s int)
	visit = func(s int) {
		if reach[s] {
			return
		}
		reach[s] = true
		for _, r := range g.rules {
			if r.lhs != s {
				continue
			}
			ok := true
			for _, x := range r.rhs {
				if !prod[x] {
					ok = false
				}
			}
			if ok {
				for _, x := range r.rhs {
					visit(x)
				}
			}
		}
	}
	for _, in := range g.inputs {
		if !prod[in.nt] {
			return nil
		}
		visit(in.nt)
	}
	remap := make([]int, g.nterms+g.nnonterms)
	n := 0
	for s := g.nterms; s < g.nterms+g.nnonterms; s++ {
		if reach[s] && prod[s] {
			remap[s] = g.nterms + n
			n++
		} else {
			remap[s] = -1
		}
	}
	for s := 0; s < g.nterms; s++ {
		remap[s] = s
	}
	ret := &cfg{nterms: g.nterms, nnonterms: n, prec: g.prec, expectSR: g.expectSR, expectRR: g.expectRR}
rules:
	for _, r := range g.rules {
		if remap[r.lhs] < 0 {
			continue
		}
		nr := cfgRule{lhs: remap[r.lhs], prec: r.prec}
		for _, x := range r.rhs {
			if remap[x] < 0 {
				continue rules
			}
			nr.rhs = append(nr.rhs, remap[x])
		}
		ret.rules = append(ret.rules, nr)
	}
	seen := map[int]bool{}
	for _, in := range g.inputs {
		if seen[remap[in.nt]] {
			continue
		}
		seen[remap[in.nt]] = true
		ret.inputs = append(ret.inputs, cfgInput{nt: remap[in.nt], eoi: in.eoi})
	}
	return ret
}

func tablesOf(t *lalr.Tables) string {
	opt := "()"
	if t.Optimized != nil {
		opt = sx.List(dispEncStr(t.Optimized))
	}
	return sx.List(defaultEncStr(t.DefaultEnc), opt, sx.Ints(t.RuleLen), sx.Ints(t.RuleSymbol), sx.Ints(t.FinalStates))
}

func plainDriver(g *cfg) func(p *genPkg) string {
	return func(p *genPkg) string {
		var sb strings.Builder
		fmt.Fprintf(&sb, "package %s\n\nimport \"fmt\"\n\nfunc VerifRun(mode string, input []byte) string {\n", p.name)
		sb.WriteString("\tvar l Lexer\n\tl.Init(string(input))\n\tvar p Parser\n\tp.Init()\n\tvar err error\n\tswitch mode {\n")
		for i, in := range g.inputs {
			fn := "Parse"
			if len(g.inputs) > 1 {
				fn = "Parse" + g.symName(in.nt)
			}
			fmt.Fprintf(&sb, "\tcase \"%d\":\n\t\terr = p.%s(&l)\n", i, fn)
		}
		sb.WriteString("\t}\n\tif err == nil {\n\t\tconsumed := p.next.offset\n\t\tif p.next.symbol == noToken {\n\t\t\t_, consumed = l.Pos()\n\t\t}\n\t\treturn fmt.Sprintf(\"(accept %d)\", consumed)\n\t}\n")
		sb.WriteString("\tif se, ok := err.(SyntaxError); ok {\n\t\treturn fmt.Sprintf(\"(syntax %d %d)\", se.Offset, se.Endoffset)\n\t}\n\treturn \"(other)\"\n}\n")
		return sb.String()
	}
}

func allStrings(nterms, maxLen int) [][]int {
	var ret [][]int
	var rec func(cur []int)
	rec = func(cur []int) {
		ret = append(ret, append([]int{}, cur...))
		if len(cur) >= maxLen {
			return
		}
		for t := 1; t < nterms; t++ {
			rec(append(cur, t))
		}
	}
	rec(nil)
	return ret
}

func c01Random(rng *rand.Rand, n int, args []string) {
	var pkgs []*genPkg
	var grammars []*cfg
	var opts []tmOpts
	tried := 0
	for len(pkgs) < n && tried < 40*n {
		tried++
		k := defaultKnobs
		k.maxTerms = 3
		k.maxNonterms = 4
		g := genCFG(rng, k).reduced()
		if g == nil || len(g.rules) == 0 {
			continue
		}
		t, err := lalr.Compile(g.toLalr(), lalr.Options{})
		if err != nil || t == nil || t.SR+t.RR > 0 {
			continue
		}
		o := tmOpts{optimize: rng.Intn(2) == 0, minimize: rng.Intn(3) == 0}
		o.defaultReduce = o.optimize && rng.Intn(2) == 0
		name := fmt.Sprintf("g%d", len(pkgs))
		pkgs = append(pkgs, &genPkg{name: name, tm: g.toTM(name, o, nil), driver: plainDriver(g)})
		grammars = append(grammars, g)
		opts = append(opts, o)
	}
	compileAll(pkgs)
	var reqs []genRequest
	type batch struct {
		pkg, input int
		strs       [][]int
		first      int
	}
	var batches []batch
	for i, p := range pkgs {
		if p.err != nil {
			continue
		}
		g := grammars[i]
		for idx, in := range g.inputs {
			strs := g.sampleInputs(rng, in.nt, 25)
			if g.nterms <= 3 {
				strs = append(strs, allStrings(g.nterms, 5)...)
			} else {
				strs = append(strs, allStrings(g.nterms, 3)...)
			}
			b := batch{pkg: i, input: idx, strs: strs, first: len(reqs)}
			for _, s := range strs {
				text := make([]byte, len(s))
				for j, t := range s {
					text[j] = g.termChar(t)
				}
				reqs = append(reqs, genRequest{pkg: p.name, mode: fmt.Sprint(idx), input: text})
			}
			batches = append(batches, b)
		}
	}
	answers, err := buildAndRun(pkgs, reqs)
	if err != nil {
		fmt.Fprintln(os_stderr(), "c01:", err)
		exitCode(3)
	}
	compiled := 0
	for i, p := range pkgs {
		if p.err != nil {
			// a conflict-free grammar that textmapper cannot compile/generate/build: reported as a case
			sx.Case("c01.nocompile", sx.List(grammars[i].cfgStr(), sx.Str(firstLines(p.err.Error(), 3))), "failed")
			continue
		}
		compiled++
	}
	for _, b := range batches {
		p := pkgs[b.pkg]
		if p.err != nil {
			continue
		}
		g := grammars[b.pkg]
		o := opts[b.pkg]
		toks := make([]string, len(b.strs))
		outs := make([]string, len(b.strs))
		for j, s := range b.strs {
			toks[j] = sx.Ints(s)
			outs[j] = answers[b.first+j]
		}
		in := sx.List(g.cfgStr(), sx.Int(b.input), sx.List(sx.Bool(o.optimize), sx.Bool(o.defaultReduce), sx.Bool(o.minimize)),
			tablesOf(p.g.Parser.Tables), sx.List(toks...))
		sx.Case("c01.parse", in, sx.List(outs...))
	}
	sx.Stat("grammars_tried", tried)
	sx.Stat("grammars_compiled", compiled)
}
