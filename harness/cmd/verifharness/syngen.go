package main

// Shared by C13/C14/C15: a harness-side copy of the syntax.Expr / TokenSet / Predicate trees, their
// conversion into the public syntax.Model API, and printers (of the harness tree = model input, and of
// syntax.Expr read back from the implementation = implementation output).

import (
	"fmt"
	"math/rand"

	"github.com/inspirer/textmapper/syntax"
	"verif/harness/sx"
)

type xarg struct {
	param int
	value string
	take  int
	omit  bool // .tm printing only: the argument is left out (filled by name propagation or the default)
}

type xpred struct {
	op    int // 0 or, 1 and, 2 not, 3 equals
	sub   []*xpred
	param int
	value string
}

type xe struct {
	kind  syntax.ExprKind
	name  string
	sub   []*xe
	sym   int
	args  []xarg
	flags int
	aflgs []string
	set   int
	pred  *xpred
}

type xset struct {
	kind  int // 0..4 Any First Last Precede Follow, 5 union, 6 inter, 7 compl, 8 named
	sym   int
	sub   []*xset
	named int
	id    int // complements: the harness' name, carried as the Origin
}

type xnonterm struct {
	name   string
	params []int
	value  *xe
}

type xparam struct {
	name string
	def  string
	la   bool
}

type xinput struct {
	nt    int
	noeoi bool
}

type xmodel struct {
	terms    []string
	params   []xparam
	nonterms []xnonterm
	inputs   []xinput
	sets     []*xset
}

// ---- printing the harness tree ----

func argsStr(args []xarg) string {
	ps := make([]string, len(args))
	for i, a := range args {
		ps[i] = sx.List(sx.Int(a.param), sx.Str(a.value), sx.Int(a.take))
	}
	return sx.List(ps...)
}

func (p *xpred) str() string {
	switch p.op {
	case 3:
		return sx.List("eq", sx.Int(p.param), sx.Str(p.value))
	case 2:
		return sx.List("not", p.sub[0].str())
	}
	ps := []string{map[int]string{0: "or", 1: "and"}[p.op]}
	for _, s := range p.sub {
		ps = append(ps, s.str())
	}
	return sx.List(ps...)
}

func strsStr(l []string) string {
	ps := make([]string, len(l))
	for i, s := range l {
		ps[i] = sx.Str(s)
	}
	return sx.List(ps...)
}

func (e *xe) str() string {
	subs := func() string {
		ps := make([]string, len(e.sub))
		for i, s := range e.sub {
			ps[i] = s.str()
		}
		return sx.List(ps...)
	}
	switch e.kind {
	case syntax.Empty:
		return "e"
	case syntax.Optional:
		return sx.List("opt", e.sub[0].str())
	case syntax.Choice:
		return sx.List("choice", subs())
	case syntax.Sequence:
		return sx.List("seq", subs())
	case syntax.Reference:
		return sx.List("ref", sx.Int(e.sym), argsStr(e.args))
	case syntax.Assign:
		return sx.List("assign", sx.Str(e.name), e.sub[0].str())
	case syntax.Append:
		return sx.List("append", sx.Str(e.name), e.sub[0].str())
	case syntax.Arrow:
		return sx.List("arrow", sx.Str(e.name), strsStr(e.aflgs), e.sub[0].str())
	case syntax.Set:
		return sx.List("set", sx.Int(e.set))
	case syntax.StateMarker:
		return sx.List("marker", sx.Str(e.name))
	case syntax.Command:
		return sx.List("cmd", sx.Str(e.name))
	case syntax.Lookahead:
		return sx.List("la", subs())
	case syntax.LookaheadNot:
		return sx.List("lanot", e.sub[0].str())
	case syntax.List:
		return sx.List("list", sx.Int(e.flags), subs())
	case syntax.Conditional:
		return sx.List("cond", e.pred.str(), e.sub[0].str())
	case syntax.Prec:
		return sx.List("prec", sx.Int(e.sym), e.sub[0].str())
	}
	return "?"
}

func (s *xset) str() string {
	switch {
	case s.kind < 5:
		return sx.List("sym", sx.Int(s.kind), sx.Int(s.sym))
	case s.kind == 8:
		return sx.List("named", sx.Int(s.named))
	case s.kind == 7:
		return sx.List("compl", sx.Int(s.id), s.sub[0].str())
	}
	ps := make([]string, len(s.sub))
	for i, t := range s.sub {
		ps[i] = t.str()
	}
	return sx.List(map[int]string{5: "union", 6: "inter"}[s.kind], sx.List(ps...))
}

func (m *xmodel) str() string {
	nts := make([]string, len(m.nonterms))
	for i, nt := range m.nonterms {
		nts[i] = sx.List(sx.Str(nt.name), sx.Ints(nt.params), nt.value.str())
	}
	ps := make([]string, len(m.params))
	for i, p := range m.params {
		ps[i] = sx.List(sx.Str(p.name), sx.Str(p.def), sx.Bool(p.la))
	}
	ins := make([]string, len(m.inputs))
	for i, in := range m.inputs {
		ins[i] = sx.List(sx.Int(in.nt), sx.Bool(in.noeoi))
	}
	sets := make([]string, len(m.sets))
	for i, s := range m.sets {
		sets[i] = s.str()
	}
	return sx.List(strsStr(m.terms), sx.List(ps...), sx.List(nts...), sx.List(ins...), sx.List(sets...))
}

// ---- conversion into the public API ----

func (p *xpred) toSyntax() *syntax.Predicate {
	ret := &syntax.Predicate{Op: syntax.PredicateOp(p.op), Param: p.param, Value: p.value, Origin: vnode{"pred", 0}}
	for _, s := range p.sub {
		ret.Sub = append(ret.Sub, s.toSyntax())
	}
	return ret
}

func (e *xe) toSyntax(m *syntax.Model) *syntax.Expr {
	ret := &syntax.Expr{Kind: e.kind, Name: e.name, Symbol: e.sym, ListFlags: syntax.ListFlags(e.flags),
		ArrowFlags: e.aflgs, SetIndex: e.set, Origin: vnode{"expr", 0}, Model: m}
	for _, a := range e.args {
		ret.Args = append(ret.Args, syntax.Arg{Param: a.param, Value: a.value, TakeFrom: a.take, Origin: vnode{"arg", 0}})
	}
	if e.pred != nil {
		ret.Predicate = e.pred.toSyntax()
	}
	for _, s := range e.sub {
		ret.Sub = append(ret.Sub, s.toSyntax(m))
	}
	return ret
}

func (m *xmodel) toSyntax() *syntax.Model {
	ret := &syntax.Model{}
	for _, t := range m.terms {
		ret.Terminals = append(ret.Terminals, syntax.Terminal{Name: t})
	}
	for _, p := range m.params {
		ret.Params = append(ret.Params, syntax.Param{Name: p.name, DefaultValue: p.def, Lookahead: p.la, Origin: vnode{"param", 0}})
	}
	// named sets are shared pointers: allocate first, fill afterwards
	ret.Sets = make([]*syntax.TokenSet, len(m.sets))
	for i := range m.sets {
		ret.Sets[i] = &syntax.TokenSet{}
	}
	var conv func(s *xset, into *syntax.TokenSet) *syntax.TokenSet
	conv = func(s *xset, into *syntax.TokenSet) *syntax.TokenSet {
		if s.kind == 8 {
			return ret.Sets[s.named]
		}
		if into == nil {
			into = &syntax.TokenSet{}
		}
		into.Origin = vnode{"set", s.id}
		switch {
		case s.kind < 5:
			into.Kind = syntax.SetOp(s.kind)
			into.Symbol = s.sym
		default:
			into.Kind = syntax.SetOp(s.kind)
			for _, t := range s.sub {
				into.Sub = append(into.Sub, conv(t, nil))
			}
		}
		return into
	}
	for i, s := range m.sets {
		if s.kind == 8 {
			// a top-level alias: Sets[i] is the same pointer as Sets[named] (an earlier, non-alias set)
			ret.Sets[i] = ret.Sets[s.named]
		}
	}
	for i, s := range m.sets {
		if s.kind != 8 {
			conv(s, ret.Sets[i])
		}
	}
	for _, nt := range m.nonterms {
		ret.Nonterms = append(ret.Nonterms, &syntax.Nonterm{Name: nt.name, Params: nt.params, Value: nt.value.toSyntax(ret), Origin: vnode{"nonterm", 0}})
	}
	for _, in := range m.inputs {
		ret.Inputs = append(ret.Inputs, syntax.Input{Nonterm: in.nt, NoEoi: in.noeoi})
	}
	return ret
}

// ---- printing syntax.Expr read back from the implementation ----

func implArgsStr(args []syntax.Arg) string {
	ps := make([]string, len(args))
	for i, a := range args {
		ps[i] = sx.List(sx.Int(a.Param), sx.Str(a.Value), sx.Int(a.TakeFrom))
	}
	return sx.List(ps...)
}

func implPredStr(p *syntax.Predicate) string {
	switch p.Op {
	case syntax.Equals:
		return sx.List("eq", sx.Int(p.Param), sx.Str(p.Value))
	case syntax.Not:
		return sx.List("not", implPredStr(p.Sub[0]))
	}
	ps := []string{map[syntax.PredicateOp]string{syntax.Or: "or", syntax.And: "and"}[p.Op]}
	for _, s := range p.Sub {
		ps = append(ps, implPredStr(s))
	}
	return sx.List(ps...)
}

func implExprStr(e *syntax.Expr) string {
	subs := func() string {
		ps := make([]string, len(e.Sub))
		for i, s := range e.Sub {
			ps[i] = implExprStr(s)
		}
		return sx.List(ps...)
	}
	switch e.Kind {
	case syntax.Empty:
		return "e"
	case syntax.Optional:
		return sx.List("opt", implExprStr(e.Sub[0]))
	case syntax.Choice:
		return sx.List("choice", subs())
	case syntax.Sequence:
		return sx.List("seq", subs())
	case syntax.Reference:
		return sx.List("ref", sx.Int(e.Symbol), implArgsStr(e.Args))
	case syntax.Assign:
		return sx.List("assign", sx.Str(e.Name), implExprStr(e.Sub[0]))
	case syntax.Append:
		return sx.List("append", sx.Str(e.Name), implExprStr(e.Sub[0]))
	case syntax.Arrow:
		return sx.List("arrow", sx.Str(e.Name), strsStr(e.ArrowFlags), implExprStr(e.Sub[0]))
	case syntax.Set:
		return sx.List("set", sx.Int(e.SetIndex))
	case syntax.StateMarker:
		return sx.List("marker", sx.Str(e.Name))
	case syntax.Command:
		return sx.List("cmd", sx.Str(e.Name))
	case syntax.Lookahead:
		return sx.List("la", subs())
	case syntax.LookaheadNot:
		return sx.List("lanot", implExprStr(e.Sub[0]))
	case syntax.List:
		return sx.List("list", sx.Int(int(e.ListFlags)), subs())
	case syntax.Conditional:
		return sx.List("cond", implPredStr(e.Predicate), implExprStr(e.Sub[0]))
	case syntax.Prec:
		return sx.List("prec", sx.Int(e.Symbol), implExprStr(e.Sub[0]))
	}
	return fmt.Sprintf("(unknown %d)", e.Kind)
}

func implNontermsStr(m *syntax.Model) string {
	nts := make([]string, len(m.Nonterms))
	for i, nt := range m.Nonterms {
		nts[i] = sx.List(sx.Str(nt.Name), implExprStr(nt.Value))
	}
	return sx.List(nts...)
}

func implInputsStr(m *syntax.Model) string {
	ins := make([]string, len(m.Inputs))
	for i, in := range m.Inputs {
		ins[i] = sx.List(sx.Int(in.Nonterm), sx.Bool(in.NoEoi))
	}
	return sx.List(ins...)
}

// ---- small constructors ----

func xref(sym int) *xe { return &xe{kind: syntax.Reference, sym: sym} }
func xk(kind syntax.ExprKind, sub ...*xe) *xe {
	return &xe{kind: kind, sub: sub}
}

var synTermNames = []string{"a", "b", "c", "'+'", "kw_x", "','", "Dd"}

func pick(rng *rand.Rand, n int) int { return rng.Intn(n) }
