package main

import (
	"math/rand"

	"github.com/inspirer/textmapper/lalr"
	"verif/harness/sx"
)

func init() {
	commands["c04.random"] = c04Random
}

// genExprGrammar: E -> E op E (several binary operators), prefix/postfix operators, parentheses, atoms,
// with random precedence groups (some operators left undeclared) and %prec markers.
func genExprGrammar(rng *rand.Rand) *cfg {
	nops := 1 + rng.Intn(4)
	// terminals: 0 eoi, 1 id, 2 '(', 3 ')', 4.. operators
	g := &cfg{nterms: 4 + nops, nnonterms: 1}
	E := g.nterms
	g.rules = append(g.rules, cfgRule{lhs: E, rhs: []int{1}})
	if rng.Intn(2) == 0 {
		g.rules = append(g.rules, cfgRule{lhs: E, rhs: []int{2, E, 3}})
	}
	for op := 4; op < 4+nops; op++ {
		switch rng.Intn(5) {
		case 0:
			g.rules = append(g.rules, cfgRule{lhs: E, rhs: []int{op, E}}) // prefix
		case 1:
			g.rules = append(g.rules, cfgRule{lhs: E, rhs: []int{E, op}}) // postfix
		default:
			g.rules = append(g.rules, cfgRule{lhs: E, rhs: []int{E, op, E}})
		}
	}
	if rng.Intn(4) == 0 { // an operator used both as binary and unary, the unary form with %prec
		op := 4 + rng.Intn(nops)
		g.rules = append(g.rules, cfgRule{lhs: E, rhs: []int{op, E}, prec: 4 + rng.Intn(nops)})
	}
	if rng.Intn(5) == 0 { // juxtaposition: E E (rule without terminals)
		g.rules = append(g.rules, cfgRule{lhs: E, rhs: []int{E, E}, prec: []int{0, 4 + rng.Intn(nops)}[rng.Intn(2)]})
	}
	// precedence groups over a random subset of the operators
	ops := rng.Perm(nops)
	idx := 0
	for idx < len(ops) {
		if rng.Intn(5) == 0 {
			idx++ // leave this operator undeclared
			continue
		}
		n := 1 + rng.Intn(2)
		var terms []int
		for j := 0; j < n && idx < len(ops); j++ {
			terms = append(terms, 4+ops[idx])
			idx++
		}
		g.prec = append(g.prec, cfgPrec{assoc: rng.Intn(3), terms: terms})
	}
	if rng.Intn(6) == 0 && len(g.prec) > 0 { // a terminal listed in two groups: the later declaration wins
		g.prec = append(g.prec, cfgPrec{assoc: rng.Intn(3), terms: []int{g.prec[0].terms[0]}})
	}
	g.inputs = []cfgInput{{nt: E, eoi: true}}
	return g
}

func c04Random(rng *rand.Rand, n int, _ []string) {
	resolvedCells := 0
	for i := 0; i < n; i++ {
		g := genExprGrammar(rng)
		lg := g.toLalr()
		sts, t, err := lalr.VerifCompile(lg)
		if t == nil {
			continue
		}
		in := sx.List(g.cfgStr(), sx.Int(g.expectSR), sx.Int(g.expectRR))
		out := sx.List(statesStr(g, sts), defaultEncStr(t.DefaultEnc), sx.Ints(t.FinalStates), sx.Int(t.SR), sx.Int(t.RR), sx.Int(errKind(err)))
		sx.Case("c03.tables", in, out)
		// the same cells behind compressed tables, with and without defaultReduce: a nonassoc error must stay one
		if err == nil && t.UsedLADepth == 0 {
			for _, dr := range []bool{false, true} {
				o := lalr.Optimize(t.DefaultEnc, g.nterms, len(t.RuleLen), dr)
				sx.Case("c05.opt", sx.List(sx.Int(g.nterms), sx.Int(len(t.RuleLen)), sx.Bool(dr), defaultEncStr(t.DefaultEnc)), dispEncStr(o))
			}
		}
		for _, v := range t.Lalr {
			if v == -2 {
				resolvedCells++
			}
		}
	}
	sx.Stat("error_cells_incl_nonassoc", resolvedCells)
}
