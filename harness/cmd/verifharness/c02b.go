package main

import (
	"fmt"
	"math/rand"
	"strings"

	"github.com/inspirer/textmapper/lalr"
	"verif/harness/sx"
)

func init() {
	commands["c02.sugar"] = c02Sugar
}

// A source rule with optional terminals and mid-rule actions; arrows range over element indices.
type selem struct {
	kind int // 0 symbol, 1 optional terminal, 2 mid-rule action
	sym  int
}
type srule struct {
	lhs    int
	elems  []selem
	arrows []arrow
	marks  [][]int // state markers (genMarks over the elements), nil = none; only in rules without mid-rule actions
}

// one expansion of a source rule: which optional elements are present
type sexp struct {
	rule    int
	present []bool
	shape   []int // tm-level right-hand side: symbol ids, -1 for an extracted mid-rule nonterminal
	elemPos []int // for each element: its index in shape, or -1
	tmRule  int
	midRule []int // per shape position holding -1: tm rule index of the extracted nonterminal's empty rule
}

func (r *srule) text(g *cfg, typeName func(int) string) string {
	n := len(r.elems)
	open := make([][]int, n+1)
	close := make([][]int, n+1)
	var whole []int
	for k, a := range r.arrows {
		if a.start == 0 && a.end == n {
			whole = append(whole, k)
			continue
		}
		open[a.start] = append([]int{k}, open[a.start]...)
		close[a.end] = append(close[a.end], k)
	}
	var sb strings.Builder
	mark := func(i int) {
		if r.marks != nil {
			for _, m := range r.marks[i] {
				fmt.Fprintf(&sb, ".m%d ", m)
			}
		}
	}
	endIn := r.marks != nil && len(r.marks[n+1]) > 0 && n > 0
	for i := 0; i <= n; i++ {
		if i == n && endIn {
			mark(n)
		}
		for _, k := range close[i] {
			fmt.Fprintf(&sb, "-> %s ) ", typeName(r.arrows[k].typ))
		}
		if i == n {
			break
		}
		for range open[i] {
			sb.WriteString("( ")
		}
		mark(i)
		e := r.elems[i]
		switch e.kind {
		case 2:
			sb.WriteString("{ verifNoop() } ")
		case 1:
			fmt.Fprintf(&sb, "'%c'? ", g.termChar(e.sym))
		default:
			if e.sym < g.nterms {
				fmt.Fprintf(&sb, "'%c' ", g.termChar(e.sym))
			} else {
				sb.WriteString(g.symName(e.sym) + " ")
			}
		}
	}
	if n == 0 {
		sb.WriteString("%empty ")
	}
	if !endIn {
		mark(n)
	}
	for _, k := range whole {
		fmt.Fprintf(&sb, "-> %s ", typeName(r.arrows[k].typ))
	}
	return sb.String()
}

// expansions enumerates the subsets of optional elements and computes the tm-level shape: a pending action is
// extracted into a nonterminal placed right before the next present symbol (an action with no symbol after it
// becomes the rule's final action and leaves no symbol).
func (r *srule) expansions(ri int) []*sexp {
	var opts []int
	for i, e := range r.elems {
		if e.kind == 1 {
			opts = append(opts, i)
		}
	}
	var ret []*sexp
	for mask := 0; mask < 1<<len(opts); mask++ {
		x := &sexp{rule: ri, present: make([]bool, len(r.elems)), elemPos: make([]int, len(r.elems)), tmRule: -1}
		for i, e := range r.elems {
			x.present[i] = e.kind != 1
		}
		for k, i := range opts {
			x.present[i] = mask&(1<<k) != 0
		}
		pending := false
		for i, e := range r.elems {
			x.elemPos[i] = -1
			if e.kind == 2 {
				pending = true
				continue
			}
			if !x.present[i] {
				continue
			}
			if pending {
				x.shape = append(x.shape, -1)
				pending = false
			}
			x.elemPos[i] = len(x.shape)
			x.shape = append(x.shape, e.sym)
		}
		ret = append(ret, x)
	}
	return ret
}

func c02Sugar(rng *rand.Rand, n int, args []string) {
	typeName := func(i int) string { return fmt.Sprintf("T%02d", i) }
	const ntypes = 6
	type gram struct {
		g     *cfg // expanded grammar: one cfg rule per expansion
		rules []*srule
		exps  []*sexp
		fixws bool
		src   *cfg // symbols / names
	}
	var pkgs []*genPkg
	var grams []*gram
	tried := 0
	for len(pkgs) < n && tried < 60*n {
		tried++
		k := defaultKnobs
		k.maxTerms = 3
		k.maxNonterms = 3
		k.noEoi = false
		k.multiInput = false
		base := genCFG(rng, k).reduced()
		if base == nil || len(base.rules) == 0 {
			continue
		}
		gr := &gram{src: base, fixws: rng.Intn(2) == 0}
		nact := 0
		withMarks := rng.Intn(3) != 0
		for _, r := range base.rules {
			sr := &srule{lhs: r.lhs}
			nopt := 0
			forced := false
			for j, s := range r.rhs {
				if j > 0 && rng.Intn(5) == 0 && nact < 3 {
					sr.elems = append(sr.elems, selem{kind: 2})
					nact++
				}
				if s < base.nterms && nopt < 2 && rng.Intn(3) == 0 {
					sr.elems = append(sr.elems, selem{kind: 1, sym: s})
					nopt++
				} else {
					sr.elems = append(sr.elems, selem{kind: 0, sym: s})
				}
			}
			// the delicate shape: an action directly in front of an annotated part that can be empty, e.g.  x {..} ('c'? -> T) y
			if len(sr.elems) >= 1 && rng.Intn(3) == 0 && nact < 3 {
				pos := 1 + rng.Intn(len(sr.elems))
				if pos < len(sr.elems) && sr.elems[pos].kind == 0 {
					opt := selem{kind: 1, sym: 1 + rng.Intn(base.nterms-1)}
					ne := append([]selem{}, sr.elems[:pos]...)
					ne = append(ne, selem{kind: 2}, opt)
					ne = append(ne, sr.elems[pos:]...)
					sr.elems = ne
					sr.arrows = append(sr.arrows, arrow{pos + 1, pos + 2, rng.Intn(ntypes)})
					nact++
					forced = true
				}
			}
			if !forced && len(r.rhs) > 0 && rng.Intn(6) == 0 && nact < 3 { // an action in front of the first symbol
				sr.elems = append([]selem{{kind: 2}}, sr.elems...)
				nact++
			}
			// arrows; an arrow that can be empty needs a mandatory symbol after it (the compiler rejects empty
			// ranges at the end of a rule)
			var extra []arrow
			if !forced {
				extra = genArrows(rng, len(sr.elems), ntypes)
			} else if rng.Intn(2) == 0 {
				extra = []arrow{{0, len(sr.elems), rng.Intn(ntypes)}}
			}
			for _, a := range extra {
				if a.start == 0 && a.end == len(sr.elems) {
					sr.arrows = append(sr.arrows, a)
					continue
				}
				mandIn, mandAfter := false, false
				for i := a.start; i < a.end; i++ {
					if sr.elems[i].kind == 0 {
						mandIn = true
					}
				}
				for i := a.end; i < len(sr.elems); i++ {
					if sr.elems[i].kind == 0 {
						mandAfter = true
					}
				}
				if mandIn || mandAfter {
					sr.arrows = append(sr.arrows, a)
				}
			}
			// state markers (they occupy no stack slot and no report position); the compiler does not support them
			// together with mid-rule actions
			hasAct := false
			for _, e := range sr.elems {
				hasAct = hasAct || e.kind == 2
			}
			if !hasAct && withMarks {
				ne := len(sr.elems)
				sr.marks = genMarks(rng, ne, ne > 0 && sr.elems[ne-1].kind == 1)
			}
			gr.rules = append(gr.rules, sr)
		}
		// expanded grammar
		eg := &cfg{nterms: base.nterms, nnonterms: base.nnonterms, inputs: base.inputs}
		for ri, sr := range gr.rules {
			for _, x := range sr.expansions(ri) {
				var rhs []int
				for _, s := range x.shape {
					if s >= 0 {
						rhs = append(rhs, s)
					}
				}
				eg.rules = append(eg.rules, cfgRule{lhs: sr.lhs, rhs: rhs})
				gr.exps = append(gr.exps, x)
			}
		}
		gr.g = eg
		t, err := lalr.Compile(eg.toLalr(), lalr.Options{})
		if err != nil || t == nil || t.SR+t.RR > 0 {
			continue
		}
		// render
		var sb strings.Builder
		name := fmt.Sprintf("s%04d", len(pkgs))
		fmt.Fprintf(&sb, "language %s(go);\n\nlang = %q\npackage = \"verifgen/%s\"\neventBased = true\n", name, name, name)
		if gr.fixws {
			sb.WriteString("fixWhitespace = true\n")
		}
		if rng.Intn(2) == 0 {
			sb.WriteString("optimizeTables = true\n")
		}
		sb.WriteString("\n:: lexer\n\n")
		for t := 1; t < base.nterms; t++ {
			fmt.Fprintf(&sb, "'%c': /%c/\n", base.termChar(t), base.termChar(t))
		}
		sb.WriteString("whitespace: /[ ]+/ (space)\ninvalid_token:\n\n:: parser\n\n%input ")
		sb.WriteString(base.symName(base.inputs[0].nt) + ";\n\n")
		for nt := 0; nt < base.nnonterms; nt++ {
			first := true
			for _, sr := range gr.rules {
				if sr.lhs != base.nterms+nt {
					continue
				}
				if first {
					fmt.Fprintf(&sb, "%s :\n    ", base.symName(sr.lhs))
					first = false
				} else {
					sb.WriteString("\n  | ")
				}
				sb.WriteString(sr.text(base, typeName))
			}
			if !first {
				sb.WriteString("\n;\n\n")
			}
		}
		drv := plainDriver(base)
		pkgs = append(pkgs, &genPkg{name: name, tm: sb.String(), driver: func(p *genPkg) string { return drv(p) + "\nfunc verifNoop() {}\n" }})
		grams = append(grams, gr)
	}
	compileAll(pkgs)
	type sample struct {
		text []byte
		toks []int
		offs [][2]int
		tree *dtree
	}
	samples := make([][]sample, len(pkgs))
	var reqs []genRequest
	usable := make([]bool, len(pkgs))
	tmaps := make([][]int, len(pkgs))
	for i, p := range pkgs {
		if p.err != nil {
			continue
		}
		gr := grams[i]
		base := gr.src
		gp := p.g.Parser
		// symbol maps
		tmap := make([]int, base.nterms+base.nnonterms)
		back := map[int]int{} // tm symbol -> my symbol
		for s := 1; s < base.nterms+base.nnonterms; s++ {
			want := base.symName(s)
			if s < base.nterms {
				want = fmt.Sprintf("'%c'", base.termChar(s))
			}
			tmap[s] = -1
			for _, sym := range p.g.Syms {
				if sym.Name == want {
					tmap[s] = sym.Index
					back[sym.Index] = s
				}
			}
		}
		tmaps[i] = tmap
		// match expansions to tm rules by (lhs, shape)
		ok := true
		midEmpty := map[int]int{} // tm mid-rule symbol -> its empty rule
		for k, r := range gp.Rules {
			if _, mine := back[int(r.LHS)]; !mine && len(r.RHS) == 0 {
				midEmpty[int(r.LHS)] = k
			}
		}
		for _, x := range gr.exps {
			lhs := tmap[gr.rules[x.rule].lhs]
			for k, r := range gp.Rules {
				var rhs []lalr.Sym // without state markers
				for _, s := range r.RHS {
					if !s.IsStateMarker() {
						rhs = append(rhs, s)
					}
				}
				if int(r.LHS) != lhs || len(rhs) != len(x.shape) {
					continue
				}
				match := true
				mids := make([]int, len(x.shape))
				for j, s := range rhs {
					my, mine := back[int(s)]
					switch {
					case x.shape[j] == -1:
						er, isMid := midEmpty[int(s)]
						if mine || !isMid {
							match = false
						}
						mids[j] = er
					case !mine || my != x.shape[j]:
						match = false
					}
				}
				if match {
					if x.tmRule >= 0 {
						ok = false // ambiguous
					}
					x.tmRule = k
					x.midRule = mids
				}
			}
			if x.tmRule < 0 {
				ok = false
			}
		}
		if !ok {
			sx.Stat("shape_match_failed", 1)
			continue
		}
		usable[i] = true
		prod := gr.g.productive()
		for s := 0; s < 14; s++ {
			budget := 1 + rng.Intn(10)
			tr := gr.g.randomTree(rng, base.inputs[0].nt, prod, &budget)
			if tr == nil {
				continue
			}
			toks := tr.yield(nil)
			if len(toks) > 30 {
				continue
			}
			var text []byte
			var offs [][2]int
			spaces := rng.Intn(2) == 0
			for _, t := range toks {
				if spaces && rng.Intn(3) == 0 {
					text = append(text, strings.Repeat(" ", 1+rng.Intn(2))...)
				}
				offs = append(offs, [2]int{len(text), len(text) + 1})
				text = append(text, base.termChar(t))
			}
			if spaces && rng.Intn(3) == 0 {
				text = append(text, ' ')
			}
			samples[i] = append(samples[i], sample{text: text, toks: toks, offs: offs, tree: tr})
			reqs = append(reqs, genRequest{pkg: p.name, mode: "0e", input: text})
		}
	}
	answers, err := buildAndRun(pkgs, reqs)
	if err != nil {
		fmt.Fprintln(os_stderr(), "c02.sugar:", err)
		exitCode(3)
	}
	ai := 0
	for i, p := range pkgs {
		if p.err != nil {
			if strings.Contains(p.err.Error(), "conflict") {
				sx.Stat("sugar_conflicting_after_action_extraction", 1) // the extracted empty nonterminal made it non-LALR(1): out of scope
				continue
			}
			sx.Case("c02.nocompile", sx.List(sx.Str(p.tm), sx.Str(firstLines(p.err.Error(), 3))), "failed")
			continue
		}
		if !usable[i] {
			continue
		}
		gr := grams[i]
		gp := p.g.Parser
		tmap := tmaps[i]
		typeID := map[string]int{}
		if gp.Types != nil {
			for k, rt := range gp.Types.RangeTypes {
				typeID[rt.Name] = k + 1
			}
		}
		evs := make([]string, len(gp.Rules))
		for k, r := range gp.Rules {
			ty := 0
			if r.Type >= 0 {
				ty = typeID[gp.Types.RangeTypes[r.Type].Name]
			}
			var reps []string
			if r.Action > 0 {
				for _, rep := range gp.Actions[r.Action].Report {
					reps = append(reps, sx.List(sx.Int(rep.Start), sx.Int(rep.End), sx.Int(typeID[gp.Types.RangeTypes[rep.Type].Name])))
				}
			}
			evs[k] = sx.List(sx.Int(ty), sx.List(reps...), sx.Bool(p.g.HasTrailingNulls(*r)))
		}
		// arrows per tm rule, as child index ranges of the tm-level rule
		ars := make([]string, len(gp.Rules))
		for k := range ars {
			ars[k] = "()"
		}
		for _, x := range gr.exps {
			sr := gr.rules[x.rule]
			var as []string
			for _, a := range sr.arrows {
				first, last := -1, -1
				for e := a.start; e < a.end; e++ {
					if x.elemPos[e] >= 0 {
						if first < 0 {
							first = x.elemPos[e]
						}
						last = x.elemPos[e]
					}
				}
				s, e := 0, 0
				if first >= 0 {
					s, e = first, last+1
				} else {
					// empty part: it sits in front of the next present symbol (whole-rule arrows of an empty expansion: 0,0)
					pos := len(x.shape)
					for q := a.end; q < len(sr.elems); q++ {
						if x.elemPos[q] >= 0 {
							pos = x.elemPos[q]
							break
						}
					}
					if a.start == 0 && a.end == len(sr.elems) {
						pos = 0
					}
					s, e = pos, pos
				}
				as = append(as, sx.List(sx.Int(s), sx.Int(e), sx.Int(typeID[typeName(a.typ)])))
			}
			ars[x.tmRule] = sx.List(as...)
		}
		var ins, outs []string
		for _, smp := range samples[i] {
			next := 0
			var emit func(t *dtree) string
			emit = func(t *dtree) string {
				if t.rule < 0 {
					o := smp.offs[next]
					next++
					return sx.List("l", sx.Int(tmap[t.sym]), sx.Int(o[0]), sx.Int(o[1]))
				}
				x := gr.exps[t.rule]
				parts := []string{"n", sx.Int(x.tmRule)}
				ci := 0
				for j, s := range x.shape {
					if s == -1 {
						parts = append(parts, sx.List("n", sx.Int(x.midRule[j])))
					} else {
						parts = append(parts, emit(t.children[ci]))
						ci++
					}
				}
				return sx.List(parts...)
			}
			tree := emit(smp.tree)
			toks := make([]string, len(smp.toks))
			for j, t := range smp.toks {
				toks[j] = sx.List(sx.Int(tmap[t]), sx.Int(smp.offs[j][0]), sx.Int(smp.offs[j][1]))
			}
			ins = append(ins, sx.List(sx.Int(0), sx.Int(len(smp.text)), sx.List(toks...), tree))
			outs = append(outs, answers[ai])
			ai++
		}
		in := sx.List(tmGrammarStr(p.g), tablesOf(gp.Tables), sx.List(evs...), sx.List(ars...), sx.Bool(gr.fixws), sx.List(ins...))
		sx.Case("c02.events", in, sx.List(outs...))
		sx.Stat(fmt.Sprintf("sugar_fixws_%v", gr.fixws), 1)
		for _, r := range gp.Rules {
			if k := len(r.RHS); k > 1 && r.RHS[k-1].IsStateMarker() {
				sx.Stat("sugar_rules_with_marker_at_end", 1)
			}
		}
	}
	sx.Stat("sugar_grammars_tried", tried)
}
