package main

import (
	"fmt"
	"math/rand"
	"strings"

	"github.com/inspirer/textmapper/lalr"
	"verif/harness/sx"
)

// c07.gen: GENERATED Go parsers of grammars declared `:: parser lalr(k)` (k = 2..4), i.e. the runtime deep lookahead
// of go_parser.go.tmpl (resolveDeepLA walking lookaheadNext / TokenStream.next on a copy of the lexer / stream).
// Grammars: the LALR(k) families of c07.go. The lexer has single-character terminals, blanks, a skipped comment token
// that is injected (so the lexer RETURNS it and fetchNext / lookaheadNext / TokenStream.next have to skip it) and an
// unreported invalid_token. Every token sequence is rendered several times: plain, with blanks, with comments and
// sometimes invalid characters between ANY two tokens. The oracle judges accept/reject by the chart recogniser on
// the token sequence, demands the same result for all renderings, and compares with the loop model on the tables.

func init() {
	commands["c07.gen"] = c07Gen
}

type c07Rendering struct {
	text     []byte
	tokOff   []int // start offset of token i; tokOff[n] = len(text) (eoi)
	comments int
	invalid  int
	what     string
}

// c07Render writes the tokens with separators chosen by mode: 0 plain, 1 blanks, 2 a comment in every gap,
// 3 random mix of blanks/comments/invalid characters, 4 one comment in exactly one gap (gap = pos).
func c07Render(rng *rand.Rand, g *cfg, toks []int, mode, pos int, allowInvalid bool) c07Rendering {
	var r c07Rendering
	var sb []byte
	comment := func() {
		// comment bodies contain terminal characters and blanks (a lookahead that does not skip the comment as a
		// whole would see them)
		body := []string{"", "a", "ab", " b a", "cc", "x y", "a#b"}[rng.Intn(7)]
		sb = append(sb, '#')
		sb = append(sb, body...)
		sb = append(sb, ';')
		r.comments++
	}
	gap := func(i int) {
		switch mode {
		case 1:
			sb = append(sb, " \n\t  "[rng.Intn(5)])
		case 2:
			comment()
		case 3:
			for n := rng.Intn(3); n > 0; n-- {
				switch c := rng.Intn(6); {
				case c < 2:
					sb = append(sb, ' ')
				case c < 5 || !allowInvalid:
					comment()
				default:
					sb = append(sb, "!?@"[rng.Intn(3)])
					r.invalid++
				}
			}
		case 4:
			if i == pos {
				comment()
			}
		case 5:
			if i == pos && allowInvalid {
				sb = append(sb, '!')
				r.invalid++
			} else if i == pos {
				comment()
			}
		}
	}
	for i, t := range toks {
		gap(i)
		r.tokOff = append(r.tokOff, len(sb))
		sb = append(sb, g.termChar(t))
	}
	gap(len(toks))
	r.tokOff = append(r.tokOff, len(sb))
	r.text = sb
	r.what = []string{"plain", "blanks", "comments", "mixed", "one-comment", "one-invalid"}[mode]
	return r
}

func c07Driver(stream bool) func(p *genPkg) string {
	return func(p *genPkg) string {
		var sb strings.Builder
		fmt.Fprintf(&sb, "package %s\n\nimport \"fmt\"\n\nfunc VerifRun(mode string, input []byte) string {\n", p.name)
		sb.WriteString("\tcomments := 0\n\tlistener := func(t NodeType, offset, endoffset int) {\n\t\tif t == Comment {\n\t\t\tcomments++\n\t\t}\n\t}\n")
		sb.WriteString("\tvar p Parser\n\tp.Init(listener)\n")
		if stream {
			sb.WriteString("\tvar s TokenStream\n\ts.Init(string(input), listener)\n\terr := p.Parse(&s)\n")
		} else {
			sb.WriteString("\tvar l Lexer\n\tl.Init(string(input))\n\terr := p.Parse(&l)\n")
		}
		sb.WriteString("\tif err == nil {\n\t\treturn fmt.Sprintf(\"accept %d\", comments)\n\t}\n")
		sb.WriteString("\tif se, ok := err.(SyntaxError); ok {\n\t\treturn fmt.Sprintf(\"syntax %d %d\", se.Offset, se.Endoffset)\n\t}\n\treturn \"other\"\n}\n")
		return sb.String()
	}
}

func c07Gen(rng *rand.Rand, n int, args []string) {
	type gram struct {
		g       *cfg
		k       int
		depth   int
		stream  bool
		opt     bool
		invalid bool // invalid characters appear in the inputs
	}
	var pkgs []*genPkg
	var grams []gram
	tried := 0
	for len(pkgs) < n+n/8 && tried < 80*n {
		tried++
		k := 2 + rng.Intn(3)
		if rng.Intn(7) == 0 {
			k = 5 + rng.Intn(4) // up to lalr(8)
		}
		var g *cfg
		shared := rng.Intn(5) == 0
		if shared {
			g = lalrkSharedCFG(rng)
		} else if rng.Intn(3) == 0 {
			g = lalrkMultiCFG(rng)
		} else {
			g = lalrkCFG(rng, k)
		}
		if g == nil || len(g.rules) == 0 || g.nterms > 8 {
			continue
		}
		if rng.Intn(2) == 0 {
			// a list of such phrases, L: S | L t S (the lookahead of a phrase's last reductions runs into the next phrase)
			s0 := g.inputs[0].nt
			l := g.nterms + g.nnonterms
			g.nnonterms++
			g.rules = append(g.rules, cfgRule{lhs: l, rhs: []int{s0}}, cfgRule{lhs: l, rhs: []int{l, 1 + rng.Intn(g.nterms-1), s0}})
			g.inputs = []cfgInput{{nt: l, eoi: true}}
			sx.Stat("gen_list_wrapped_tried", 1)
		}
		t, err := lalr.Compile(g.toLalr(), lalr.Options{Lookahead: k})
		if err != nil || t == nil || t.SR+t.RR > 0 {
			sx.Stat("gen_rejected_by_lalr", 1)
			continue
		}
		if t.UsedLADepth == 0 && rng.Intn(8) != 0 {
			continue
		}
		gr := gram{g: g, k: k, depth: t.UsedLADepth, stream: rng.Intn(3) == 0, invalid: rng.Intn(3) != 0}
		// optimizeTables together with a conflict that needs deep lookahead is reported as an error by the compiler
		// (such a grammar does not "compile without errors": counted, no case); should it compile, the generated
		// parser is judged like any other
		gr.opt = rng.Intn(8) == 0 || (t.UsedLADepth == 0 && rng.Intn(2) == 0)
		o := tmOpts{optimize: gr.opt, minimize: shared || rng.Intn(3) == 0}
		if o.minimize {
			sx.Stat("gen_minimizeDFA", 1)
		}
		if gr.stream {
			o.extra = append(o.extra, "tokenStream = true")
		}
		name := fmt.Sprintf("k%d", len(pkgs))
		tm := g.toTM(name, o, nil)
		tm = strings.Replace(tm, "invalid_token:\n\n:: parser\n\n", "whitespace: /[ \\n\\t]+/ (space)\ncomment: /#[^;]*;/ (space)\ninvalid_token:\n\n"+fmt.Sprintf(":: parser lalr(%d)\n\n", k), 1)
		idx := strings.Index(tm, "%input ")
		end := idx + strings.Index(tm[idx:], ";\n") + 2
		tm = tm[:end] + "\n%inject comment -> Comment;\n" + tm[end:]
		pkgs = append(pkgs, &genPkg{name: name, tm: tm, driver: c07Driver(gr.stream)})
		grams = append(grams, gr)
	}
	compileAll(pkgs)
	type item struct {
		toks  []int
		rends []c07Rendering
		first int
	}
	items := make([][]item, len(pkgs))
	var reqs []genRequest
	for i, p := range pkgs {
		if p.err != nil {
			continue
		}
		gr := grams[i]
		g := gr.g
		// sentences of random derivations, all their single deletions, replacements of every position (two random
		// terminals each: the twins' contexts differ in one token) and some insertions; plus the usual sample
		var strs [][]int
		prod := g.productive()
		sseen := map[string]bool{}
		for j := 0; j < 12; j++ {
			budget := 2 + rng.Intn(12)
			s := g.randomSentence(rng, g.inputs[0].nt, prod, &budget)
			if s == nil || len(s) > 12 || sseen[sx.Ints(s)] {
				continue
			}
			sseen[sx.Ints(s)] = true
			strs = append(strs, s)
			if len(sseen) > 5 {
				continue
			}
			for pos := range s {
				strs = append(strs, append(append([]int{}, s[:pos]...), s[pos+1:]...))
				for r := 0; r < 2; r++ {
					m := append([]int{}, s...)
					m[pos] = 1 + rng.Intn(g.nterms-1)
					strs = append(strs, m)
				}
				if rng.Intn(3) == 0 {
					strs = append(strs, append(append(append([]int{}, s[:pos]...), 1+rng.Intn(g.nterms-1)), s[pos:]...))
				}
			}
			strs = append(strs, append(append([]int{}, s...), 1+rng.Intn(g.nterms-1)))
		}
		strs = append(strs, capLen(g.sampleInputs(rng, g.inputs[0].nt, 10), 12)...)
		if g.nterms <= 5 {
			strs = append(strs, allStrings(g.nterms, 2)...)
		} else {
			strs = append(strs, allStrings(g.nterms, 1)...)
		}
		seen := map[string]bool{}
		for _, s := range strs {
			key := sx.Ints(s)
			if seen[key] {
				continue
			}
			seen[key] = true
			it := item{toks: s, first: len(reqs)}
			it.rends = append(it.rends, c07Render(rng, g, s, 0, 0, false))
			if len(s) > 0 {
				it.rends = append(it.rends, c07Render(rng, g, s, 1, 0, false), c07Render(rng, g, s, 2, 0, false),
					c07Render(rng, g, s, 3, 0, gr.invalid), c07Render(rng, g, s, 3, 0, gr.invalid))
				// one comment / invalid character in a single gap: every gap for short inputs, random gaps otherwise
				if len(s) <= 8 {
					for pos := 0; pos <= len(s); pos++ {
						it.rends = append(it.rends, c07Render(rng, g, s, 4, pos, false))
					}
				} else {
					for j := 0; j < 4; j++ {
						it.rends = append(it.rends, c07Render(rng, g, s, 4, rng.Intn(len(s)+1), false))
					}
				}
				if gr.invalid {
					it.rends = append(it.rends, c07Render(rng, g, s, 5, rng.Intn(len(s)+1), true))
				}
			}
			for _, r := range it.rends {
				reqs = append(reqs, genRequest{pkg: p.name, mode: "0", input: r.text})
			}
			items[i] = append(items[i], it)
		}
	}
	answers, err := buildAndRun(pkgs, reqs)
	if err != nil {
		fmt.Fprintln(os_stderr(), "c07.gen:", err)
		exitCode(3)
	}
	compiled := 0
	for i, p := range pkgs {
		gr := grams[i]
		g := gr.g
		if p.err != nil && gr.opt && gr.depth > 0 && strings.Contains(p.err.Error(), "optimizeTables is not supported when conflicts are resolved with") {
			sx.Stat("gen_optimize_tables_with_deep_lookahead_refused", 1)
			continue
		}
		if p.err != nil {
			// a grammar lalr.Compile(Lookahead: k) accepts that textmapper cannot compile/generate/build
			sx.Case("c07.nocompile", sx.List(g.cfgStr(), sx.Int(gr.k), sx.Str(p.tm), sx.Str(firstLines(p.err.Error(), 3))), "failed")
			continue
		}
		compiled++
		tmap := make([]int, g.nterms)
		for t := 1; t < g.nterms; t++ {
			tmap[t] = -1
			for _, sym := range p.g.Syms {
				if sym.Name == fmt.Sprintf("'%c'", g.termChar(t)) {
					tmap[t] = sym.Index
				}
			}
		}
		var ins, outs []string
		for _, it := range items[i] {
			var rs, os []string
			for j, r := range it.rends {
				rs = append(rs, sx.List(sx.Str(string(r.text)), sx.Str(r.what)))
				a := strings.Fields(answers[it.first+j])
				out := sx.List(sx.Str(answers[it.first+j]))
				switch {
				case len(a) == 2 && a[0] == "accept":
					out = "(accept)"
					if j == 0 {
						sx.Stat("gen_sentences", 1)
					}
					if a[1] == fmt.Sprint(r.comments) {
						sx.Stat("gen_accepted_all_comments_reported", 1)
					} else {
						sx.Stat("gen_accepted_comment_events_differ", 1)
					}
				case len(a) == 3 && a[0] == "syntax":
					// the error is reported at a token: its index (n = end of input)
					out = sx.List("syntax-at-offset", a[1])
					for ti, off := range r.tokOff {
						if fmt.Sprint(off) == a[1] {
							out = sx.List("syntax", sx.Int(ti))
						}
					}
				}
				os = append(os, out)
				sx.Stat("gen_rendering_"+r.what, 1)
				if r.invalid > 0 {
					sx.Stat("gen_rendering_with_invalid_chars", 1)
				}
			}
			ins = append(ins, sx.List(sx.Ints(it.toks), sx.List(rs...)))
			outs = append(outs, sx.List(os...))
		}
		in := sx.List(g.cfgStr(), sx.Int(gr.k), tmGrammarStr(p.g), tablesOf(p.g.Parser.Tables), sx.Ints(tmap), sx.List(ins...))
		sx.Case("c07.gen", in, sx.List(outs...))
		sx.Stat(fmt.Sprintf("gen_k_%d", gr.k), 1)
		sx.Stat(fmt.Sprintf("gen_used_la_depth_%d", p.g.Parser.Tables.UsedLADepth), 1)
		sx.Stat(fmt.Sprintf("gen_tokenstream_%v_opt_%v", gr.stream, gr.opt), 1)
		sx.Stat("gen_token_sequences", len(items[i]))
	}
	sx.Stat("gen_grammars_tried", tried)
	sx.Stat("gen_grammars_compiled", compiled)
}

// lalrkSharedCFG: several conflict states that conflict on the SAME terminal but are resolved by different deep
// rows: S: A x y1 | B x y2 | C x y3 ; A: t | w ; B: t ; C: w  (after t: A or B, after w: A or C; both on x).
// With minimizeDFA the two conflict states must not be merged.
func lalrkSharedCFG(rng *rand.Rand) *cfg {
	nterms := 7
	g := &cfg{nterms: nterms}
	perm := rng.Perm(nterms - 1)
	x, y1, y2, y3, t, w := 1+perm[0], 1+perm[1], 1+perm[2], 1+perm[3], 1+perm[4], 1+perm[5]
	s, a, b, c := nterms, nterms+1, nterms+2, nterms+3
	mid := []int{x}
	if rng.Intn(2) == 0 {
		mid = append(mid, x) // one more shared token: lalr(3)
	}
	alt := func(head, last int) cfgRule { return cfgRule{lhs: s, rhs: append(append([]int{head}, mid...), last)} }
	g.rules = []cfgRule{alt(a, y1), alt(b, y2), alt(c, y3),
		{lhs: a, rhs: []int{t}}, {lhs: a, rhs: []int{w}}, {lhs: b, rhs: []int{t}}, {lhs: c, rhs: []int{w}}}
	g.nnonterms = 4
	g.inputs = []cfgInput{{nt: s, eoi: true}}
	return g.reduced()
}
