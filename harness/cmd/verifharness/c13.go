package main

import (
	"context"
	"fmt"
	"math/rand"
	"os"
	"strings"

	"github.com/inspirer/textmapper/compiler"
	"github.com/inspirer/textmapper/syntax"
	"verif/harness/sx"
)

func init() {
	commands["c13.expand"] = c13Expand
	commands["c13.tm"] = c13Tm
}

type gen13 struct {
	tm     bool // .tm end-to-end mode: only constructs with a textual form that needs no options
	rng    *rand.Rand
	T, N   int
	nsets  int
	stats  map[string]int
	marker int
}

func (g *gen13) term() *xe {
	if g.tm {
		return xref(2 + g.rng.Intn(g.T-2)) // 0 is eoi, 1 is invalid_token
	}
	return xref(g.rng.Intn(g.T))
}
func (g *gen13) nonterm() *xe { return xref(g.T + g.rng.Intn(g.N)) }

func (g *gen13) seq(depth, maxLen int) *xe {
	n := g.rng.Intn(maxLen + 1)
	var parts []*xe
	for i := 0; i < n; i++ {
		parts = append(parts, g.part(depth))
	}
	switch len(parts) {
	case 0:
		return xk(syntax.Empty)
	case 1:
		return parts[0]
	}
	return xk(syntax.Sequence, parts...)
}

func (g *gen13) sep() *xe {
	if g.rng.Intn(4) == 0 {
		return xk(syntax.Sequence, g.term(), g.term())
	}
	return g.term()
}

func (g *gen13) part(depth int) *xe {
	if depth <= 0 {
		if g.rng.Intn(3) == 0 {
			return g.nonterm()
		}
		return g.term()
	}
	r := g.rng.Intn(100)
	if g.tm && r >= 90 {
		r = g.rng.Intn(87)
		if r >= 87 {
			r = 0
		}
	}
	switch {
	case r < 28:
		return g.term()
	case r < 44:
		return g.nonterm()
	case r < 56:
		g.stats["optional"]++
		return xk(syntax.Optional, g.part(depth-1))
	case r < 66:
		g.stats["nested-choice"]++
		n := 2 + g.rng.Intn(2)
		var alts []*xe
		for i := 0; i < n; i++ {
			alts = append(alts, g.seq(depth-1, 2))
		}
		return xk(syntax.Choice, alts...)
	case r < 82:
		g.stats["list"]++
		l := &xe{kind: syntax.List, flags: g.rng.Intn(4)}
		if g.tm {
			l.flags &= 1
		}
		var elem *xe
		switch g.rng.Intn(5) {
		case 4:
			// same provisional name (A_list...), different content: forces the Equal test and name_N suffixes
			g.stats["list-name-collision-candidate"]++
			elem = xref(0)
			elem = g.term()
			elem.sym = g.term().sym
			if !g.tm {
				elem.sym = 0
			}
			switch g.rng.Intn(3) {
			case 0:
				if g.tm {
					break
				}
				elem = &xe{kind: syntax.Arrow, name: fmt.Sprintf("A%d", g.rng.Intn(2)), sub: []*xe{elem}}
			case 1:
				elem = xk(syntax.Sequence, &xe{kind: syntax.StateMarker, name: "m0"}, elem)
			}
		case 0:
			elem = g.seq(depth-1, 3)
			if elem.kind == syntax.Empty {
				elem = g.term()
			}
		case 1:
			elem = g.nonterm()
		default:
			elem = g.part(depth - 1)
		}
		l.sub = []*xe{elem}
		if elem.kind == syntax.Reference && elem.sym < g.T && g.rng.Intn(3) == 0 {
			// "A_list_withsep" for every two-terminal separator: equal names, different languages
			l.sub = append(l.sub, xk(syntax.Sequence, g.term(), g.term()))
			return l
		}
		if g.rng.Intn(5) < 2 {
			g.stats["list-separator"]++
			l.sub = append(l.sub, g.sep())
		}
		return l
	case r < 87 && g.nsets > 0:
		g.stats["set"]++
		return &xe{kind: syntax.Set, set: g.rng.Intn(g.nsets)}
	case r < 90:
		g.marker++
		return &xe{kind: syntax.StateMarker, name: fmt.Sprintf("m%d", g.marker%3)}
	case r < 93:
		return &xe{kind: syntax.Command, name: fmt.Sprintf("{c%d}", g.rng.Intn(3))}
	case r < 95:
		g.stats["lookahead"]++
		la := &xe{kind: syntax.Lookahead}
		for i, n := 0, 1+g.rng.Intn(2); i < n; i++ {
			var s *xe = g.nonterm()
			if g.rng.Intn(2) == 0 {
				s = xk(syntax.LookaheadNot, s)
			}
			la.sub = append(la.sub, s)
		}
		return la
	case r < 97:
		k := syntax.Assign
		if g.rng.Intn(2) == 0 {
			k = syntax.Append
		}
		return &xe{kind: k, name: "f", sub: []*xe{g.part(depth - 1)}}
	default:
		g.stats["arrow"]++
		return &xe{kind: syntax.Arrow, name: fmt.Sprintf("A%d", g.rng.Intn(2)), sub: []*xe{g.seq(depth-1, 2)}}
	}
}

func (g *gen13) set(depth int) *xset {
	if depth <= 0 || g.rng.Intn(3) == 0 {
		return &xset{kind: 0, sym: g.term().sym}
	}
	switch g.rng.Intn(4) {
	case 0:
		g.marker++
		return &xset{kind: 7, id: g.marker, sub: []*xset{g.set(depth - 1)}}
	case 1:
		return &xset{kind: 6, sub: []*xset{g.set(depth - 1), g.set(depth - 1)}}
	default:
		return &xset{kind: 5, sub: []*xset{g.set(depth - 1), g.set(depth - 1)}}
	}
}

func (g *gen13) rule(depth int) *xe {
	e := g.seq(depth, 3)
	if g.tm {
		return e
	}
	if g.rng.Intn(6) == 0 {
		e = &xe{kind: syntax.Arrow, name: "R", sub: []*xe{e}}
	}
	if g.rng.Intn(10) == 0 {
		g.stats["prec"]++
		e = &xe{kind: syntax.Prec, sym: g.rng.Intn(g.T), sub: []*xe{e}}
	}
	return e
}

func genModel13(rng *rand.Rand, stats map[string]int) *xmodel {
	g := &gen13{rng: rng, T: 2 + rng.Intn(3), N: 1 + rng.Intn(4), stats: stats}
	g.nsets = rng.Intn(3)
	m := &xmodel{terms: synTermNames[:g.T]}
	if rng.Intn(4) == 0 {
		// other spellings (quoted, mixed case) exercise ident.Produce inside ProvisionalName
		perm := rng.Perm(len(synTermNames))
		m.terms = nil
		for _, k := range perm[:g.T] {
			m.terms = append(m.terms, synTermNames[k])
		}
	}
	for i := 0; i < g.nsets; i++ {
		m.sets = append(m.sets, g.set(2))
	}
	depth := 1 + rng.Intn(3)
	for i := 0; i < g.N; i++ {
		nt := xnonterm{name: fmt.Sprintf("N%d", i)}
		r := rng.Intn(20)
		switch {
		case r == 0 && g.nsets > 0:
			nt.value = &xe{kind: syntax.Set, set: rng.Intn(g.nsets)}
		case r == 1:
			nt.value = xk(syntax.Lookahead, g.nonterm())
		default:
			n := 1 + rng.Intn(3)
			var rules []*xe
			for k := 0; k < n; k++ {
				rules = append(rules, g.rule(depth))
			}
			if n == 1 {
				nt.value = rules[0]
			} else {
				nt.value = xk(syntax.Choice, rules...)
			}
		}
		m.nonterms = append(m.nonterms, nt)
	}
	m.inputs = []xinput{{nt: rng.Intn(g.N)}}
	return m
}

func c13Expand(rng *rand.Rand, n int, _ []string) {
	stats := map[string]int{}
	for i := 0; i < n; i++ {
		xm := genModel13(rng, stats)
		m := xm.toSyntax()
		before := len(m.Nonterms)
		err := syntax.Expand(m, syntax.DefaultExpandOptions())
		if err != nil {
			stats["expand-error"]++
			sx.Case("c13.expand", xm.str(), sx.List("err"))
			continue
		}
		if len(m.Nonterms) > before {
			stats["models-with-extracted-nonterminals"]++
		}
		sx.Case("c13.expand", xm.str(), sx.List("ok", implNontermsStr(m), implInputsStr(m)))
	}
	for k, v := range stats {
		sx.Stat(k, v)
	}
}

// ---- end to end: the same trees printed as .tm text and compiled by compiler.Compile ----

func tmSet(s *xset, names []string) string {
	switch s.kind {
	case 0:
		return names[s.sym]
	case 7:
		return "~(" + tmSet(s.sub[0], names) + ")"
	case 6:
		return "(" + tmSet(s.sub[0], names) + " & " + tmSet(s.sub[1], names) + ")"
	}
	return "(" + tmSet(s.sub[0], names) + " | " + tmSet(s.sub[1], names) + ")"
}

func tmExpr(e *xe, m *xmodel, names []string, top bool) string {
	paren := func(s *xe) string {
		t := tmExpr(s, m, names, false)
		switch s.kind {
		case syntax.Reference, syntax.Set:
			return t
		case syntax.Choice, syntax.List:
			return t // already parenthesised
		}
		return "(" + t + ")"
	}
	switch e.kind {
	case syntax.Empty:
		if top {
			return "%empty"
		}
		return "(%empty)"
	case syntax.Reference:
		return names[e.sym]
	case syntax.Optional:
		return paren(e.sub[0]) + "?"
	case syntax.Choice:
		parts := make([]string, len(e.sub))
		for i, s := range e.sub {
			parts[i] = tmExpr(s, m, names, true)
		}
		return "(" + strings.Join(parts, " | ") + ")"
	case syntax.Sequence:
		parts := make([]string, len(e.sub))
		for i, s := range e.sub {
			parts[i] = tmExpr(s, m, names, false)
			if s.kind == syntax.Sequence || s.kind == syntax.Empty {
				parts[i] = "(" + tmExpr(s, m, names, true) + ")"
			}
		}
		return strings.Join(parts, " ")
	case syntax.Set:
		return "set(" + tmSet(m.sets[e.set], names) + ")"
	case syntax.StateMarker:
		return "." + e.name
	case syntax.List:
		q := "*"
		if e.flags&1 != 0 {
			q = "+"
		}
		if len(e.sub) > 1 {
			sep := tmExpr(e.sub[1], m, names, false)
			return "(" + tmExpr(e.sub[0], m, names, true) + " separator " + sep + ")" + q
		}
		return paren(e.sub[0]) + q
	}
	return "?unsupported?"
}

func tmText(m *xmodel, names []string) string {
	var sb strings.Builder
	sb.WriteString("language g13(go);\n\nlang = \"g13\"\npackage = \"verifgen/g13\"\n\n:: lexer\n\n")
	for t := 2; t < len(m.terms); t++ {
		fmt.Fprintf(&sb, "%s: /%s/\n", m.terms[t], m.terms[t])
	}
	sb.WriteString("invalid_token:\n\n:: parser\n\n%input ")
	sb.WriteString(m.nonterms[m.inputs[0].nt].name + ";\n\n")
	var extends strings.Builder
	for k, nt := range m.nonterms {
		sb.WriteString(nt.name + " :\n")
		rules := []*xe{nt.value}
		if nt.value.kind == syntax.Choice {
			rules = nt.value.sub
		}
		// every second nonterminal with several rules keeps only its first rule (or all but the last) here, the others
		// arrive through an 'extend' clause further down: the language must not depend on that spelling
		base := len(rules)
		if len(rules) > 1 && (k+len(rules))%2 == 0 {
			base = 1
			if k%2 == 1 {
				base = len(rules) - 1
			}
		}
		for i, r := range rules[:base] {
			if i > 0 {
				sb.WriteString("  | ")
			} else {
				sb.WriteString("    ")
			}
			sb.WriteString(tmExpr(r, m, names, true) + "\n")
		}
		sb.WriteString(";\n\n")
		if base < len(rules) {
			extends.WriteString("extend " + nt.name + " :\n")
			for i, r := range rules[base:] {
				if i > 0 {
					extends.WriteString("  | ")
				} else {
					extends.WriteString("    ")
				}
				extends.WriteString(tmExpr(r, m, names, true) + "\n")
			}
			extends.WriteString(";\n\n")
		}
	}
	sb.WriteString(extends.String())
	return sb.String()
}

func c13Tm(rng *rand.Rand, n int, _ []string) {
	stats := map[string]int{}
	for i := 0; i < n; i++ {
		g := &gen13{tm: true, rng: rng, stats: stats}
		k := 1 + rng.Intn(3)
		g.T = k + 2
		g.N = 1 + rng.Intn(4)
		g.nsets = rng.Intn(3)
		m := &xmodel{terms: append([]string{"eoi", "invalid_token"}, []string{"a", "b", "c"}[:k]...)}
		for j := 0; j < g.nsets; j++ {
			m.sets = append(m.sets, g.set(2))
		}
		depth := 1 + rng.Intn(3)
		for j := 0; j < g.N; j++ {
			nt := xnonterm{name: fmt.Sprintf("N%d", j)}
			nr := 1 + rng.Intn(3)
			var rules []*xe
			for r := 0; r < nr; r++ {
				rules = append(rules, g.rule(depth))
			}
			if nr == 1 {
				nt.value = rules[0]
			} else {
				nt.value = xk(syntax.Choice, rules...)
			}
			m.nonterms = append(m.nonterms, nt)
		}
		m.inputs = []xinput{{nt: 0}}
		names := append([]string{}, m.terms...)
		for _, nt := range m.nonterms {
			names = append(names, nt.name)
		}
		text := tmText(m, names)
		gr, err := compiler.Compile(context.Background(), "g13.tm", text, compiler.Params{CheckOnly: true})
		if gr == nil || gr.Parser == nil || len(gr.Parser.Rules) == 0 {
			stats["tm-not-compiled"]++
			msg := ""
			if err != nil {
				msg = err.Error()
			}
			if stats["tm-not-compiled"] <= 3 {
				fmt.Fprintf(os.Stderr, "c13.tm: not compiled: %s\n%s\n", msg, text)
			}
			sx.Case("c13.tm", m.str(), sx.List("err"))
			continue
		}
		if err != nil {
			stats["tm-compiled-with-diagnostics"]++
		} else {
			stats["tm-compiled-clean"]++
		}
		syms := make([]string, len(gr.Syms))
		for j, s := range gr.Syms {
			syms[j] = sx.Str(s.Name)
		}
		rules := make([]string, len(gr.Parser.Rules))
		for j, r := range gr.Parser.Rules {
			var rhs []int
			for _, s := range r.RHS {
				if !s.IsStateMarker() {
					rhs = append(rhs, int(s))
				}
			}
			rules[j] = sx.List(sx.Int(int(r.LHS)), sx.Ints(rhs))
		}
		sx.Case("c13.tm", m.str(), sx.List("ok", sx.Int(gr.Parser.NumTerminals), sx.List(syms...), sx.List(rules...)))
	}
	for k, v := range stats {
		sx.Stat(k, v)
	}
}
