package main

import (
	"fmt"
	"math/rand"

	"github.com/inspirer/textmapper/lalr"
	"verif/harness/sx"
)

func init() {
	commands["c07.tables"] = c07Tables
}

// lalrkCFG: grammars that need k > 1 tokens to choose between two reductions of the same text: two (or three)
// "twin" nonterminals derive the same terminal string and are followed by contexts that share a prefix of
// length d < k and then differ; the shared prefix may sit in the same rule, in a wrapper rule ending with a
// terminal (the shape of C: A t), or be produced by a nullable/extra nonterminal.
func lalrkCFG(rng *rand.Rand, k int) *cfg {
	nterms := 4 + rng.Intn(3)
	g := &cfg{nterms: nterms}
	next := nterms
	newNT := func() int { next++; return next - 1 }
	s := newNT()
	term := func() int { return 1 + rng.Intn(nterms-1) }
	// the common text
	var alpha []int
	for i := 1 + rng.Intn(2); i > 0; i-- {
		alpha = append(alpha, term())
	}
	twins := 2 + rng.Intn(2)
	d := rng.Intn(k) // length of the shared context prefix (needs d+1 tokens of lookahead)
	var shared []int
	for i := 0; i < d; i++ {
		shared = append(shared, term())
	}
	used := map[int]bool{}
	tail := 0
	for tw := 0; tw < twins; tw++ {
		a := newNT()
		g.rules = append(g.rules, cfgRule{lhs: a, rhs: append([]int{}, alpha...)})
		// distinguishing terminal
		var diff int
		for tries := 0; ; tries++ {
			diff = term()
			if !used[diff] || tries > 20 {
				break
			}
		}
		used[diff] = true
		ctx := append(append([]int{}, shared...), diff)
		for i := rng.Intn(2); i > 0; i-- {
			ctx = append(ctx, term())
		}
		head := a
		rest := ctx
		// optionally move part of the shared prefix into a wrapper rule that ends with a terminal
		if len(shared) > 0 && rng.Intn(2) == 0 {
			w := newNT()
			cut := 1 + rng.Intn(len(shared))
			wr := append([]int{a}, ctx[:cut]...)
			if rng.Intn(3) == 0 { // the wrapper's last terminal is followed only by an empty nonterminal
				if tail == 0 {
					tail = newNT()
					g.rules = append(g.rules, cfgRule{lhs: tail, rhs: nil})
				}
				wr = append(wr, tail)
				if rng.Intn(2) == 0 { // and the wrapper has a second, longer alternative
					g.rules = append(g.rules, cfgRule{lhs: w, rhs: append(append([]int{a}, ctx[:cut]...), term())})
				}
			}
			g.rules = append(g.rules, cfgRule{lhs: w, rhs: wr})
			head = w
			rest = ctx[cut:]
			if rng.Intn(3) == 0 { // a second level of wrapping
				w2 := newNT()
				g.rules = append(g.rules, cfgRule{lhs: w2, rhs: []int{w}})
				head = w2
			}
		}
		rhs := append([]int{head}, rest...)
		if rng.Intn(4) == 0 {
			rhs = append([]int{term()}, rhs...)
		}
		g.rules = append(g.rules, cfgRule{lhs: s, rhs: rhs})
	}
	if rng.Intn(3) == 0 { // recursion through S
		g.rules = append(g.rules, cfgRule{lhs: s, rhs: []int{term(), s, term()}})
	}
	g.nnonterms = next - nterms
	g.inputs = []cfgInput{{nt: s, eoi: true}}
	// rules must be grouped by nonterminal in index order for toLalr/cfgStr consumers: sort stable by lhs
	var sorted []cfgRule
	for nt := nterms; nt < next; nt++ {
		for _, r := range g.rules {
			if r.lhs == nt {
				sorted = append(sorted, r)
			}
		}
	}
	g.rules = sorted
	return g.reduced()
}

// lalrkMultiCFG: the two twins conflict on SEVERAL lookahead terminals, each needing its own depth: for every
// conflict terminal x both twins have a context starting with x that shares d_x further tokens before it
// differs. Compiled with a k between the depths the conflict must be reported (not resolved by the last one).
func lalrkMultiCFG(rng *rand.Rand) *cfg {
	nterms := 5 + rng.Intn(3)
	g := &cfg{nterms: nterms}
	s, a, b := nterms, nterms+1, nterms+2
	term := func() int { return 1 + rng.Intn(nterms-1) }
	alpha := []int{term()}
	g.rules = append(g.rules, cfgRule{lhs: a, rhs: alpha}, cfgRule{lhs: b, rhs: alpha})
	nconf := 2 + rng.Intn(2)
	perm := rng.Perm(nterms - 1)
	for c := 0; c < nconf && c < len(perm); c++ {
		x := 1 + perm[c]
		d := rng.Intn(4) // tokens shared after x
		var shared []int
		for i := 0; i < d; i++ {
			shared = append(shared, term())
		}
		t1 := term()
		t2 := term()
		for t2 == t1 {
			t2 = term()
		}
		g.rules = append(g.rules,
			cfgRule{lhs: s, rhs: append(append([]int{a, x}, shared...), t1)},
			cfgRule{lhs: s, rhs: append(append([]int{b, x}, shared...), t2)})
	}
	g.nnonterms = 3
	g.inputs = []cfgInput{{nt: s, eoi: true}}
	var sorted []cfgRule
	for nt := nterms; nt < nterms+3; nt++ {
		for _, r := range g.rules {
			if r.lhs == nt {
				sorted = append(sorted, r)
			}
		}
	}
	g.rules = sorted
	return g.reduced()
}

func c07Tables(rng *rand.Rand, n int, args []string) {
	tried, done := 0, 0
	for done < n && tried < 80*n {
		tried++
		k := 2 + rng.Intn(3)
		var g *cfg
		if rng.Intn(4) == 0 {
			kn := defaultKnobs
			kn.maxTerms = 4
			kn.maxNonterms = 4
			kn.noEoi = false
			kn.multiInput = false
			g = genCFG(rng, kn).reduced()
		} else if rng.Intn(3) == 0 {
			g = lalrkMultiCFG(rng)
		} else {
			g = lalrkCFG(rng, k)
		}
		if g == nil || len(g.rules) == 0 {
			continue
		}
		t, err := lalr.Compile(g.toLalr(), lalr.Options{Lookahead: k})
		if err != nil || t == nil || t.SR+t.RR > 0 {
			sx.Stat("rejected_by_lalr", 1)
			continue
		}
		if t.UsedLADepth == 0 && rng.Intn(4) != 0 {
			sx.Stat("plain_lalr1_skipped", 1)
			continue
		}
		done++
		var batches []string
		for idx, in := range g.inputs {
			strs := capLen(g.sampleInputs(rng, in.nt, 24), 12)
			if g.nterms <= 4 {
				strs = append(strs, allStrings(g.nterms, 4)...)
			} else {
				strs = append(strs, allStrings(g.nterms, 3)...)
			}
			toks := make([]string, len(strs))
			for j, s := range strs {
				toks[j] = sx.Ints(s)
			}
			batches = append(batches, sx.List(sx.Int(idx), sx.List(toks...)))
		}
		sx.Case("c07.tables", sx.List(g.cfgStr(), sx.Int(k), tablesOf(t), sx.List(batches...)), sx.List("validated", sx.Int(t.UsedLADepth)))
		sx.Stat(fmt.Sprintf("used_la_depth_%d", t.UsedLADepth), 1)
		sx.Stat(fmt.Sprintf("k_%d", k), 1)
	}
	sx.Stat("grammars_tried", tried)
}
