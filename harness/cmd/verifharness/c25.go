package main

import (
	"math/rand"
	"sort"

	"github.com/inspirer/textmapper/util/container"
	"github.com/inspirer/textmapper/util/set"
	"verif/harness/sx"
)

func init() {
	commands["c25.op"] = c25Op
	commands["c25.closure"] = c25Closure
}

func randSortedSet(rng *rand.Rand, universe, maxLen int) []int {
	n := rng.Intn(maxLen + 1)
	m := map[int]bool{}
	for i := 0; i < n; i++ {
		m[rng.Intn(universe)] = true
	}
	ret := []int{}
	for k := range m {
		ret = append(ret, k)
	}
	sort.Ints(ret)
	return ret
}

func setStr(s container.IntSet) string {
	return sx.List(sx.Bool(s.Inverse), sx.Ints(s.Set))
}

func c25Op(rng *rand.Rand, n int, _ []string) {
	ops := []string{"merge", "intersect", "complement"}
	for i := 0; i < n; i++ {
		u := 3 + rng.Intn(14)
		a := container.IntSet{Inverse: rng.Intn(2) == 0, Set: randSortedSet(rng, u, 8)}
		b := container.IntSet{Inverse: rng.Intn(2) == 0, Set: randSortedSet(rng, u, 8)}
		op := ops[rng.Intn(3)]
		in := sx.List(op, setStr(a), setStr(b))
		var reuse []int
		if rng.Intn(2) == 0 {
			reuse = make([]int, rng.Intn(20))
		}
		var r container.IntSet
		switch op {
		case "merge":
			r = container.Merge(a, b, reuse)
		case "intersect":
			r = container.Intersect(a, b, reuse)
		default:
			r = a.Complement()
		}
		sx.Case("c25.op", in, setStr(r))
	}
}

// A system is a list of nodes (op, edges, initial elements). Construction order matters for the
// public API: intersections and complements may only name earlier nodes; union nodes can Include
// any node afterwards (which is how cycles through intersections/complements arise).
type sysNode struct {
	op    byte // 'u', 'i', 'c'
	edges []int
	elems []int
}

func genSystem(rng *rand.Rand) []sysNode {
	n := 2 + rng.Intn(6)
	u := 2 + rng.Intn(9)
	nodes := make([]sysNode, n)
	cyc := rng.Intn(3) // 0: mostly DAG, 1/2: free edges
	for i := range nodes {
		r := rng.Intn(10)
		switch {
		case i > 0 && r < 2:
			nodes[i].op = 'c'
			nodes[i].edges = []int{rng.Intn(i)}
		case i > 0 && r < 4:
			nodes[i].op = 'i'
			k := rng.Intn(4)
			for j := 0; j < k; j++ {
				nodes[i].edges = append(nodes[i].edges, rng.Intn(i))
			}
		default:
			nodes[i].op = 'u'
			nodes[i].elems = randSortedSet(rng, u, 4)
			k := rng.Intn(4)
			for j := 0; j < k; j++ {
				if cyc == 0 && i > 0 {
					nodes[i].edges = append(nodes[i].edges, rng.Intn(i))
				} else {
					nodes[i].edges = append(nodes[i].edges, rng.Intn(n))
				}
			}
		}
	}
	return nodes
}

func sysStr(nodes []sysNode) string {
	parts := make([]string, len(nodes))
	for i, nd := range nodes {
		parts[i] = sx.List(string([]byte{nd.op}), sx.Ints(nd.edges), sx.Ints(nd.elems))
	}
	return sx.List(parts...)
}

func runSystem(nodes []sysNode, bufSize int) string {
	c := set.NewClosure(bufSize)
	fs := make([]*set.FutureSet, len(nodes))
	index := map[*set.FutureSet]int{}
	for i, nd := range nodes {
		switch nd.op {
		case 'u':
			fs[i] = c.Add(nd.elems)
		case 'i':
			var args []*set.FutureSet
			for _, e := range nd.edges {
				args = append(args, fs[e])
			}
			fs[i] = c.Intersect(args...)
		case 'c':
			fs[i] = c.Complement(fs[nd.edges[0]], nil)
		}
		index[fs[i]] = i
	}
	for i, nd := range nodes {
		if nd.op == 'u' {
			for _, e := range nd.edges {
				fs[i].Include(fs[e])
			}
		}
	}
	err := c.Compute()
	if err != nil {
		ce := err.(set.ClosureError)
		seen := map[int]bool{}
		var idx []int
		for _, f := range ce {
			if !seen[index[f]] {
				seen[index[f]] = true
				idx = append(idx, index[f])
			}
		}
		sort.Ints(idx)
		return sx.List("err", sx.Ints(idx))
	}
	parts := make([]string, len(nodes))
	for i := range nodes {
		parts[i] = setStr(fs[i].IntSet)
	}
	return sx.List("ok", sx.List(parts...))
}

func c25Closure(rng *rand.Rand, n int, _ []string) {
	for i := 0; i < n; i++ {
		nodes := genSystem(rng)
		sx.Case("c25.closure", sysStr(nodes), runSystem(nodes, rng.Intn(40)))
	}
}
