package main

// c20.pending: generated event-based parsers with an injected (space) comment token against the model Gram/Pending.v
// (Events.xrun + fetchNext's pending list + flush at every shift): the grammars, tables and event tables of c02.random,
// the lexer output (real tokens and comments with their ranges) and the listener callbacks in report order.

import (
	"fmt"
	"math/rand"
	"strings"

	"github.com/inspirer/textmapper/lalr"
	"verif/harness/sx"
)

func init() {
	commands["c20.pending"] = c20Pending
}

func c20Pending(rng *rand.Rand, n int, args []string) {
	typeName := func(i int) string { return fmt.Sprintf("T%02d", i) }
	const ntypes = 6
	var pkgs []*genPkg
	var grammars []*cfg
	var arrowsOf [][][]arrow
	var fixws, hasMarks []bool
	tried := 0
	for len(pkgs) < n && tried < 40*n {
		tried++
		k := defaultKnobs
		k.maxTerms = 3
		k.maxNonterms = 4
		k.noEoi = false
		g := genCFG(rng, k).reduced()
		if g == nil || len(g.rules) == 0 {
			continue
		}
		if rng.Intn(2) == 0 {
			g = g.withNullableTail(rng)
		}
		t, err := lalr.Compile(g.toLalr(), lalr.Options{})
		if err != nil || t == nil || t.SR+t.RR > 0 {
			continue
		}
		ar := make([][]arrow, len(g.rules))
		for i, r := range g.rules {
			ar[i] = genArrows(rng, len(r.rhs), ntypes)
			// an empty range at the end of a rule cannot be reported (the compiler rejects it)
			var keep []arrow
			for _, a := range ar[i] {
				if a.start == a.end && a.start == len(r.rhs) && len(r.rhs) > 0 {
					continue
				}
				keep = append(keep, a)
			}
			ar[i] = keep
		}
		o := tmOpts{optimize: rng.Intn(2) == 0}
		fw := rng.Intn(4) != 0
		if fw {
			o.extra = append(o.extra, "fixWhitespace = true")
		}
		// state markers in two grammars of three: at any position, also at the end of a rule and behind nullable symbols
		var marks [][][]int
		if rng.Intn(3) != 0 {
			nullable := g.nullableSyms()
			marks = make([][][]int, len(g.rules))
			for i, r := range g.rules {
				marks[i] = genMarks(rng, len(r.rhs), len(r.rhs) > 0 && nullable[r.rhs[len(r.rhs)-1]])
			}
		}
		name := fmt.Sprintf("q%04d", len(pkgs))
		tmText := g.toTMArrowsM(name, o, ar, typeName, marks)
		tmText = strings.Replace(tmText, "whitespace: /[ ]+/ (space)\n", "whitespace: /[ ]+/ (space)\ncomment: /#[a-z]*;/ (space)\n", 1)
		tmText = strings.Replace(tmText, ":: parser\n\n", ":: parser\n\n%inject comment -> Comment;\n\n", 1)
		pkgs = append(pkgs, &genPkg{name: name, tm: tmText, driver: plainDriver(g)})
		hasMarks = append(hasMarks, marks != nil)
		grammars = append(grammars, g)
		arrowsOf = append(arrowsOf, ar)
		fixws = append(fixws, fw)
	}
	compileAll(pkgs)
	type sample struct {
		text  []byte
		toks  []int
		offs  [][2]int
		lex   []string
		tree  *dtree
		input int
	}
	var reqs []genRequest
	ncomments := 0
	samples := make([][]sample, len(pkgs))
	for i, p := range pkgs {
		if p.err != nil {
			continue
		}
		g := grammars[i]
		prod := g.productive()
		for idx, in := range g.inputs {
			for s := 0; s < 14; s++ {
				budget := 1 + rng.Intn(10)
				tr := g.randomTree(rng, in.nt, prod, &budget)
				if tr == nil {
					continue
				}
				toks := tr.yield(nil)
				if len(toks) > 30 {
					continue
				}
				var text []byte
				var offs [][2]int
				var lex []string
				spaces := rng.Intn(2) == 0
				trivia := func() {
					for k := rng.Intn(3); k > 0; k-- {
						switch rng.Intn(3) {
						case 0:
							if spaces {
								text = append(text, strings.Repeat(" ", 1+rng.Intn(2))...)
							}
						default:
							c := "#" + strings.Repeat("x", rng.Intn(3)) + ";"
							lex = append(lex, fmt.Sprintf("(s %d %d)", len(text), len(text)+len(c)))
							text = append(text, c...)
							ncomments++
						}
					}
				}
				for _, t := range toks {
					trivia()
					offs = append(offs, [2]int{len(text), len(text) + 1})
					lex = append(lex, fmt.Sprintf("(r %d)", len(offs)-1))
					text = append(text, g.termChar(t))
				}
				trivia()
				samples[i] = append(samples[i], sample{text: text, toks: toks, offs: offs, lex: lex, tree: tr, input: idx})
				reqs = append(reqs, genRequest{pkg: p.name, mode: fmt.Sprintf("%de", idx), input: text})
			}
		}
	}
	answers, err := buildAndRun(pkgs, reqs)
	if err != nil {
		fmt.Fprintln(os_stderr(), "c20.pending:", err)
		exitCode(3)
	}
	ai := 0
	for i, p := range pkgs {
		if p.err != nil {
			sx.Case("c20.pendnocompile", sx.List(sx.Str(p.tm), sx.Str(firstLines(p.err.Error(), 3))), "failed")
			continue
		}
		g := grammars[i]
		gp := p.g.Parser
		if len(gp.Rules) != len(g.rules) {
			sx.Case("c20.pendnocompile", sx.List(sx.Str(p.tm), sx.Str("rule count differs")), "failed")
			ai += len(samples[i])
			continue
		}
		tmap := make([]int, g.nterms)
		for t := 1; t < g.nterms; t++ {
			for _, sym := range p.g.Syms {
				if sym.Name == fmt.Sprintf("'%c'", g.termChar(t)) {
					tmap[t] = sym.Index
				}
			}
		}
		// node type ids as the generated listener declares them
		typeID := map[string]int{}
		if gp.Types != nil {
			for k, rt := range gp.Types.RangeTypes {
				typeID[rt.Name] = k + 1
			}
		}
		// what the compiler left per rule
		evs := make([]string, len(gp.Rules))
		for k, r := range gp.Rules {
			ty := 0
			if r.Type >= 0 {
				ty = typeID[gp.Types.RangeTypes[r.Type].Name]
			}
			var reps []string
			if r.Action > 0 {
				for _, rep := range gp.Actions[r.Action].Report {
					reps = append(reps, sx.List(sx.Int(rep.Start), sx.Int(rep.End), sx.Int(typeID[gp.Types.RangeTypes[rep.Type].Name])))
				}
			}
			evs[k] = sx.List(sx.Int(ty), sx.List(reps...), sx.Bool(p.g.HasTrailingNulls(*r)))
		}
		// the arrows as written in the source
		ars := make([]string, len(g.rules))
		for k := range g.rules {
			var as []string
			for _, a := range arrowsOf[i][k] {
				as = append(as, sx.List(sx.Int(a.start), sx.Int(a.end), sx.Int(typeID[typeName(a.typ)])))
			}
			ars[k] = sx.List(as...)
		}
		var ins, outs []string
		for _, s := range samples[i] {
			toks := make([]string, 0, len(s.lex))
			for _, l := range s.lex {
				var a, b int
				if n, _ := fmt.Sscanf(l, "(s %d %d)", &a, &b); n == 2 {
					toks = append(toks, sx.List("s", sx.Int(typeID["Comment"]), sx.Int(a), sx.Int(b)))
				} else if n, _ := fmt.Sscanf(l, "(r %d)", &a); n == 1 {
					toks = append(toks, sx.List("r", sx.Int(tmap[s.toks[a]]), sx.Int(s.offs[a][0]), sx.Int(s.offs[a][1])))
				}
			}
			ins = append(ins, sx.List(sx.Int(s.input), sx.Int(len(s.text)), sx.List(toks...)))
			outs = append(outs, answers[ai])
			ai++
		}
		in := sx.List(tmGrammarStr(p.g), tablesOf(gp.Tables), sx.List(evs...), sx.List(ars...), sx.Bool(fixws[i]), sx.List(ins...))
		sx.Case("c20.pending", in, sx.List(outs...))
		sx.Stat(fmt.Sprintf("fixws_%v", fixws[i]), 1)
		for _, r := range gp.Rules {
			for k := len(r.RHS) - 1; k >= 0; k-- {
				if !r.RHS[k].IsStateMarker() {
					if p.g.Syms[r.RHS[k]].CanBeNull {
						sx.Stat("rules_with_nullable_tail", 1)
					}
					break
				}
			}
		}
		if hasMarks[i] {
			sx.Stat("with_state_markers", 1)
			for _, r := range gp.Rules {
				if k := len(r.RHS); k > 1 && r.RHS[k-1].IsStateMarker() && !r.RHS[k-2].IsStateMarker() && p.g.Syms[r.RHS[k-2]].CanBeNull {
					sx.Stat("rules_with_marker_behind_nullable_tail", 1)
				}
			}
		}
	}
	sx.Stat("grammars_tried", tried)
	sx.Stat("comments_in_inputs", ncomments)
}
