package main

import (
	"fmt"
	"math/rand"
	"strings"

	"github.com/inspirer/textmapper/lalr"
	"verif/harness/sx"
)

// cfg is a plain context-free grammar over symbol indices: terminals 0..nterms-1 (0 is EOI),
// nonterminals nterms..nterms+nnonterms-1.
type cfg struct {
	nterms    int
	nnonterms int
	rules     []cfgRule
	inputs    []cfgInput
	prec      []cfgPrec // later = higher
	expectSR  int
	expectRR  int
}

type cfgRule struct {
	lhs  int
	rhs  []int
	prec int // %prec terminal, 0 = none
}

type cfgInput struct {
	nt  int
	eoi bool
}

type cfgPrec struct {
	assoc int // 0 left, 1 right, 2 nonassoc
	terms []int
}

type cfgKnobs struct {
	maxNonterms int
	maxTerms    int
	maxRules    int // per nonterminal
	maxRHS      int
	emptyProb   int // percent of empty rules
	multiInput  bool
	noEoi       bool
}

var defaultKnobs = cfgKnobs{maxNonterms: 5, maxTerms: 5, maxRules: 3, maxRHS: 4, emptyProb: 15, multiInput: true, noEoi: true}

func genCFG(rng *rand.Rand, k cfgKnobs) *cfg {
	g := &cfg{nterms: 2 + rng.Intn(k.maxTerms), nnonterms: 1 + rng.Intn(k.maxNonterms)}
	for nt := 0; nt < g.nnonterms; nt++ {
		n := 1 + rng.Intn(k.maxRules)
		for r := 0; r < n; r++ {
			var rhs []int
			if rng.Intn(100) >= k.emptyProb {
				ln := 1 + rng.Intn(k.maxRHS)
				for i := 0; i < ln; i++ {
					if rng.Intn(100) < 55 {
						rhs = append(rhs, 1+rng.Intn(g.nterms-1))
					} else {
						rhs = append(rhs, g.nterms+rng.Intn(g.nnonterms))
					}
				}
			}
			g.rules = append(g.rules, cfgRule{lhs: g.nterms + nt, rhs: rhs})
		}
	}
	g.inputs = []cfgInput{{nt: g.nterms, eoi: true}}
	if k.noEoi && rng.Intn(4) == 0 {
		g.inputs[0].eoi = false
	}
	if k.multiInput && g.nnonterms > 1 && rng.Intn(3) == 0 {
		g.inputs = append(g.inputs, cfgInput{nt: g.nterms + 1 + rng.Intn(g.nnonterms-1), eoi: !(k.noEoi && rng.Intn(3) == 0)})
	}
	return g
}

func (g *cfg) symName(s int) string {
	if s == 0 {
		return "eoi"
	}
	if s < g.nterms {
		return string(rune('a' + s - 1))
	}
	return fmt.Sprintf("N%d", s-g.nterms)
}

func (g *cfg) String() string {
	var sb strings.Builder
	for _, r := range g.rules {
		sb.WriteString(g.symName(r.lhs) + " ->")
		for _, s := range r.rhs {
			sb.WriteString(" " + g.symName(s))
		}
		sb.WriteString("; ")
	}
	return sb.String()
}

func (g *cfg) toLalr() *lalr.Grammar {
	ret := &lalr.Grammar{Terminals: g.nterms, Origin: vnode{"grammar", 0}, ExpectSR: g.expectSR, ExpectRR: g.expectRR}
	for s := 0; s < g.nterms+g.nnonterms; s++ {
		ret.Symbols = append(ret.Symbols, g.symName(s))
	}
	for i, r := range g.rules {
		rhs := make([]lalr.Sym, len(r.rhs))
		for j, s := range r.rhs {
			rhs[j] = lalr.Sym(s)
		}
		ret.Rules = append(ret.Rules, lalr.Rule{LHS: lalr.Sym(r.lhs), RHS: rhs, Precedence: lalr.Sym(r.prec), Action: i, Type: -1, Origin: vnode{"rule", i}})
	}
	for _, in := range g.inputs {
		ret.Inputs = append(ret.Inputs, lalr.Input{Nonterminal: lalr.Sym(in.nt), Eoi: in.eoi})
	}
	for _, p := range g.prec {
		terms := make([]lalr.Sym, len(p.terms))
		for i, t := range p.terms {
			terms[i] = lalr.Sym(t)
		}
		ret.Precedence = append(ret.Precedence, lalr.Precedence{Associativity: lalr.Associativity(p.assoc), Terminals: terms})
	}
	return ret
}

// cfgStr serialises the grammar for the model: (nterms nnonterms (rules (lhs (rhs) prec)) (inputs (nt eoi)) (prec (assoc (terms))))
func (g *cfg) cfgStr() string {
	rs := make([]string, len(g.rules))
	for i, r := range g.rules {
		rs[i] = sx.List(sx.Int(r.lhs), sx.Ints(r.rhs), sx.Int(r.prec))
	}
	ins := make([]string, len(g.inputs))
	for i, in := range g.inputs {
		ins[i] = sx.List(sx.Int(in.nt), sx.Bool(in.eoi))
	}
	ps := make([]string, len(g.prec))
	for i, p := range g.prec {
		ps[i] = sx.List(sx.Int(p.assoc), sx.Ints(p.terms))
	}
	return sx.List(sx.Int(g.nterms), sx.Int(g.nnonterms), sx.List(rs...), sx.List(ins...), sx.List(ps...))
}

func defaultEncStr(t *lalr.DefaultEnc) string {
	return sx.List(sx.Ints(t.Action), sx.Ints(t.Lalr), sx.Ints(t.Goto), sx.Ints(t.FromTo))
}

func dispEncStr(o *lalr.DisplacementEnc) string {
	return sx.List(sx.Ints(o.DefGoto), sx.Ints(o.Goto), sx.Ints(o.DefAct), sx.Ints(o.Action), sx.Int(o.Base), sx.Ints(o.Table), sx.Ints(o.Check))
}
