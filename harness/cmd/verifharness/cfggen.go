package main

import (
	"fmt"
	"math/rand"
	"strings"

	"github.com/inspirer/textmapper/lalr"
	"verif/harness/sx"
)

// cfg is a plain context-free grammar over symbol indices: terminals 0..nterms-1 (0 is EOI),
// nonterminals nterms..nterms+nnonterms-1.
type cfg struct {
	nterms    int
	nnonterms int
	rules     []cfgRule
	inputs    []cfgInput
	prec      []cfgPrec // later = higher
	expectSR  int
	expectRR  int
}

type cfgRule struct {
	lhs  int
	rhs  []int
	prec int // %prec terminal, 0 = none
}

type cfgInput struct {
	nt  int
	eoi bool
}

type cfgPrec struct {
	assoc int // 0 left, 1 right, 2 nonassoc
	terms []int
}

type cfgKnobs struct {
	maxNonterms int
	maxTerms    int
	maxRules    int // per nonterminal
	maxRHS      int
	emptyProb   int // percent of empty rules
	multiInput  bool
	noEoi       bool
}

var defaultKnobs = cfgKnobs{maxNonterms: 5, maxTerms: 5, maxRules: 3, maxRHS: 4, emptyProb: 15, multiInput: true, noEoi: true}

func genCFG(rng *rand.Rand, k cfgKnobs) *cfg {
	g := &cfg{nterms: 2 + rng.Intn(k.maxTerms), nnonterms: 1 + rng.Intn(k.maxNonterms)}
	for nt := 0; nt < g.nnonterms; nt++ {
		n := 1 + rng.Intn(k.maxRules)
		for r := 0; r < n; r++ {
			var rhs []int
			if rng.Intn(100) >= k.emptyProb {
				ln := 1 + rng.Intn(k.maxRHS)
				for i := 0; i < ln; i++ {
					if rng.Intn(100) < 55 {
						rhs = append(rhs, 1+rng.Intn(g.nterms-1))
					} else {
						rhs = append(rhs, g.nterms+rng.Intn(g.nnonterms))
					}
				}
			}
			g.rules = append(g.rules, cfgRule{lhs: g.nterms + nt, rhs: rhs})
		}
	}
	g.inputs = []cfgInput{{nt: g.nterms, eoi: true}}
	if k.noEoi && rng.Intn(4) == 0 {
		g.inputs[0].eoi = false
	}
	if k.multiInput && g.nnonterms > 1 && rng.Intn(3) == 0 {
		g.inputs = append(g.inputs, cfgInput{nt: g.nterms + 1 + rng.Intn(g.nnonterms-1), eoi: !(k.noEoi && rng.Intn(3) == 0)})
	}
	return g
}

func (g *cfg) symName(s int) string {
	if s == 0 {
		return "eoi"
	}
	if s < g.nterms {
		return string(rune('a' + s - 1))
	}
	return fmt.Sprintf("N%d", s-g.nterms)
}

func (g *cfg) String() string {
	var sb strings.Builder
	for _, r := range g.rules {
		sb.WriteString(g.symName(r.lhs) + " ->")
		for _, s := range r.rhs {
			sb.WriteString(" " + g.symName(s))
		}
		sb.WriteString("; ")
	}
	return sb.String()
}

func (g *cfg) toLalr() *lalr.Grammar {
	ret := &lalr.Grammar{Terminals: g.nterms, Origin: vnode{"grammar", 0}, ExpectSR: g.expectSR, ExpectRR: g.expectRR}
	for s := 0; s < g.nterms+g.nnonterms; s++ {
		ret.Symbols = append(ret.Symbols, g.symName(s))
	}
	for i, r := range g.rules {
		rhs := make([]lalr.Sym, len(r.rhs))
		for j, s := range r.rhs {
			rhs[j] = lalr.Sym(s)
		}
		ret.Rules = append(ret.Rules, lalr.Rule{LHS: lalr.Sym(r.lhs), RHS: rhs, Precedence: lalr.Sym(r.prec), Action: i, Type: -1, Origin: vnode{"rule", i}})
	}
	for _, in := range g.inputs {
		ret.Inputs = append(ret.Inputs, lalr.Input{Nonterminal: lalr.Sym(in.nt), Eoi: in.eoi})
	}
	for _, p := range g.prec {
		terms := make([]lalr.Sym, len(p.terms))
		for i, t := range p.terms {
			terms[i] = lalr.Sym(t)
		}
		ret.Precedence = append(ret.Precedence, lalr.Precedence{Associativity: lalr.Associativity(p.assoc), Terminals: terms})
	}
	return ret
}

// cfgStr serialises the grammar for the model: (nterms nnonterms (rules (lhs (rhs) prec)) (inputs (nt eoi)) (prec (assoc (terms))))
func (g *cfg) cfgStr() string {
	rs := make([]string, len(g.rules))
	for i, r := range g.rules {
		rs[i] = sx.List(sx.Int(r.lhs), sx.Ints(r.rhs), sx.Int(r.prec))
	}
	ins := make([]string, len(g.inputs))
	for i, in := range g.inputs {
		ins[i] = sx.List(sx.Int(in.nt), sx.Bool(in.eoi))
	}
	ps := make([]string, len(g.prec))
	for i, p := range g.prec {
		ps[i] = sx.List(sx.Int(p.assoc), sx.Ints(p.terms))
	}
	return sx.List(sx.Int(g.nterms), sx.Int(g.nnonterms), sx.List(rs...), sx.List(ins...), sx.List(ps...))
}

func defaultEncStr(t *lalr.DefaultEnc) string {
	return sx.List(sx.Ints(t.Action), sx.Ints(t.Lalr), sx.Ints(t.Goto), sx.Ints(t.FromTo))
}

func dispEncStr(o *lalr.DisplacementEnc) string {
	return sx.List(sx.Ints(o.DefGoto), sx.Ints(o.Goto), sx.Ints(o.DefAct), sx.Ints(o.Action), sx.Int(o.Base), sx.Ints(o.Table), sx.Ints(o.Check))
}

// productive marks the nonterminals that derive some terminal string.
func (g *cfg) productive() []bool {
	prod := make([]bool, g.nterms+g.nnonterms)
	for i := 0; i < g.nterms; i++ {
		prod[i] = true
	}
	for changed := true; changed; {
		changed = false
		for _, r := range g.rules {
			if prod[r.lhs] {
				continue
			}
			ok := true
			for _, s := range r.rhs {
				if !prod[s] {
					ok = false
					break
				}
			}
			if ok {
				prod[r.lhs] = true
				changed = true
			}
		}
	}
	return prod
}

// randomSentence expands sym by random productive rules; budget bounds the number of expansions.
func (g *cfg) randomSentence(rng *rand.Rand, sym int, prod []bool, budget *int) []int {
	if sym < g.nterms {
		return []int{sym}
	}
	var cands []int
	for i, r := range g.rules {
		if r.lhs != sym {
			continue
		}
		ok := true
		for _, s := range r.rhs {
			if !prod[s] {
				ok = false
			}
		}
		if ok {
			cands = append(cands, i)
		}
	}
	if len(cands) == 0 {
		return nil
	}
	*budget--
	ri := cands[rng.Intn(len(cands))]
	if *budget < 0 {
		// out of budget: take the rule with the fewest nonterminals to finish quickly
		best, bestN := cands[0], 1<<30
		for _, c := range cands {
			n := 0
			for _, s := range g.rules[c].rhs {
				if s >= g.nterms {
					n++
				}
			}
			if n < bestN {
				best, bestN = c, n
			}
		}
		ri = best
		if *budget < -200 {
			return nil
		}
	}
	var out []int
	for _, s := range g.rules[ri].rhs {
		part := g.randomSentence(rng, s, prod, budget)
		if part == nil && s >= g.nterms {
			return nil
		}
		out = append(out, part...)
	}
	if out == nil {
		out = []int{}
	}
	return out
}

// sampleInputs returns token strings for input nonterminal nt: sentences, mutants, random strings.
func (g *cfg) sampleInputs(rng *rand.Rand, nt int, n int) [][]int {
	prod := g.productive()
	var ret [][]int
	for i := 0; i < n; i++ {
		var s []int
		if prod[nt] && rng.Intn(4) != 0 {
			budget := 2 + rng.Intn(12)
			s = g.randomSentence(rng, nt, prod, &budget)
		}
		if s == nil || rng.Intn(5) == 0 {
			s = make([]int, rng.Intn(6))
			for j := range s {
				s[j] = 1 + rng.Intn(g.nterms-1)
			}
		} else if rng.Intn(3) == 0 && len(s) > 0 { // mutate a sentence
			s = append([]int{}, s...)
			switch rng.Intn(3) {
			case 0:
				p := rng.Intn(len(s))
				s = append(s[:p], s[p+1:]...)
			case 1:
				p := rng.Intn(len(s) + 1)
				s = append(s[:p:p], append([]int{1 + rng.Intn(g.nterms-1)}, s[p:]...)...)
			default:
				s[rng.Intn(len(s))] = 1 + rng.Intn(g.nterms-1)
			}
		}
		if len(s) > 40 {
			s = s[:40]
		}
		ret = append(ret, s)
	}
	return ret
}
