package main

import (
	"fmt"
	"math/rand"
	"strings"

	"github.com/inspirer/textmapper/lex"
	"verif/harness/sx"
)

func init() {
	commands["c09.random"] = c09Random
}

// c09PatGen: small alphabet so that random texts hit the rules; rune mode adds multi-byte letters and classes.
func c09PatGen(rng *rand.Rand, bytes bool) *patGen {
	g := bytePatGen(rng, bytes && rng.Intn(2) == 0)
	if !bytes {
		g.alphabet = append(g.alphabet, "é", "ж", `\x{1F600}`, `é`, "K")
		g.classes = append(g.classes, "[а-я]", `\p{Lu}`, `[^\x00-\x7f]`, `[é-ж]`, `\pL`, `[\p{Ll}-[a-c]]`, `\S`, `[\x{fffd}a]`)
	}
	g.classes = append(g.classes, `[^b\n]`, `(?i:ab)`, `[a-c-[b]]`)
	return g
}

type c09Rule struct {
	genRule
	dump string
}

func c09Random(rng *rand.Rand, n int, _ []string) {

	stats := map[string]int{}
	asciiAlpha := []byte("abc01x \n.-")
	for i := 0; i < n; i++ {
		bytesMode := rng.Intn(3) == 0
		fold := rng.Intn(5) == 0
		g := c09PatGen(rng, bytesMode)
		nrules := 1 + rng.Intn(4)
		nsc := 1 + rng.Intn(2)
		var rules []c09Rule
		var grs []genRule
		ok := true
		for j := 0; j < nrules; j++ {
			p := g.gen(rng.Intn(3))
			switch rng.Intn(10) {
			case 0:
				p += "{eoi}"
				stats["rule_eoi_suffix"]++
			case 1:
				p = p + "(" + g.atom() + "|{eoi})"
				stats["rule_eoi_alt"]++
			case 2:
				if rng.Intn(3) == 0 {
					p = "{eoi}"
					stats["rule_eoi_only"]++
				}
			}
			var scs []int
			for s := 0; s < nsc; s++ {
				if rng.Intn(3) > 0 {
					scs = append(scs, s)
				}
			}
			if len(scs) == 0 {
				scs = []int{rng.Intn(nsc)}
			}
			r := genRule{pattern: p, action: 2 + j, prec: rng.Intn(2), scs: scs}
			if rng.Intn(6) == 0 && j > 0 {
				r.action = grs[rng.Intn(j)].action // several rules, one action
			}
			re, err := lex.ParseRegexp(p, lex.CharsetOptions{ScanBytes: bytesMode, Fold: fold})
			if err != nil {
				ok = false
				stats["skip_parse_error"]++
				break
			}
			grs = append(grs, r)
			rules = append(rules, c09Rule{r, lex.VerifDump(re)})
		}
		if !ok {
			continue
		}
		// every start condition needs a rule
		t, err := compileRules(grs, bytesMode, fold, true)
		if err != nil || t == nil {
			msg := "nil"
			if err != nil {
				msg = err.Error()
			}
			switch {
			case strings.Contains(msg, "accepts empty text"):
				stats["skip_accepts_empty"]++
			case strings.Contains(msg, "identical"):
				stats["skip_identical_rules"]++
			default:
				stats["skip_other_compile_error"]++
			}
			continue
		}
		stats["compiled"]++
		if len(t.Backtrack) > 0 {
			stats["with_backtracking"]++
		}
		if bytesMode {
			stats["bytes_mode"]++
		}
		if fold {
			stats["fold"]++
		}
		in := tablesStr(t)
		sx.Case("c09.wf", in, "1")
		var rs []string
		for _, r := range rules {
			rs = append(rs, sx.List(r.dump, sx.Int(r.action), sx.Int(r.prec), sx.Ints(r.scs)))
		}
		for sc := 0; sc < len(t.StateMap); sc++ {
			var texts, outs []string
			for k := 0; k < 10; k++ {
				var txt []byte
				ln := rng.Intn(7)
				for len(txt) < ln {
					switch r := rng.Intn(14); {
					case r == 0 && !bytesMode:
						txt = append(txt, []string{"é", "ж", "😀", "K", "я", "�", "É"}[rng.Intn(7)]...)
					case r == 1:
						txt = append(txt, byte(rng.Intn(256)))
					case r == 2:
						txt = append(txt, []byte{0x80, 0xff, 0xc3, 0xe2, 0x82, 0xbf, 0x90}[rng.Intn(7)])
					default:
						txt = append(txt, asciiAlpha[rng.Intn(len(asciiAlpha))])
					}
				}
				size, act := t.Scan(sc, string(txt))
				if act > 0 && size > 0 {
					stats["text_matched"]++
				} else {
					stats["text_invalid"]++
				}
				texts = append(texts, sx.Bytes(txt))
				outs = append(outs, fmt.Sprintf("(%d %d)", size, act))
			}
			sx.Case("c09.scan", sx.List(in, sx.List(rs...), sx.Int(sc), sx.List(texts...)), sx.List(outs...))
			// Tier 2: per (rule set, start condition) the proved-sound bisimulation certificate between these tables and
			// the derivative vectors of the active rules (all texts, not the sampled ones)
			if stats["compiled"]%c09BisimEvery == 0 {
				stats["bisim_cases"]++
				sx.Case("c09.bisim", sx.List(in, sx.List(rs...), sx.Int(sc)), "proved")
			}
		}
	}
	for k, v := range stats {
		sx.Stat(k, v)
	}
}

// every c09BisimEvery-th compiled rule set gets the (more expensive) bisimulation certificate
const c09BisimEvery = 1

// c09.show prints the tables of the rule set given as arguments (pattern = action i+2), for examples in Props/C09.v.
func init() {
	commands["c09.show"] = func(rng *rand.Rand, n int, args []string) {
		var grs []genRule
		for i, p := range args {
			grs = append(grs, genRule{pattern: p, action: 2 + i})
		}
		t, err := compileRules(grs, false, false, true)
		if err != nil {
			fmt.Println("error:", err)
			return
		}
		fmt.Println(tablesStr(t))
	}
}
