package main

import (
	"context"
	"fmt"
	"os"
	"path/filepath"
	"math/rand"
	"sort"
	"strings"
	"time"

	"github.com/inspirer/textmapper/compiler"
	"github.com/inspirer/textmapper/gen"
	"github.com/inspirer/textmapper/grammar"
	"github.com/inspirer/textmapper/lex"
	jsonlex "github.com/inspirer/textmapper/parsers/json"
	jslex "github.com/inspirer/textmapper/parsers/js"
	simplelex "github.com/inspirer/textmapper/parsers/simple"
	testlex "github.com/inspirer/textmapper/parsers/test"
	tmlex "github.com/inspirer/textmapper/parsers/tm"
	"verif/harness/sx"
)

func init() {
	commands["c11.gen"] = func(rng *rand.Rand, n int, a []string) { lexerGen(rng, n, "c11.lexer") }
	commands["c12.gen"] = func(rng *rand.Rand, n int, a []string) { lexerGen(rng, n, "c12.lexer") }
	commands["c12.shipped"] = c12Shipped
}

// one lexer rule of a generated grammar
type lxRule struct {
	name    string // terminal name
	pattern string
	attr    string // "(space)", "(class)", ""
	code    string
	prec    int   // spec precedence (keywords of a class rule sit above it)
	scs     []string
	prio    string // textmapper priority suffix, e.g. " -1"
}

type lxGrammar struct {
	name                              string
	rules                             []lxRule
	scNames                           []string
	tokenLine, tokenColumn, scanBytes bool
	fold, nonBacktracking             bool
	extraToken                        bool // a token without a rule in front of the others: action numbers and token numbers differ
}

func (g *lxGrammar) tm() string {
	var sb strings.Builder
	fmt.Fprintf(&sb, "language %s(go);\n\nlang = %q\npackage = \"verifgen/%s\"\neventBased = true\n", g.name, g.name, g.name)
	fmt.Fprintf(&sb, "tokenLine = %v\ntokenColumn = %v\nscanBytes = %v\ncaseInsensitive = %v\nnonBacktracking = %v\n",
		g.tokenLine, g.tokenColumn, g.scanBytes, g.fold, g.nonBacktracking)
	sb.WriteString("\n:: lexer\n\n")
	if len(g.scNames) > 1 {
		fmt.Fprintf(&sb, "%%s %s;\n\n", strings.Join(g.scNames, ", "))
	}
	sb.WriteString("invalid_token:\n")
	if g.extraToken {
		sb.WriteString("error:\n")
	}
	for _, r := range g.rules {
		if len(g.scNames) > 1 {
			fmt.Fprintf(&sb, "<%s>\n", strings.Join(r.scs, ", "))
		}
		fmt.Fprintf(&sb, "%s: /%s/%s", r.name, r.pattern, r.prio)
		if r.attr != "" {
			sb.WriteString(" " + r.attr)
		}
		if r.code != "" {
			sb.WriteString(" " + r.code)
		}
		sb.WriteString("\n")
	}
	sb.WriteString("\n:: parser\n\ninput : ;\n")
	return sb.String()
}

func lxDriver(g *lxGrammar) func(p *genPkg) string {
	return func(p *genPkg) string {
		var sb strings.Builder
		fmt.Fprintf(&sb, "package %s\n\nimport (\n\t\"fmt\"\n\t\"strings\"\n)\n\nfunc VerifRun(mode string, input []byte) string {\n", p.name)
		sb.WriteString("\tvar l Lexer\n\tl.Init(string(input))\n")
		if len(g.scNames) > 1 {
			sb.WriteString("\tfmt.Sscanf(mode, \"%d\", &l.State)\n")
		}
		line, col := "0", "0"
		if g.tokenLine {
			line = "l.Line()"
		}
		if g.tokenColumn {
			col = "l.Column()"
		}
		sb.WriteString("\tvar sb strings.Builder\n\tsb.WriteString(\"(\")\n\teois := 0\n\tfor i := 0; i < 303; i++ {\n\t\ttok := l.Next()\n\t\ts, e := l.Pos()\n")
		fmt.Fprintf(&sb, "\t\tif i > 0 {\n\t\t\tsb.WriteString(\" \")\n\t\t}\n\t\tfmt.Fprintf(&sb, \"(%%d %%d %%d %%d %%d)\", int(tok), s, e, %s, %s)\n", line, col)
		sb.WriteString("\t\tif tok == 0 {\n\t\t\teois++\n\t\t\tif eois == 3 {\n\t\t\t\tbreak\n\t\t\t}\n\t\t} else if eois > 0 {\n\t\t\tbreak\n\t\t} else if i >= 299 {\n\t\t\tsb.WriteString(\" (-2)\")\n\t\t\tbreak\n\t\t}\n\t}\n\tsb.WriteString(\")\")\n\treturn sb.String()\n}\n")
		return sb.String()
	}
}

func lxGenGrammar(rng *rand.Rand, idx int) *lxGrammar {
	g := &lxGrammar{name: fmt.Sprintf("g%d", idx), scNames: []string{"initial"}}
	g.tokenLine = rng.Intn(4) > 0
	g.tokenColumn = g.tokenLine && rng.Intn(2) == 0
	g.scanBytes = rng.Intn(3) == 0
	g.fold = rng.Intn(4) == 0
	g.nonBacktracking = rng.Intn(6) == 0
	// every eighth grammar: one rule per token and no rule code, with backtracking (the compiler then stores token
	// numbers instead of rule numbers in the tables, checkpoints included)
	plain := idx%8 == 7
	if plain {
		g.nonBacktracking = false
	}
	g.extraToken = plain || rng.Intn(3) == 0
	if rng.Intn(3) == 0 {
		g.scNames = append(g.scNames, "other")
	}
	scs := func() []string {
		if len(g.scNames) == 1 || rng.Intn(2) == 0 {
			return g.scNames
		}
		return []string{g.scNames[rng.Intn(len(g.scNames))]}
	}
	add := func(r lxRule) {
		if r.scs == nil {
			r.scs = scs()
		}
		g.rules = append(g.rules, r)
	}
	if rng.Intn(4) == 0 {
		// no rule matches a newline: it is an invalid token, and the line count has to follow all the same
		add(lxRule{name: "space", pattern: `[ \t]+`, attr: "(space)", scs: g.scNames})
	} else {
		add(lxRule{name: "space", pattern: `[ \t\n]+`, attr: "(space)", scs: g.scNames})
	}
	idPat := `[a-z][a-z0-9]*`
	kws := []string{"if", "in", "int", "a", "ab0"}
	if rng.Intn(2) == 0 {
		idPat = `[a-zé-ж][a-zé-ж0-9]*`
		kws = append(kws, "é", "жa", "aж")
		if g.scanBytes {
			idPat = `[a-z\xc3\xa9][a-z0-9\xc3\xa9]*`
			kws = []string{"if", "é", "aé", "in"}
		}
	}
	useClass := rng.Intn(4) > 0 && !plain
	if useClass {
		add(lxRule{name: "id", pattern: idPat, attr: "(class)", scs: g.scNames})
		rng.Shuffle(len(kws), func(i, j int) { kws[i], kws[j] = kws[j], kws[i] })
		for i, k := range kws[:1+rng.Intn(len(kws))] {
			add(lxRule{name: fmt.Sprintf("kw%d", i), pattern: k, prec: 1, scs: g.scNames})
		}
	} else if rng.Intn(2) == 0 {
		add(lxRule{name: "id", pattern: idPat})
	}
	if rng.Intn(2) == 0 || plain {
		code := ""
		if rng.Intn(2) == 0 && !plain {
			code = "{ $$ = 1 }" // forces the rule -> token table
		}
		add(lxRule{name: "num", pattern: `[0-9]+`, code: code})
		if (rng.Intn(2) == 0 || plain) && !g.nonBacktracking {
			add(lxRule{name: "float", pattern: `[0-9]+\.[0-9]+(e[0-9]+)?`})
		}
	}
	if rng.Intn(2) == 0 {
		add(lxRule{name: "plus", pattern: `\+`})
		if rng.Intn(2) == 0 {
			add(lxRule{name: "plusplus", pattern: `\+\+`})
		}
		if rng.Intn(3) == 0 && !g.nonBacktracking {
			add(lxRule{name: "pluseqeq", pattern: `\+==`})
		}
	}
	if rng.Intn(3) == 0 && !g.nonBacktracking {
		// two tokens that are both proper prefixes of a longer one and meet in the same non-accepting state
		add(lxRule{name: "tilde", pattern: `~`, scs: g.scNames})
		add(lxRule{name: "caret", pattern: `\^`, scs: g.scNames})
		add(lxRule{name: "arrow", pattern: `[~\^]=>`, scs: g.scNames})
	}
	if rng.Intn(3) == 0 && !g.nonBacktracking {
		// a skipped token that runs through an accepting state: the checkpoint taken inside it must not survive it
		add(lxRule{name: "div", pattern: `\/`, scs: g.scNames})
		add(lxRule{name: "blockcomment", pattern: `\/\*([^*]|\*+[^*\/])*\*+\/`, attr: "(space)", scs: g.scNames})
	}
	if rng.Intn(3) == 0 && !g.nonBacktracking {
		add(lxRule{name: "str", pattern: `"[^"\n]*"`})
	}
	if rng.Intn(3) == 0 {
		add(lxRule{name: "comment", pattern: `\/\/[^\n]*`, attr: "(space)"})
	}
	if rng.Intn(3) == 0 && !g.scanBytes {
		add(lxRule{name: "uni", pattern: `[\p{Lu}\x{1F600}]+`})
	}
	if rng.Intn(5) == 0 && !g.scanBytes {
		// the highest code point any rule mentions is U+07FF: the symbol map's last segment starts exactly at 2048
		add(lxRule{name: "b2", pattern: `[\x{700}-\x{7ff}]+`})
	}
	if rng.Intn(3) == 0 && !g.scanBytes {
		add(lxRule{name: "han", pattern: `[\x{4e00}-\x{9fff}\x{ac00}-\x{d7a3}]+`})
	}
	if rng.Intn(4) == 0 {
		pg := bytePatGen(rng, false)
		pg.alphabet = []string{"x", "y", "-", `\.`, "0"}
		pg.classes = []string{"[x-z]", `[^a-z0-9 \t\n+"\/]`, "[xy0]"}
		add(lxRule{name: "rnd", pattern: pg.atom() + pg.gen(2), prio: " -1", prec: -1})
	}
	if rng.Intn(12) == 0 {
		// a rule that may continue after the end of input (legal: parsers/test uses (\n|{eoi}) inside a repetition)
		add(lxRule{name: "lasteoi", pattern: `x(\n|{eoi})`})
	}
	if rng.Intn(12) == 0 {
		add(lxRule{name: "eoiloop", pattern: `x{eoi}+`}) // F7: an end-of-input cycle
	}
	return g
}

func lxText(rng *rand.Rand, g *lxGrammar) []byte {
	words := []string{"if", "in", "int", "a", "ab0", "x", "é", "жa", "aж", "abc", "12", "1.5", "1.", "1.5e", "1.5e3", "+", "++", "+=", "+==", "\"s\"", "\"s", "//c", " ", "\n", "\t", "\n\n",
		"É", "IF", "😀", "Ж", "_", "x\n", "xx", "-", ".", "y0",
		"ключ", "αβ", "\u07ff", "\u0700\u07ff", "\u0800", "\u06ff", "ж\u0700", "漢", "字", "\u4dff", "\ua000", "漢\ua000", "\u9fff", "\uabff", "\ud7a4", "한", "\U0001F5FF", "\U0001F601", "з", "è", "×",
		"~", "^", "~=", "^=", "~=>", "^=>", "^=1", "/", "/*c*/", "/* c\n*/", "/*", "/**/", "/* a */ ", "#"}
	var b []byte
	n := rng.Intn(9)
	for i := 0; i < n; i++ {
		switch r := rng.Intn(12); {
		case r == 0:
			b = append(b, byte(rng.Intn(256)))
		case r == 1:
			b = append(b, []byte{0x80, 0xff, 0xc3, 0xef, 0xbb, 0xbf, 0}[rng.Intn(7)])
		default:
			b = append(b, words[rng.Intn(len(words))]...)
		}
	}
	if rng.Intn(15) == 0 {
		b = append([]byte("\xef\xbb\xbf"), b...)
	}
	return b
}

func lexerGen(rng *rand.Rand, n int, kind string) {
	stats := map[string]int{}
	var pkgs []*genPkg
	var grammars []*lxGrammar
	for i := 0; i < n; i++ {
		g := lxGenGrammar(rng, i)
		pkgs = append(pkgs, &genPkg{name: g.name, tm: g.tm(), driver: lxDriver(g)})
		grammars = append(grammars, g)
	}
	compileAll(pkgs)
	type job struct {
		pkg, sc int
		text    []byte
		first   int
	}
	var reqs []genRequest
	var jobs []job
	for i, p := range pkgs {
		g := grammars[i]
		if p.err != nil {
			msg := p.err.Error()
			switch {
			case strings.Contains(msg, "backtracking"):
				stats["skip_needs_backtracking"]++
			case strings.Contains(msg, "end-of-input"):
				stats["skip_eoi_cycle_rejected"]++
			case strings.Contains(msg, "identical"):
				stats["skip_identical"]++
			case strings.Contains(msg, "without specializations"):
				stats["skip_class_without_keywords"]++
			case strings.Contains(msg, "accepts empty text"):
				stats["skip_accepts_empty"]++
			default:
				stats["skip_other"]++
				if stats["skip_other"] <= 3 {
					fmt.Fprintln(os_stderr(), "c11: grammar does not compile:", firstLines(msg, 3), "\n", g.tm())
				}
			}
			continue
		}
		stats["compiled"]++
		for sc := range g.scNames {
			for k := 0; k < 12; k++ {
				jobs = append(jobs, job{i, sc, lxText(rng, g), len(reqs)})
				reqs = append(reqs, genRequest{pkg: p.name, mode: fmt.Sprint(sc), input: jobs[len(jobs)-1].text})
			}
		}
	}
	answers, err := buildAndRun(pkgs, reqs)
	if err != nil {
		fmt.Fprintln(os_stderr(), "c11:", err)
		exitCode(3)
	}
	cfgs := map[int]string{}
	for _, j := range jobs {
		p := pkgs[j.pkg]
		g := grammars[j.pkg]
		if p.err != nil {
			sx.Case(kind, sx.List(sx.Str(g.name), sx.Str(firstLines(p.err.Error(), 2))), "nobuild")
			continue
		}
		if _, ok := cfgs[j.pkg]; !ok {
			cfgs[j.pkg] = lxConfig(p, g, stats)
			if kind == "c11.lexer" {
				// the rune class tables this lexer was generated with
				sx.Case("c11.maps", symbolMapStr(p.g.Lexer.Tables), runeTablesStr(p.g.Lexer.Tables))
			}
			if kind == "c12.lexer" {
				// hypothesis of the C12 theorems, evaluated on the real tables of this generated lexer
				sx.Case("c12.wf", sx.List(sx.Str(g.name), lxLexerStr(p.g, g.tokenLine, g.tokenColumn, stats), "0"), "(1 1)")
			}
		}
		sx.Case(kind, sx.List(cfgs[j.pkg], sx.Int(j.sc), sx.Bytes(j.text)), answers[j.first])
	}
	for k, v := range stats {
		sx.Stat(k, v)
	}
}

// lxConfig: (lexer rules); lexer = (tables (ruleToken) (space) invalid (kw...) tokenLine tokenColumn);
// rules = ((dump token prec (scs) space) ...) for the regex-level specification
func lxConfig(p *genPkg, g *lxGrammar, stats map[string]int) string {
	return lxConfigRules(p, g, lxLexerStr(p.g, g.tokenLine, g.tokenColumn, stats))
}

// lxLexerStr: (tables (ruleToken) (space) invalid (kw...) tokenLine tokenColumn) of a compiled grammar
func lxLexerStr(gr *grammar.Grammar, tokenLine, tokenColumn bool, stats map[string]int) string {
	lx := gr.Lexer
	var kws []string
	for _, ca := range lx.ClassActions {
		mask, cases := gen.VerifStringSwitch(ca.Custom)
		var cs []string
		for _, c := range cases {
			cs = append(cs, sx.List(fmt.Sprint(c.Bucket), fmt.Sprint(c.Hash), sx.Str(c.Str), sx.Int(c.Action)))
		}
		kws = append(kws, sx.List(sx.Int(ca.Action), fmt.Sprint(mask), sx.List(cs...)))
		stats["class_actions"]++
	}
	if len(lx.RuleToken) > 0 {
		stats["rule_token_mode"]++
	}
	if len(lx.Tables.Backtrack) > 0 {
		stats["with_backtracking"]++
	}
	if lx.Tables.LastMapEntry().Start > 2048 {
		stats["compressed_rune_map"]++
	}
	space := gr.SpaceActions()
	sort.Ints(space)
	return sx.List(tablesStr(lx.Tables), sx.Ints(lx.RuleToken), sx.Ints(space), sx.Int(lx.InvalidToken), sx.List(kws...),
		sx.Bool(tokenLine), sx.Bool(tokenColumn))
}

func lxConfigRules(p *genPkg, g *lxGrammar, lexer string) string {
	symIndex := map[string]int{}
	for i, s := range p.g.Syms {
		symIndex[s.Name] = i
	}
	var rules []string
	for _, r := range g.rules {
		re, err := lex.ParseRegexp(r.pattern, lex.CharsetOptions{ScanBytes: g.scanBytes, Fold: g.fold})
		if err != nil {
			continue
		}
		var scs []int
		for _, s := range r.scs {
			for i, n := range g.scNames {
				if n == s {
					scs = append(scs, i)
				}
			}
		}
		rules = append(rules, sx.List(lex.VerifDump(re), sx.Int(symIndex[r.name]), sx.Int(r.prec), sx.Ints(scs), sx.Bool(r.attr == "(space)")))
	}
	return sx.List(lexer, sx.List(rules...))
}

// ---------------------------------------------------------------- shipped lexers (C12)

type shippedLexer struct {
	name string
	run  func(src string, emit func(tok, s, e, line, col int) bool)
}

var shipped = []shippedLexer{
	{"json", func(src string, emit func(int, int, int, int, int) bool) {
		var l jsonlex.Lexer
		l.Init(src)
		for {
			t := l.Next()
			s, e := l.Pos()
			if !emit(int(t), s, e, l.Line(), 0) {
				return
			}
		}
	}},
	{"simple", func(src string, emit func(int, int, int, int, int) bool) {
		var l simplelex.Lexer
		l.Init(src)
		for {
			t := l.Next()
			s, e := l.Pos()
			if !emit(int(t), s, e, l.Line(), 0) {
				return
			}
		}
	}},
	{"test", func(src string, emit func(int, int, int, int, int) bool) {
		var l testlex.Lexer
		l.Init(src)
		for {
			t := l.Next()
			s, e := l.Pos()
			if !emit(int(t), s, e, 0, 0) {
				return
			}
		}
	}},
	{"tm", func(src string, emit func(int, int, int, int, int) bool) {
		var l tmlex.Lexer
		l.Init(src)
		for {
			t := l.Next()
			s, e := l.Pos()
			if !emit(int(t), s, e, l.Line(), l.Column()) {
				return
			}
		}
	}},
	{"js", func(src string, emit func(int, int, int, int, int) bool) {
		var l jslex.Lexer
		l.Init(src)
		for {
			t := l.Next()
			s, e := l.Pos()
			if !emit(int(t), s, e, l.Line(), 0) {
				return
			}
		}
	}},
}

var shippedWords = map[string][]string{
	"json":   {"{", "}", "[", "]", ",", ":", "\"a\"", "\"\\u00e9\"", "\"x", "12", "-1.5e3", "1e", "true", "null", "fals", " ", "\n", "\t", "//c\n", "/*c*/", "/*", "\\", "é"},
	"simple": {"a", "b", "simple", " ", "\n", "x", "é", "0"},
	"test":   {"test", "decl1", "eval", "as", "if", "else", "{", "}", "(", ")", "...", ".", "->", "-", "abc", "a-b", "12", "12\n", "//c\n", "//c", " ", "\n", "\x00", "Z", "%q", "% q\n%q", "'a'", "\\", "é", "_", "<", "/*c*/", "/*", "#"},
	"tm":     {"language", "a", "::", "lexer", "parser", ":", ";", "/a+/", "/[", "'x'", "'", "\"s\"", "\"s", "{", "}", "{ $$ = 1 }", "{{", "%%", "%input", "#c\n", "# c", "//c\n", "/*c*/", "/*", " ", "\n", "\r\n", "(", ")", "->", "=", "12", "$", "é", "<", ">", "*", "{~a}", "'\\''", "\\", "\"{\"", "'{'", "{ '}' }", "{ \"}\" }", "{ // }\n}", "{ /* } */ }", "{ a\nb }", "{\n}", "{ \"\\\n\" }", "{ '\\\n' }\n", "{ /* \n */ }", "{ // \n\n }"},
	"js":     {"var", "a", "=", "1", ";", "/re/g", "/", "/*c*/", "/*", "//c\n", "\"s\"", "'s", "`t${a}`", "`t", "${", "}", "{", "(", ")", "<div>", "</", ">", "=>", "0x1f", "1n", "1.e3", ".5", "\\u0041", "#p", "@", "é", "\u2028", " ", "\n", "\r\n", "<!--", "-->", "?.", "**=", ">>>=", "#!/bin\n"},
}

// c12ShippedWf compiles the shipped grammars with the current tree and submits their lexer tables to wf_lexer_tables.
func c12ShippedWf(stats map[string]int) {
	repo := os.Getenv("VERIF_REPO")
	if repo == "" {
		repo = "/repo"
	}
	for _, name := range []string{"json/json.tm", "simple/simple.tm", "test/test.tm", "tm/textmapper.tm", "js/js.tm"} {
		path := filepath.Join(repo, "parsers", name)
		content, err := os.ReadFile(path)
		if err != nil {
			sx.Case("c12.wf", sx.List(sx.Str(name), "()", "0"), "unreadable")
			continue
		}
		g, err := compiler.Compile(context.Background(), path, string(content), compiler.Params{CheckOnly: true})
		if err != nil || g == nil || g.Lexer == nil {
			sx.Case("c12.wf", sx.List(sx.Str(name), "()", "0"), "nocompile")
			continue
		}
		stats["shipped_tables"]++
		acts := false
		for _, a := range g.Lexer.Actions {
			if strings.TrimSpace(a.Code) != "" {
				acts = true
			}
		}
		sx.Case("c12.wf", sx.List(sx.Str(name), lxLexerStr(g, g.Options.TokenLine, g.Options.TokenColumn, stats), sx.Bool(acts)), "(1 1)")
	}
}

func c12Shipped(rng *rand.Rand, n int, _ []string) {
	stats := map[string]int{}
	c12ShippedWf(stats)
	for i := 0; i < n; i++ {
		sl := shipped[rng.Intn(len(shipped))]
		words := shippedWords[sl.name]
		var b []byte
		k := rng.Intn(10)
		for j := 0; j < k; j++ {
			switch r := rng.Intn(14); {
			case r == 0:
				b = append(b, byte(rng.Intn(256)))
			case r == 1:
				b = append(b, []byte{0x80, 0xff, 0xc3, 0xe2, 0}[rng.Intn(5)])
			default:
				b = append(b, words[rng.Intn(len(words))]...)
			}
		}
		if rng.Intn(12) == 0 {
			b = append([]byte("\xef\xbb\xbf"), b...)
		}
		src := string(b)
		done := make(chan string, 1)
		go func() {
			defer func() {
				if r := recover(); r != nil {
					done <- "panic"
				}
			}()
			var sb strings.Builder
			sb.WriteString("(")
			count, eois := 0, 0
			sl.run(src, func(tok, s, e, line, col int) bool {
				if count > 0 {
					sb.WriteString(" ")
				}
				fmt.Fprintf(&sb, "(%d %d %d %d %d)", tok, s, e, line, col)
				count++
				if tok == 0 {
					eois++
					return eois < 3
				}
				if eois > 0 {
					return false
				}
				if count >= 400 {
					sb.WriteString(" (-2)")
					return false
				}
				return true
			})
			sb.WriteString(")")
			done <- sb.String()
		}()
		var out string
		select {
		case out = <-done:
		case <-time.After(3 * time.Second):
			out = "timeout"
		}
		stats["lexer_"+sl.name]++
		hasLine := 1
		if sl.name == "test" {
			hasLine = 0
		} else if sl.name == "tm" {
			hasLine = 2 // line and column
		}
		sx.Case("c12.shipped", sx.List(sx.Str(sl.name), sx.Int(hasLine), sx.Bytes(b)), out)
	}
	for k, v := range stats {
		sx.Stat(k, v)
	}
}

// ---------------------------------------------------------------- rune class tables (C11 rune_class_lookup)

func init() {
	commands["c11.maps"] = c11Maps
}

// runeTablesStr renders what go_lexer_tables.go.tmpl emits for the symbol map of t:
// ((tmRuneClass...) ((lo hi default (vals...))...) useMap lastTarget)
func runeTablesStr(t *lex.Tables) string {
	last := t.LastMapEntry()
	if last.Start > 2048 {
		var es []string
		for _, e := range t.CompressedMap(256) {
			es = append(es, sx.List(sx.Int(int(e.Lo)), sx.Int(int(e.Hi)), sx.Int(e.DefaultVal), sx.Ints(e.Vals)))
		}
		return sx.List(sx.Ints(t.SymbolArr(256)), sx.List(es...), "1", sx.Int(int(last.Target)))
	}
	return sx.List(sx.Ints(t.SymbolArr(0)), "()", "0", sx.Int(int(last.Target)))
}

func symbolMapStr(t *lex.Tables) string {
	sm := make([]string, len(t.SymbolMap))
	for i, e := range t.SymbolMap {
		sm[i] = sx.List(sx.Int(int(e.Start)), sx.Int(int(e.Target)))
	}
	return sx.List(sm...)
}

func c11Maps(rng *rand.Rand, n int, _ []string) {
	stats := map[string]int{}
	for i := 0; i < n; i++ {
		t := &lex.Tables{}
		nsym := 2 + rng.Intn(12)
		pos := 0
		// segment lengths: many short ones (exercise the strike / count > 8 rules), some long
		maxPos := []int{60, 300, 3000, 70000, 0x10ffff}[rng.Intn(5)]
		segs := 1 + rng.Intn(40)
		for s := 0; s < segs && pos <= maxPos; s++ {
			tg := 1 + rng.Intn(nsym)
			if rng.Intn(3) == 0 {
				tg = 1 // the usual default class
			}
			if k := len(t.SymbolMap); k > 0 && int(t.SymbolMap[k-1].Target) == tg {
				tg = tg%nsym + 1
			}
			t.SymbolMap = append(t.SymbolMap, lex.RangeEntry{Start: rune(pos), Target: lex.Sym(tg)})
			switch rng.Intn(6) {
			case 0:
				pos += 1
			case 1:
				pos += 1 + rng.Intn(4)
			case 2:
				pos += 5 + rng.Intn(8)
			case 3:
				pos += 1 + rng.Intn(40)
			case 4:
				pos += 1 + rng.Intn(maxPos/8+1)
			default:
				pos += 1 + rng.Intn(300)
			}
		}
		t.NumSymbols = nsym + 1
		if t.LastMapEntry().Start > 2048 {
			stats["compressed"]++
		} else {
			stats["plain_array"]++
		}
		sx.Case("c11.maps", symbolMapStr(t), runeTablesStr(t))
	}
	for k, v := range stats {
		sx.Stat(k, v)
	}
}
