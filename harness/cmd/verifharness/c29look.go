package main

// C29, part 2: cancellable generated parsers WITH runtime lookaheads (?= ...), whose lookahead() sub-parses share the
// session's shift counter with the main loop, and the shipped js parser (hand-written loop parsers/js/parser_impl.go).

import (
	"context"
	"fmt"
	jstoken "github.com/inspirer/textmapper/parsers/js/token"
	"math/rand"
	"runtime"
	"strings"

	"github.com/inspirer/textmapper/parsers/js"
	"verif/harness/sx"
)

func init() {
	commands["c29.look"] = c29Look
	commands["c29.js"] = c29JS
}

// lookDriver: VerifRun("all:<seed>:<k>", input) runs the parser uncancelled, then with the context cancelled right
// before poll number j for EVERY j = 1..(number of polls of the uncancelled run)+1, then k times with the context
// cancelled by the listener during a pseudo-random event. Every poll of ctx.Done() is logged with its outcome and with
// the nesting depth of lookahead() frames on the call stack (0 = main loop).
const lookDriverSrc = `package %s

import (
	"context"
	"fmt"
	"runtime"
	"strings"
)

type verifCtx struct {
	context.Context
	cancel       func()
	calls        int
	cancelAtCall int
	log          []string
	depths       []int
}

func (c *verifCtx) Done() <-chan struct{} {
	c.calls++
	if c.cancelAtCall > 0 && c.calls >= c.cancelAtCall {
		c.cancel()
	}
	var pcs [64]uintptr
	n := runtime.Callers(2, pcs[:])
	frames := runtime.CallersFrames(pcs[:n])
	depth := 0
	for {
		fr, more := frames.Next()
		if strings.HasSuffix(fr.Function, ".lookahead") {
			depth++
		}
		if !more {
			break
		}
	}
	c.depths = append(c.depths, depth)
	ch := c.Context.Done()
	select {
	case <-ch:
		c.log = append(c.log, "1")
	default:
		c.log = append(c.log, "0")
	}
	return ch
}

func verifOne(input []byte, atCall, afterEvents int) (string, int, int) {
	inner, cancel := context.WithCancel(context.Background())
	defer cancel()
	ctx := &verifCtx{Context: inner, cancel: cancel, cancelAtCall: atCall}
	var l Lexer
	l.Init(string(input))
	var p Parser
	var ev strings.Builder
	nev := 0
	p.Init(func(t NodeType, offset, endoffset int) {
		fmt.Fprintf(&ev, " (%%d %%d %%d)", int(t), offset, endoffset)
		nev++
		if afterEvents > 0 && nev == afterEvents {
			cancel()
		}
	})
	err := p.Parse(ctx, &l)
	res := "accept"
	if err == context.Canceled {
		res = "ctxerr"
	} else if se, ok := err.(SyntaxError); ok {
		res = fmt.Sprintf("syntax %%d %%d", se.Offset, se.Endoffset)
	} else if err != nil {
		res = "other"
	}
	polls, depths := "", ""
	for i, b := range ctx.log {
		polls += " " + b
		depths += fmt.Sprintf(" %%d", ctx.depths[i])
	}
	return fmt.Sprintf("(%%s (polls%%s) (depths%%s) (events%%s) (cancel %%d %%d))", res, polls, depths, ev.String(), atCall, afterEvents), len(ctx.log), nev
}

func VerifRun(mode string, input []byte) string {
	var seed, k int
	fmt.Sscanf(mode, "all:%%d:%%d", &seed, &k)
	var sb strings.Builder
	base, npolls, nev := verifOne(input, 0, 0)
	sb.WriteString("(" + base)
	for j := 1; j <= npolls+1; j++ {
		r, _, _ := verifOne(input, j, 0)
		sb.WriteString(" " + r)
	}
	x := uint32(seed)*2654435761 + 12345
	for i := 0; i < k && nev > 0; i++ {
		x = x*1664525 + 1013904223
		r, _, _ := verifOne(input, 0, 1+int(x>>8)%%nev)
		sb.WriteString(" " + r)
	}
	sb.WriteString(")")
	return sb.String()
}
`

// lookGrammar describes one generated grammar with runtime lookaheads.
type lookGrammar struct {
	nalt       int    // alternatives of the guarded statement (2..4): chain L1, !L1&L2, ...
	nest       int    // 0: plain lookahead nonterminals, 1: they contain a nested (?= ...), 2: two levels of nesting
	recursive  bool   // option recursiveLookaheads
	optimize   bool   // optimizeTables
	body       int    // 0: 'x'+   1: ('x' separator ',')+   2: ('x'|'y')+
	pos        []bool // polarity of the literal of L_i in its own alternative
	altTerm    []byte // terminator of alternative j
	lT, lU, lV []byte // terminators used by L_i (see tm())
	valid      []byte // terminators for which the statement parses
}

var lookTerms = []byte{';', '!', '?', '#'}

func newLookGrammar(rng *rand.Rand, idx int) *lookGrammar {
	for {
		g := &lookGrammar{nalt: 2 + idx%3, nest: (idx / 3) % 3, optimize: rng.Intn(2) == 0, body: rng.Intn(3)}
		g.recursive = g.nest > 0 && !((idx/9)%2 == 1 && g.nalt == 2) // some nested grammars are generated WITHOUT recursiveLookaheads
		if g.nest == 0 {
			g.recursive = rng.Intn(3) == 0
		}
		perm := rng.Perm(4)
		for j := 0; j < g.nalt; j++ {
			g.altTerm = append(g.altTerm, lookTerms[perm[j]])
		}
		for i := 0; i < g.nalt-1; i++ {
			pos := rng.Intn(3) != 0
			g.pos = append(g.pos, pos)
			t := g.altTerm[i]
			if !pos {
				t = g.altTerm[i+1+rng.Intn(g.nalt-1-i)]
			}
			g.lT = append(g.lT, t)
			g.lU = append(g.lU, lookTerms[rng.Intn(4)])
			g.lV = append(g.lV, lookTerms[rng.Intn(4)])
		}
		for _, t := range lookTerms {
			if g.altTerm[g.selected(t)] == t {
				g.valid = append(g.valid, t)
			}
		}
		if len(g.valid) > 0 {
			return g
		}
	}
}

// evalL: does lookahead nonterminal L_i accept a statement tail "( body ) term"? (semantics of the text of tm());
// without recursiveLookaheads a nested lookahead rule is not resolved and the sub-parse fails.
func (g *lookGrammar) evalL(i int, term byte) bool {
	switch {
	case g.nest == 0:
		return term == g.lT[i]
	case !g.recursive:
		return false
	case g.nest == 1:
		return term == g.lT[i] || term == g.lU[i]
	default:
		if term == g.lT[i] {
			return true
		}
		if term == g.lV[i] {
			return false
		}
		return term == g.lU[i]
	}
}

func (g *lookGrammar) selected(term byte) int {
	for i := 0; i < g.nalt-1; i++ {
		if g.evalL(i, term) == g.pos[i] {
			return i
		}
	}
	return g.nalt - 1
}

func (g *lookGrammar) tm(name string) string {
	var sb strings.Builder
	fmt.Fprintf(&sb, "language %s(go);\n\nlang = %q\npackage = \"verifgen/%s\"\neventBased = true\ncancellable = true\n", name, name, name)
	if g.recursive {
		sb.WriteString("recursiveLookaheads = true\n")
	}
	if g.optimize {
		sb.WriteString("optimizeTables = true\n")
	}
	sb.WriteString("\n:: lexer\n\nWhiteSpace: /[ \\t\\r\\n]/ (space)\n\n'a': /a/\n'b': /b/\n'x': /x/\n'y': /y/\n',': /,/\n'(': /\\(/\n')': /\\)/\n';': /;/\n'!': /!/\n'?': /\\?/\n'#': /#/\n")
	sb.WriteString("\n:: parser\n\n%input File;\n\nFile -> File:\n    Stmt+ ;\n\nStmt:\n    'b' ';'    -> Simple\n")
	lit := func(i int, want bool) string {
		if want {
			return fmt.Sprintf("L%d", i)
		}
		return fmt.Sprintf("!L%d", i)
	}
	for j := 0; j < g.nalt; j++ {
		var conds []string
		for i := 0; i < j && i < g.nalt-1; i++ {
			conds = append(conds, lit(i, !g.pos[i]))
		}
		if j < g.nalt-1 {
			conds = append(conds, lit(j, g.pos[j]))
		}
		fmt.Fprintf(&sb, "  | 'a' (?= %s) '(' Body ')' '%c'    -> Alt%d\n", strings.Join(conds, " & "), g.altTerm[j], j)
	}
	sb.WriteString(";\n\n")
	switch g.body {
	case 0:
		sb.WriteString("Body:\n    'x'+ ;\n\n")
	case 1:
		sb.WriteString("Body:\n    ('x' separator ',')+ ;\n\n")
	default:
		sb.WriteString("Body:\n    ('x' | 'y')+ ;\n\n")
	}
	for i := 0; i < g.nalt-1; i++ {
		switch g.nest {
		case 0:
			fmt.Fprintf(&sb, "L%d:\n    '(' Body ')' '%c' ;\n\n", i, g.lT[i])
		case 1:
			fmt.Fprintf(&sb, "L%d:\n    '(' (?= C%d) Body ')' '%c'\n  | '(' (?= !C%d) Body ')' '%c'\n;\n\nC%d:\n    Body ')' '%c' ;\n\n", i, i, g.lT[i], i, g.lU[i], i, g.lT[i])
		default:
			fmt.Fprintf(&sb, "L%d:\n    '(' (?= C%d) Body ')' '%c'\n  | '(' (?= !C%d) Body ')' '%c'\n;\n\n", i, i, g.lT[i], i, g.lU[i])
			fmt.Fprintf(&sb, "C%d:\n    (?= D%d) Body ')' '%c'\n  | (?= !D%d) Body ')' '%c'\n;\n\nD%d:\n    Body ')' '%c' ;\n\n", i, i, g.lT[i], i, g.lV[i], i, g.lT[i])
		}
	}
	return sb.String()
}

// bodyText renders a body of k items.
func (g *lookGrammar) bodyText(rng *rand.Rand, k int) string {
	var sb strings.Builder
	for i := 0; i < k; i++ {
		if g.body == 1 && i > 0 {
			sb.WriteByte(',')
		}
		if g.body == 2 && rng.Intn(3) == 0 {
			sb.WriteByte('y')
		} else {
			sb.WriteByte('x')
		}
	}
	return sb.String()
}

// sentence: filler statements "b;" and guarded statements "a(body)T", laid out so that the multiples of 512 of the
// shared shift counter fall into the main loop, into a lookahead or into a nested lookahead.
func (g *lookGrammar) sentence(rng *rand.Rand) string {
	var sb strings.Builder
	filler := func(n int) {
		for i := 0; i < n; i++ {
			sb.WriteString("b;")
		}
	}
	term := func() byte {
		if rng.Intn(12) == 0 {
			return lookTerms[rng.Intn(4)]
		}
		return g.valid[rng.Intn(len(g.valid))]
	}
	guarded := func(k int) {
		sb.WriteString("a(" + g.bodyText(rng, k) + ")")
		sb.WriteByte(term())
	}
	switch rng.Intn(4) {
	case 0: // the counter reaches 512 around a short guarded statement
		k := 1 + rng.Intn(30)
		filler(256 - rng.Intn(3*k+8))
		guarded(k)
		filler(rng.Intn(40))
		if rng.Intn(2) == 0 {
			guarded(1 + rng.Intn(300))
			filler(rng.Intn(300))
		}
	case 1: // a long body early: several polls inside the lookaheads of one statement
		filler(rng.Intn(20))
		guarded(300 + rng.Intn(500))
		filler(rng.Intn(300))
	case 2: // mixture
		for n := 3 + rng.Intn(8); n > 0; n-- {
			filler(rng.Intn(120))
			guarded(1 + rng.Intn(200))
		}
		filler(rng.Intn(200))
	default: // many short guarded statements
		for n := 60 + rng.Intn(200); n > 0; n-- {
			if rng.Intn(3) == 0 {
				filler(1 + rng.Intn(3))
			}
			guarded(1 + rng.Intn(6))
		}
	}
	s := sb.String()
	if rng.Intn(10) == 0 { // break the sentence somewhere
		b := []byte(s)
		b[rng.Intn(len(b))] = "ab(x);!,"[rng.Intn(8)]
		s = string(b)
	}
	return s
}

func c29Look(rng *rand.Rand, n int, args []string) {
	var pkgs []*genPkg
	var grammars []*lookGrammar
	for i := 0; i < n; i++ {
		g := newLookGrammar(rng, i)
		name := fmt.Sprintf("k%04d", i)
		pkgs = append(pkgs, &genPkg{name: name, tm: g.tm(name), driver: func(p *genPkg) string { return fmt.Sprintf(lookDriverSrc, p.name) }})
		grammars = append(grammars, g)
	}
	compileAll(pkgs)
	type sample struct {
		text []byte
		toks [][3]int // char, offset, endoffset
	}
	var samples [][]sample
	var reqs []genRequest
	perGrammar := 10
	for i, p := range pkgs {
		samples = append(samples, nil)
		if p.err != nil {
			continue
		}
		for s := 0; s < perGrammar; s++ {
			plain := grammars[i].sentence(rng)
			var text []byte
			var toks [][3]int
			for k := 0; k < len(plain); k++ {
				if rng.Intn(9) == 0 {
					text = append(text, ' ')
				}
				toks = append(toks, [3]int{int(plain[k]), len(text), len(text) + 1})
				text = append(text, plain[k])
			}
			samples[i] = append(samples[i], sample{text, toks})
			reqs = append(reqs, genRequest{pkg: p.name, mode: fmt.Sprintf("all:%d:2", rng.Intn(1<<20)), input: text})
		}
	}
	answers, err := buildAndRun(pkgs, reqs)
	if err != nil {
		fmt.Fprintln(os_stderr(), "c29.look:", err)
		exitCode(3)
	}
	ai := 0
	for i, p := range pkgs {
		g := grammars[i]
		if p.err != nil {
			sx.Case("c29.nocompile", sx.List(sx.Str(p.tm), sx.Str(firstLines(p.err.Error(), 3))), "failed")
			continue
		}
		gp := p.g.Parser
		tmap := map[int]int{}
		for _, sym := range p.g.Syms {
			if len(sym.Name) == 3 && sym.Name[0] == '\'' {
				tmap[int(sym.Name[1])] = sym.Index
			}
		}
		typeID := map[string]int{}
		if gp.Types != nil {
			for k, rt := range gp.Types.RangeTypes {
				typeID[rt.Name] = k + 1
			}
		}
		evs := make([]string, len(gp.Rules))
		for k, r := range gp.Rules {
			ty := 0
			if r.Type >= 0 {
				ty = typeID[gp.Types.RangeTypes[r.Type].Name]
			}
			var reps []string
			if r.Action > 0 {
				for _, rep := range gp.Actions[r.Action].Report {
					reps = append(reps, sx.List(sx.Int(rep.Start), sx.Int(rep.End), sx.Int(typeID[gp.Types.RangeTypes[rep.Type].Name])))
				}
			}
			evs[k] = sx.List(sx.Int(ty), sx.List(reps...), sx.Bool(p.g.HasTrailingNulls(*r)))
		}
		var las []string
		maxCases := 0
		for k, lr := range gp.Tables.Lookaheads {
			var cs []string
			for _, c := range lr.Cases {
				cs = append(cs, sx.List(sx.Int(int(c.Input)), sx.Bool(c.Negated), sx.Int(int(c.Target))))
			}
			if len(lr.Cases) > maxCases {
				maxCases = len(lr.Cases)
			}
			las = append(las, sx.List(sx.Int(len(gp.Rules)+k), sx.List(cs...), sx.Int(int(lr.DefaultTarget))))
		}
		sx.Stat(fmt.Sprintf("grammar_alts%d_nest%d_recursive%v", g.nalt, g.nest, g.recursive), 1)
		sx.Stat(fmt.Sprintf("lookahead_rule_max_cases_%d", maxCases), 1)
		for _, s := range samples[i] {
			toks := make([]string, len(s.toks))
			for q, t := range s.toks {
				toks[q] = sx.List(sx.Int(tmap[t[0]]), sx.Int(t[1]), sx.Int(t[2]))
			}
			out := answers[ai]
			ai++
			in := sx.List(tmGrammarStr(p.g), tablesOf(gp.Tables), sx.List(evs...), sx.List(las...), sx.Bool(g.recursive), sx.Int(len(s.text)), sx.List(toks...))
			sx.Case("c29.look", in, out)
			sx.Stat("sentence_tokens", len(s.toks))
			// distribution of the polls of the uncancelled run by nesting depth
			if a := strings.Index(out, "(depths"); a >= 0 {
				if b := strings.Index(out[a:], ")"); b >= 0 {
					for _, d := range strings.Fields(out[a+7 : a+b]) {
						sx.Stat("uncancelled_polls_at_depth_"+d, 1)
					}
				}
			}
		}
	}
}

// ---------------- the shipped js parser ----------------

type jsCtx struct {
	context.Context
	cancel       func()
	calls        int
	cancelAtCall int
	log          []int
	depths       []int
}

func (c *jsCtx) Done() <-chan struct{} {
	c.calls++
	if c.cancelAtCall > 0 && c.calls >= c.cancelAtCall {
		c.cancel()
	}
	var pcs [64]uintptr
	n := runtime.Callers(2, pcs[:])
	frames := runtime.CallersFrames(pcs[:n])
	depth := 0
	for {
		fr, more := frames.Next()
		if strings.HasSuffix(fr.Function, "parsers/js.lookahead") {
			depth++
		}
		if !more {
			break
		}
	}
	c.depths = append(c.depths, depth)
	ch := c.Context.Done()
	select {
	case <-ch:
		c.log = append(c.log, 1)
	default:
		c.log = append(c.log, 0)
	}
	return ch
}

// jsRun parses text as a module with StopOnFirstError; the context is cancelled before poll number atCall (> 0) or by
// the listener during event number afterEvents (> 0).
func jsRun(text string, atCall, afterEvents int) (string, int, int) {
	inner, cancel := context.WithCancel(context.Background())
	defer cancel()
	ctx := &jsCtx{Context: inner, cancel: cancel, cancelAtCall: atCall}
	var ev strings.Builder
	nev := 0
	res := ""
	st := guarded(func() {
		l := func(t js.NodeType, offset, endoffset int) {
			fmt.Fprintf(&ev, " (%d %d %d)", int(t), offset, endoffset)
			nev++
			if afterEvents > 0 && nev == afterEvents {
				cancel()
			}
		}
		var s js.TokenStream
		s.Init(text, l)
		var p js.Parser
		p.Init(js.StopOnFirstError, l)
		err := p.ParseModule(ctx, &s)
		res = "accept"
		if err == context.Canceled {
			res = "ctxerr"
		} else if se, ok := err.(js.SyntaxError); ok {
			res = fmt.Sprintf("syntax %d %d", se.Offset, se.Endoffset)
		} else if err != nil {
			res = "other"
		}
	})
	if st != "ok" {
		res = "crash"
	}
	polls, depths := "", ""
	for i, b := range ctx.log {
		polls += fmt.Sprintf(" %d", b)
		depths += fmt.Sprintf(" %d", ctx.depths[i])
	}
	return fmt.Sprintf("(%s (polls%s) (depths%s) (events%s) (cancel %d %d))", res, polls, depths, ev.String(), atCall, afterEvents), len(ctx.log), nev
}

// jsTokenOffsets: start offsets of the tokens of text (js lexer, without whitespace and comments).
func jsTokenOffsets(text string) []int {
	var l js.Lexer
	l.Init(text)
	var offs []int
	for {
		t := l.Next()
		if int(t) == 0 { // EOI
			break
		}
		if t == jstoken.MULTILINECOMMENT || t == jstoken.SINGLELINECOMMENT || t == jstoken.INVALID_TOKEN {
			continue // reported, never shifted
		}
		s, _ := l.Pos()
		offs = append(offs, s)
		if len(offs) > 1<<20 {
			break
		}
	}
	return offs
}

func jsSentence(rng *rand.Rand) string {
	var sb strings.Builder
	ident := func() string { return string(rune('a' + rng.Intn(26))) }
	filler := func(n int) {
		for i := 0; i < n; i++ {
			switch rng.Intn(6) {
			case 0:
				sb.WriteString("x = a / b / c;") // division, not a regular expression
			case 1:
				sb.WriteString("y = /ab+c/g;") // a regular expression literal after '='
			default:
				sb.WriteString(ident() + ";")
			}
		}
	}
	params := func(k int) string {
		ps := make([]string, k)
		for i := range ps {
			ps[i] = ident()
			if rng.Intn(8) == 0 {
				ps[i] += " = 1"
			}
		}
		return strings.Join(ps, ", ")
	}
	arrow := func(k int) {
		switch rng.Intn(5) {
		case 0:
			sb.WriteString("(" + params(k) + ") => 1;")
		case 1:
			sb.WriteString("f = async (" + params(k) + ") => { return 1 };")
		case 2:
			sb.WriteString("(" + params(k) + ");") // a parenthesized comma expression: StartOfArrowFunction fails at the end
		case 3:
			sb.WriteString("g(" + params(k) + ") / 2 / (" + params(1+k/4) + ") ;")
		default:
			sb.WriteString("h = (" + params(k) + ") => (" + params(1+k/3) + ") => /re/.test(a);")
		}
	}
	switch rng.Intn(4) {
	case 0: // the counter reaches 512 around a short arrow function
		k := 1 + rng.Intn(20)
		for i := 0; i < 256-rng.Intn(3*k+10); i++ {
			sb.WriteString(ident() + ";")
		}
		arrow(k)
		filler(rng.Intn(300))
	case 1: // long parameter lists
		filler(rng.Intn(30))
		arrow(200 + rng.Intn(500))
		filler(rng.Intn(400))
	case 2:
		for n := 2 + rng.Intn(6); n > 0; n-- {
			filler(rng.Intn(150))
			arrow(1 + rng.Intn(150))
		}
		filler(rng.Intn(600))
	default: // long tail after a lookahead that crosses a multiple of 512
		k := 4 + rng.Intn(12)
		for i := 0; i < 256-rng.Intn(2*k); i++ {
			sb.WriteString(ident() + ";")
		}
		sb.WriteString("(" + params(k) + ") => 1;")
		for i := 0; i < 1500+rng.Intn(1500); i++ {
			sb.WriteString(ident() + ";")
		}
	}
	s := sb.String()
	if rng.Intn(2) == 0 {
		// comments (reported through the token stream's pending list) between statements
		parts := strings.SplitAfter(s, ";")
		for i := range parts {
			switch rng.Intn(24) {
			case 0:
				parts[i] += " /* c */ "
			case 1:
				parts[i] += " // c\n"
			}
		}
		s = strings.Join(parts, "")
	}
	if rng.Intn(10) == 0 {
		b := []byte(s)
		b[rng.Intn(len(b))] = ")(;=,/"[rng.Intn(6)]
		s = string(b)
	}
	return s
}

func c29JS(rng *rand.Rand, n int, args []string) {
	for i := 0; i < n; i++ {
		text := jsSentence(rng)
		offs := jsTokenOffsets(text)
		var runs []string
		base, npolls, nev := jsRun(text, 0, 0)
		runs = append(runs, base)
		for j := 1; j <= npolls+1; j++ {
			r, _, _ := jsRun(text, j, 0)
			runs = append(runs, r)
		}
		for k := 0; k < 3 && nev > 0; k++ {
			r, _, _ := jsRun(text, 0, 1+rng.Intn(nev))
			runs = append(runs, r)
		}
		sx.Case("c29.js", sx.List(sx.Str(text), sx.Ints(offs)), sx.List(runs...))
		sx.Stat("js_tokens", len(offs))
		sx.Stat("js_polls_uncancelled", npolls)
		if a := strings.Index(base, "(depths"); a >= 0 {
			if b := strings.Index(base[a:], ")"); b >= 0 {
				for _, d := range strings.Fields(base[a+7 : a+b]) {
					sx.Stat("js_uncancelled_polls_at_depth_"+d, 1)
				}
			}
		}
	}
}
