package main

// c22.pattern: positions of regexp errors (compiler/lexer.go parsePattern). A lexer pattern with a (usually
// broken) regular expression is placed after random padding; the harness knows where the pattern starts and
// ends, asks lex.ParseRegexp for the error offsets inside the pattern text and compiler.Compile for the
// "broken regexp" diagnostic. Input: (content patternOffset patternEnd errOffset errEndOffset);
// output: (fileclass offset endoffset line column msg) of the diagnostic.

import (
	"context"
	"math/rand"
	"strings"

	"github.com/inspirer/textmapper/compiler"
	"github.com/inspirer/textmapper/lex"
	"github.com/inspirer/textmapper/status"
	"verif/harness/sx"
)

func init() {
	commands["c22.pattern"] = c22Pattern
}

// pieces that keep the text between the slashes one tm `regexp` token: no raw '/', no line break, brackets
// closed, no trailing backslash
var c22PatPieces = []string{"a", "b", "xy", "é", "😀", "ß", `\.`, `\/`, `\\`, "[a-z]", "[z-a]", "[^\\]]", "[\\x]", "[a-\\d]", "[é-a]", "[/]", "(", ")", "()", "(a|b)", "*", "+", "?", "|",
	"{2,1}", "{3}", "{3,}", "{x", "{9999999999999999999}", "{nosuch}", "{eoi}", `\p{Foo}`, `\p{L}`, `\pL`, `\x4`, `\xZ1`, `\x{110000}`, `\u12`, `é`, `\0777`, `\d`, `\y`, `\é`,
	"(?z)", "(?i)", ".", " ", "-", "$", "^"}

func c22GenPattern(rng *rand.Rand) string {
	for {
		var sb strings.Builder
		k := 1 + rng.Intn(6)
		for j := 0; j < k; j++ {
			sb.WriteString(c22PatPieces[rng.Intn(len(c22PatPieces))])
		}
		p := sb.String()
		if p[0] == '*' || p[0] == '/' {
			continue
		}
		return p
	}
}

func c22Pattern(rng *rand.Rand, n int, _ []string) {
	pads := []string{"\n", "\n\n", " ", "\t", "\r\n", "# é😀\n", "/* a\n b */", "  \n", "# x\n", "/* é */ "}
	stats := map[string]int{}
	for i := 0; i < n; i++ {
		pad := func() string {
			var sb strings.Builder
			k := rng.Intn(5)
			for j := 0; j < k; j++ {
				sb.WriteString(pads[rng.Intn(len(pads))])
			}
			return sb.String()
		}
		pat := c22GenPattern(rng)
		var opts lex.CharsetOptions
		hdr := ""
		switch rng.Intn(6) {
		case 0:
			hdr = "scanBytes = true\n"
			opts.ScanBytes = true
		case 1:
			hdr = "caseInsensitive = true\n"
			opts.Fold = true
		}
		_, perr := lex.ParseRegexp(pat, opts)
		if perr == nil {
			stats["pattern_valid"]++
			if rng.Intn(8) != 0 {
				i--
				continue
			}
		}
		var pre strings.Builder
		pre.WriteString(pad() + "language x(go);\n" + hdr + pad() + ":: lexer" + pad() + "\na: /a/\n" + pad())
		// the pattern's line: something before it on the same line
		named := false
		switch rng.Intn(5) {
		case 0:
			pre.WriteString("'é😀': ")
		case 1:
			pre.WriteString("/* é\n€ */ tok   :\t")
		case 2:
			pre.WriteString("named = ") // a named pattern
			named = true
		case 3:
			pre.WriteString("<initial> tok (Tok) {int}: ")
		default:
			pre.WriteString("tok: ")
		}
		suffix := []string{"", " 1", " (space)", "  # é"}[rng.Intn(4)]
		if named {
			suffix = []string{"", "  # é"}[rng.Intn(2)]
		}
		content := pre.String() + "/" + pat + "/" + suffix + "\n" + pad() + ":: parser\ninput : a ;\n" + pad()
		o := len(pre.String())
		e := o + len(pat) + 2
		out := c22PatternOut(content)
		if out == "" {
			stats["no_regexp_error"]++
			if perr == nil {
				continue
			}
			out = sx.List("none")
		}
		po, pe := -1, -1
		if perr != nil {
			pe0 := perr.(lex.ParseError)
			po, pe = pe0.Offset, pe0.EndOffset
			stats["msg_"+strings.ReplaceAll(firstLine(pe0.Msg), " ", "_")]++
			switch {
			case po == pe:
				stats["err_empty_range"]++
			case pe == len(pat):
				stats["err_range_to_end"]++
			default:
				stats["err_inner_range"]++
			}
		} else {
			continue
		}
		sx.Case("c22.pattern", sx.List(sx.Str(content), sx.Int(o), sx.Int(e), sx.Int(po), sx.Int(pe)), out)
	}
	for k, v := range stats {
		sx.Stat(k, v)
	}
}

func c22PatternOut(content string) (out string) {
	defer func() {
		if r := recover(); r != nil {
			out = sx.List("crash")
		}
	}()
	_, err := compiler.Compile(context.Background(), c22Path, content, compiler.Params{CheckOnly: true})
	if err == nil {
		return ""
	}
	for _, e := range status.FromError(err) {
		if strings.HasPrefix(e.Msg, "broken regexp") {
			fc := 2
			switch e.Origin.Filename {
			case c22Path:
				fc = 1
			case "":
				fc = 0
			}
			return sx.List(sx.Int(fc), sx.Int(e.Origin.Offset), sx.Int(e.Origin.EndOffset), sx.Int(e.Origin.Line), sx.Int(e.Origin.Column), sx.Str(firstLine(e.Msg)))
		}
	}
	return ""
}
