package main

import (
	"math/rand"
	"strings"

	"github.com/inspirer/textmapper/lalr"
	"github.com/inspirer/textmapper/status"
	"verif/harness/sx"
)

func init() {
	commands["c03.random"] = c03Random
}

func statesStr(g *cfg, sts []lalr.VerifState) string {
	parts := make([]string, len(sts))
	for i, s := range sts {
		core := make([]string, len(s.Core))
		for j, it := range s.Core {
			core[j] = sx.List(sx.Int(it[0]), sx.Int(it[1]))
		}
		shifts := make([]string, len(s.Shifts))
		for j, t := range s.Shifts {
			shifts[j] = sx.List(sx.Int(sts[t].Symbol), sx.Int(t))
		}
		las := make([]string, len(s.LA))
		for j, la := range s.LA {
			las[j] = sx.Ints(la)
		}
		parts[i] = sx.List(sx.List(core...), sx.Int(s.Symbol), sx.Ints(s.Reduce), sx.List(shifts...), sx.Bool(s.LR0), sx.List(las...))
	}
	return sx.List(parts...)
}

// conflictErrors tells whether the returned error consists of conflict reports only.
func errKind(err error) int {
	if err == nil {
		return 0
	}
	kind := 2
	for _, e := range status.FromError(err) {
		switch {
		case strings.HasPrefix(e.Msg, "conflicts: "):
			kind = 1
		case strings.HasPrefix(e.Msg, "input:"):
			// a conflict description
		default:
			return 2
		}
	}
	return kind
}

func c03Random(rng *rand.Rand, n int, _ []string) {
	conflicting, withPrec := 0, 0
	for i := 0; i < n; i++ {
		g := genCFG(rng, defaultKnobs)
		switch rng.Intn(4) {
		case 0:
			addRandomPrec(rng, g)
			withPrec++
			if rng.Intn(2) == 0 && len(g.rules) > 0 {
				g.rules[rng.Intn(len(g.rules))].prec = 1 + rng.Intn(g.nterms-1)
			}
		}
		if rng.Intn(6) == 0 {
			g.expectSR, g.expectRR = rng.Intn(3), rng.Intn(2)
		}
		lg := g.toLalr()
		sts, t, err := lalr.VerifCompile(lg)
		if t == nil {
			continue
		}
		if t.SR+t.RR > 0 {
			conflicting++
		}
		in := sx.List(g.cfgStr(), sx.Int(g.expectSR), sx.Int(g.expectRR))
		out := sx.List(statesStr(g, sts), defaultEncStr(t.DefaultEnc), sx.Ints(t.FinalStates), sx.Int(t.SR), sx.Int(t.RR), sx.Int(errKind(err)))
		sx.Case("c03.tables", in, out)
	}
	sx.Stat("grammars_with_conflicts", conflicting)
	sx.Stat("grammars_with_precedence", withPrec)
}
