package main

import (
	"context"
	"fmt"
	"math/rand"
	"strings"

	"github.com/inspirer/textmapper/compiler"
	"github.com/inspirer/textmapper/util/ident"
	"verif/harness/sx"
)

func init() {
	commands["c28.names"] = c28Names
	commands["c28.exhaustive"] = c28Exhaustive
	commands["c28.grammar"] = c28Grammar
}

var styles = []ident.Style{ident.CamelCase, ident.CamelLower, ident.UpperCase, ident.UpperUnderscores}

func c28Case(class, name string) {
	outs := make([]string, 4)
	for i, st := range styles {
		id := ident.Produce(name, st)
		outs[i] = sx.List(sx.Str(id), sx.Bool(ident.IsValid(id)))
	}
	sx.Case("c28.produce", sx.List(class, sx.Str(name)), sx.List(outs...))
}

const idFirst = "aBz_Z"
const idMid = "aBz_Z-09"
const idLast = "aBz_Z09"

// every ID-syntax name up to length k over a small alphabet; every quoted body up to length 2 over a
// mixed alphabet
func c28Exhaustive(_ *rand.Rand, k int, _ []string) {
	var rec func(prefix string)
	rec = func(prefix string) {
		if len(prefix) >= 1 && strings.ContainsRune(idLast, rune(prefix[len(prefix)-1])) {
			c28Case("id", prefix)
		}
		if len(prefix) >= k {
			return
		}
		for _, c := range idMid {
			rec(prefix + string(c))
		}
	}
	for _, c := range idFirst {
		rec(string(c))
	}
	body := []string{"a", "Z", "0", "_", "-", "+", " ", "\\\\", "\\'", "\\n", "\"", "$", "é", "€", "\xff", "~", "\t"}
	c28Case("quoted", "''")
	for _, a := range body {
		c28Case("quoted", "'"+a+"'")
		for _, b := range body {
			c28Case("quoted", "'"+a+b+"'")
		}
	}
}

func randID(rng *rand.Rand) string {
	n := 1 + rng.Intn(10)
	var sb strings.Builder
	letters := "abcxyzABCXYZ_"
	mid := letters + "-0123456789"
	last := letters + "0123456789"
	for i := 0; i < n; i++ {
		switch {
		case i == 0:
			sb.WriteByte(letters[rng.Intn(len(letters))])
		case i == n-1:
			sb.WriteByte(last[rng.Intn(len(last))])
		default:
			sb.WriteByte(mid[rng.Intn(len(mid))])
		}
	}
	return sb.String()
}

func randQuoted(rng *rand.Rand) string {
	n := rng.Intn(6)
	var sb strings.Builder
	sb.WriteByte('\'')
	for i := 0; i < n; i++ {
		switch rng.Intn(8) {
		case 0:
			sb.WriteString("\\")
			sb.WriteByte("\\'n\"tx.("[rng.Intn(8)])
		case 1:
			sb.WriteRune([]rune{'é', 'Ж', '€', 0x1F600, 0xFF, 0x100, 0xD7, 0xC0}[rng.Intn(8)])
		case 2:
			sb.WriteByte(byte(0x80 + rng.Intn(0x80))) // invalid UTF-8 inside quotes
		default:
			c := byte(32 + rng.Intn(95))
			if c == '\'' || c == '\\' {
				c = '+'
			}
			sb.WriteByte(c)
		}
	}
	sb.WriteByte('\'')
	return sb.String()
}

func c28Names(rng *rand.Rand, n int, _ []string) {
	for i := 0; i < n; i++ {
		switch rng.Intn(5) {
		case 0, 1:
			c28Case("id", randID(rng))
		case 2, 3:
			c28Case("quoted", randQuoted(rng))
		default:
			b := make([]byte, rng.Intn(7))
			for j := range b {
				if rng.Intn(3) == 0 {
					b[j] = byte(rng.Intn(256))
				} else {
					b[j] = "aZ_0'\"\\-$ "[rng.Intn(10)]
				}
			}
			c28Case("raw", string(b))
		}
	}
}

// c28Grammar compiles grammars that declare two symbols and reports whether the compiler raised the
// "get the same ID" error; the model decides whether the two names collide.
func c28Grammar(rng *rand.Rand, n int, _ []string) {
	pairs := [][2]string{{"a-b", "ab"}, {"a_b", "ab"}, {"foo", "Foo"}, {"fooBar", "foo_bar"}, {"x1", "x-1"}, {"ab", "abc"}, {"A", "a"}, {"list", "List1"}}
	for i := 0; i < n; i++ {
		var a, b string
		if i < len(pairs) {
			a, b = pairs[i][0], pairs[i][1]
		} else {
			a = randID(rng)
			b = a
			// derive a near-collision
			switch rng.Intn(4) {
			case 0:
				b = strings.ReplaceAll(a, "-", "")
			case 1:
				b = strings.ReplaceAll(a, "_", "-")
			case 2:
				b = strings.ToUpper(a[:1]) + a[1:]
			default:
				b = randID(rng)
			}
		}
		if a == b || !validID(a) || !validID(b) {
			continue
		}
		for _, kind := range []string{"nonterm", "term"} {
			var text string
			if kind == "nonterm" {
				text = fmt.Sprintf("language l(go);\n::lexer\n'x': /x/\n::parser\ninput : %s | %s ;\n%s : 'x' ;\n%s : 'x' 'x' ;\n", a, b, a, b)
			} else {
				text = fmt.Sprintf("language l(go);\n::lexer\n%s: /x/\n%s: /y/\n::parser\ninput : %s | %s ;\n", a, b, a, b)
			}
			_, err := compiler.Compile(context.Background(), "g.tm", text, compiler.Params{CheckOnly: true})
			sameID, other := false, ""
			if err != nil {
				sameID = strings.Contains(err.Error(), "get the same ID in generated code")
				if !sameID {
					other = err.Error()
				}
			}
			if other != "" {
				continue // some other diagnostic (e.g. reserved word): not a C28 case
			}
			sx.Case("c28.collide", sx.List(kind, sx.Str(a), sx.Str(b)), sx.Bool(sameID))
		}
		// terminals with an explicit ID clause, name (ID): the clause takes the place of the derived identifier
		// for the collision check, whichever of the two terminals comes first
		xs := []string{ident.Produce(a, ident.UpperCase), ident.Produce(b, ident.UpperCase), "XID", strings.ToUpper(strings.NewReplacer("-", "_").Replace(a))}
		x := xs[rng.Intn(len(xs))]
		if !validID(x) || strings.ContainsAny(x, "-") {
			continue
		}
		for _, kind := range []string{"xterm1", "xterm2", "xterm3"} {
			decl := func(name string, explicit bool, re string) string {
				if explicit {
					return fmt.Sprintf("%s (%s): /%s/\n", name, x, re)
				}
				return fmt.Sprintf("%s: /%s/\n", name, re)
			}
			text := "language l(go);\n::lexer\n" + decl(a, kind != "xterm1", "x") + decl(b, kind != "xterm2", "y") + fmt.Sprintf("::parser\ninput : %s | %s ;\n", a, b)
			_, err := compiler.Compile(context.Background(), "g.tm", text, compiler.Params{CheckOnly: true})
			sameID, other := false, ""
			if err != nil {
				sameID = strings.Contains(err.Error(), "get the same ID in generated code")
				if !sameID {
					other = err.Error()
				}
			}
			if other != "" {
				continue
			}
			sx.Case("c28.collide", sx.List(kind, sx.Str(a), sx.Str(b), sx.Str(x)), sx.Bool(sameID))
		}
	}
}

func validID(s string) bool {
	if s == "" || strings.HasSuffix(s, "-") {
		return false
	}
	for i, c := range s {
		ok := c == '_' || c >= 'a' && c <= 'z' || c >= 'A' && c <= 'Z' || i > 0 && (c == '-' || c >= '0' && c <= '9')
		if !ok {
			return false
		}
	}
	return true
}
