package main

// c22.gen2: the structured generator of c22gen.go with more of the language switched on: other target
// languages (cc with flexMode, ts), lexer features (named patterns, start conditions and scopes, %brackets,
// lexeme ids, priorities, lexer commands, typed terminals, richer and partly wrong regular expressions),
// %param / string-valued template parameters and == predicates, aliases X[name] with typed semantic actions
// that use them, $( ... ) ignored parts, extend, report clauses with 'as', several %interface, lalr(n).

import (
	"fmt"
	"math/rand"
	"strings"

	"verif/harness/sx"
)

func init() {
	commands["c22.gen2"] = c22Gen2
}

func (g *c22g) widePart(d int) string {
	switch g.rng.Intn(9) {
	case 0, 1:
		a := g.pick([]string{"x", "y", "lhs", "rhs", "val"})
		g.aliases = append(g.aliases, a)
		return g.ref() + "[" + a + "]"
	case 2:
		if len(g.aliases) > 0 {
			return "{ $$ = f($" + g.pick(g.aliases) + ", $" + g.pick(g.aliases) + ") }"
		}
		return "{ $$ = $1 }"
	case 3:
		if !g.chance(10) {
			return g.ref()
		}
		return "$(" + g.rhs(d+1) + g.pick([]string{"", " | " + g.rhs(d+1)}) + ")"
	case 4:
		a := g.pick([]string{"x", "y", "items"})
		g.aliases = append(g.aliases, a)
		return "(" + g.rhs(d+1) + " | " + g.rhs(d+1) + ")[" + a + "]"
	case 5:
		return "{ @$ = @1; $$ = ${" + g.pick([]string{"left()", "first()", "last()", "self"}) + "} }"
	case 6:
		a := g.pick([]string{"x", "items"})
		g.aliases = append(g.aliases, a)
		return "(" + g.ref() + " separator " + g.term() + ")" + g.pick([]string{"+", "*"}) + "[" + a + "]"
	case 7:
		return g.ref() + g.pick([]string{"+", "*"}) + g.pick([]string{"+", "*", "?", ""})
	default:
		return "set(" + g.pick([]string{"first", "last", "follow", "precede"}) + " " + g.pick(g.nts) + g.args(g.pick(g.nts)) + ")"
	}
}

var c22Regexes = []string{`[a-zA-Z_][a-zA-Z_0-9]*`, `[0-9]+(\.[0-9]+)?`, `"([^"\\]|\\.)*"`, `'[^']*'`, `\/\/[^\n]*`, `{idc}({idc}|{dig})*`, `{dig}+`,
	`[\p{L}]+`, `\p{Lu}\w*`, `é+`, `[α-ω]+`, `\x41B`, `a|b|c`, `(ab)*c`, `a{2,3}`, `x{eoi}`, `[^a-z]`, `.`, `\s+`, `if`, `else`, `[ef]+`, `e`, `-?[1-9]`,
	`\d+`, `(?i)kw`, `[\x00-\x1f]`, `\\`, `\.`, `\$`, `%`}
var c22BadRegexes = []string{`[z-a]`, `a{3,1}`, `(`, `a)`, `*a`, `\p{Nope}`, `{nosuch}`, `[a`, `\x`, `a**`, `\u12`, `(?z)a`, `a{`, `{dig`, `a*`, `()`, `x{eoi}+`, `\xff`, `[^\x00-\x{10ffff}]`, `a{0}`}


func (g *c22g) regex() string {
	if g.chance(g.wild) {
		return g.pick(c22BadRegexes)
	}
	return g.pick(c22Regexes)
}

func (g *c22g) grammarWide() string {
	rng := g.rng
	g.wide = true
	var sb strings.Builder
	g.target = g.pick([]string{"go", "go", "go", "go", "cc", "cc", "cc", "ts", "ts", "js", "java", "nosuch"})
	sb.WriteString("language g(" + g.target + ");\n")
	if rng.Intn(12) == 0 {
		sb.WriteString("lang = \"" + g.pick([]string{"go", "cc", "ts", "x"}) + "\"\n")
	}
	g.arrows = rng.Intn(2) == 0
	if g.arrows {
		sb.WriteString("eventBased = true\n")
		for _, o := range []string{"eventFields = true", "eventAST = true", "fileNode = \"File\"", "nodePrefix = \"Nd\"",
			"extraTypes = " + g.pick([]string{"[\"Extra\", \"E2 -> C1\"]", "[\"C1\", \"C1\"]", "[\"X -> Nope\"]", "[\"Extra\"]"}), "customImpl = [\"C1\"]"} {
			if strings.HasPrefix(o, "eventFields") && g.target != "go" || strings.HasPrefix(o, "eventAST") && g.target != "go" && g.target != "ts" {
				if rng.Intn(40) != 0 {
					continue
				}
			}
			if rng.Intn(6) == 0 {
				sb.WriteString(o + "\n")
			}
		}
	}
	flex := false
	if g.target == "cc" {
		for _, o := range []string{"namespace = \"ns\"", "includeGuardPrefix = \"G_\"", "filenamePrefix = \"p_\"", "variantStackEntry = true", "trackReduces = true",
			"parseParams = [\"int a\", \"B* b\"]", "dirIncludePrefix = \"d/\"", "abseilIncludePrefix = \"absl\""} {
			if rng.Intn(4) == 0 {
				sb.WriteString(o + "\n")
			}
		}
		if rng.Intn(3) == 0 {
			flex = true
			sb.WriteString("flexMode = true\n")
		}
	}
	type opt struct{ text, langs string }
	for _, o := range []opt{{"fixWhitespace = true", "go ts"}, {"cancellable = true", "go"}, {"cancellableFetch = true", "go"}, {"recursiveLookaheads = true", ""},
		{"optimizeTables = true", ""}, {"defaultReduce = true", ""}, {"tokenLine = false", ""}, {"tokenLineOffset = true", ""}, {"tokenColumn = true", ""},
		{"nonBacktracking = true", ""}, {"genSelector = true", "go ts"}, {"writeBison = true", ""}, {"noEmptyRules = true", ""}, {"maxLookahead = 2", ""}, {"maxLookahead = 0", ""},
		{"expansionLimit = 20", ""}, {"expansionLimit = 1", ""}, {"expansionWarn = 2", ""}, {"optInstantiationSuffix = \"opt\"", ""}, {"aliasIncludesOptSuffix = true", ""},
		{"disableSyntax = [\"Lookahead\"]", ""}, {"disableSyntax = [\"Templates\", \"Arrow\"]", ""}, {"disableSyntax = [\"NestedChoice\", \"Sets\"]", ""}, {"scanBytes = true", ""},
		{"caseInsensitive = true", ""}, {"tokenStream = true", "go ts"}, {"genParser = false", ""}, {"debugParser = true", ""}, {"minimizeDFA = true", ""},
		{"skipByteOrderMark = true", ""}, {"maxRuleSizeForOrdinalRef = 2", ""}, {"package = \"a/b\"", "go"}, {"genCopyright = true", ""}, {"nosuchOption = 1", "-"},
		{"eventBased = 1", "-"}, {"flexMode = true", "-"}} {
		ok := o.langs == "" || strings.Contains(o.langs, g.target)
		if ok && rng.Intn(16) == 0 || !ok && rng.Intn(300) == 0 {
			sb.WriteString(o.text + "\n")
		}
	}
	sb.WriteString(":: lexer\n")
	namedUsed := false
	if rng.Intn(2) == 0 && (!flex || rng.Intn(6) == 0) {
		sb.WriteString("idc = /[a-zA-Z_]/\ndig = /[0-9]/\n")
		if rng.Intn(10) != 0 {
			namedUsed = true
		}
	}
	var states []string
	if !flex && rng.Intn(3) == 0 {
		states = []string{"initial", "st1", "st2"}
		sb.WriteString("%s initial, st1;\n%x st2" + g.pick([]string{"", "", "", "", "", "", "", "", "", ", st1"}) + ";\n")
	}
	cond := func() string {
		if len(states) == 0 || rng.Intn(3) != 0 {
			return ""
		}
		return g.pick([]string{"<st1> ", "<st1, st2> ", "<*> ", "<initial> ", "<initial, st2> ", "<st1> ", "<nosuch> "})
	}
	g.terms = nil
	pats := map[string]string{"a": "a", "b": "b", "c": "c", "d": "d", "'+'": "\\+", "'*'": "\\*", "'('": "\\(", "')'": "\\)", "','": ",", "id": "[e-z]+", "kw": "kw", "num": "[0-9]+", "'é'": "é", "str": `"[^"]*"`}
	for i, t := range []string{"a", "b", "c", "d", "'+'", "'*'", "'('", "')'", "','", "id", "kw", "num", "'é'", "str"} {
		incl := i < 3 || rng.Intn(3) != 0
		if t == "kw" {
			incl = g.terms[len(g.terms)-1] == "id"
		}
		if flex && incl && !strings.HasPrefix(t, "'") && t != "'é'" && rng.Intn(8) != 0 {
			// flex mode: only individual ASCII characters have patterns, the other terminals are declared without one
			g.terms = append(g.terms, t)
			fmt.Fprintf(&sb, "%s:\n", t)
			continue
		}
		if incl {
			g.terms = append(g.terms, t)
			pat := pats[t]
			if rng.Intn(25) == 0 && t != "id" && t != "kw" {
				pat = g.regex()
			}
			attr := ""
			if t == "id" {
				attr = " (class)" // kw follows: a class rule needs a specialization, and kw needs the class
			}
			if g.chance(120) {
				attr = g.pick([]string{" (space)", " (class)", " -1", " 1", " 2 (class)", " -1 (space)"})
			}
			typ := ""
			if g.chance(5) {
				typ = g.pick([]string{" {int}", " {string}", " {*Node}", " {std::string}"})
			}
			lid := ""
			if g.chance(12) {
				lid = " (" + g.pick([]string{"Ident", "KW", "Tok1"}) + fmt.Sprint(i) + ")"
			}
			cmd := ""
			if g.chance(10) && (!flex || g.chance(6)) {
				cmd = g.pick([]string{" { l.State = StateSt1 }", " { /* c */ }", " { return 1; }"})
			}
			cd := cond()
			if t == "id" || t == "kw" {
				cd = ""
			}
			fmt.Fprintf(&sb, "%s%s%s%s: /%s/%s%s\n", cd, t, lid, typ, pat, attr, cmd)
		}
	}
	if len(states) > 0 && rng.Intn(2) == 0 {
		sb.WriteString("<st2" + g.pick([]string{"", ", st1"}) + "> {\n  t2: /q/\n  " + g.pick([]string{"t3: /r+/ { l.State = StateInitial }", "id: /[e-z]+/", "<st1> t4: /s/"}) + "\n}\n")
		g.terms = append(g.terms, "t2")
	}
	if namedUsed {
		sb.WriteString("word: /{idc}({idc}|{dig})*/ -1\n")
		g.terms = append(g.terms, "word")
	}
	if rng.Intn(3) == 0 {
		sb.WriteString("ws: /[ \\t\\n]+/ (space)\n")
	}
	if rng.Intn(40) == 0 {
		sb.WriteString("%brackets " + g.term() + " " + g.term() + ";\n")
	}
	if rng.Intn(30) == 0 {
		sb.WriteString(g.pick(g.terms) + ": /" + g.regex() + "/\n") // redeclaration or second pattern of a terminal
	}
	if rng.Intn(10) == 0 {
		sb.WriteString("noPattern:\n")
		g.terms = append(g.terms, "noPattern")
	}
	g.hasErr = rng.Intn(3) == 0
	if g.hasErr {
		sb.WriteString("error:\n")
	}
	if rng.Intn(4) == 0 {
		sb.WriteString("invalid_token:\n")
	}
	if rng.Intn(12) == 0 {
		sb.WriteString("eoi: /{eoi}/\n")
	}
	if rng.Intn(12) == 0 {
		return sb.String() // lexer only
	}
	sb.WriteString(":: parser" + g.pick([]string{"", "", "", " lalr(1)", " lalr(2)", " lalr(0)"}) + "\n")
	g.flags = nil
	var plain []string // not lookahead
	for i := 0; i < rng.Intn(4); i++ {
		f := fmt.Sprintf("F%d", i)
		g.flags = append(g.flags, f)
		k := rng.Intn(7)
		if k != 2 && k != 3 {
			plain = append(plain, f)
		}
		switch k {
		case 0:
			fmt.Fprintf(&sb, "%%flag %s;\n", f)
		case 1:
			fmt.Fprintf(&sb, "%%flag %s = %s;\n", f, g.pick([]string{"true", "false"}))
		case 2:
			fmt.Fprintf(&sb, "%%lookahead flag %s = %s;\n", f, g.pick([]string{"true", "false"}))
		case 3:
			fmt.Fprintf(&sb, "%%lookahead flag %s;\n", f)
		case 4:
			fmt.Fprintf(&sb, "%%param %s;\n", f)
		case 5:
			fmt.Fprintf(&sb, "%%param %s = %s;\n", f, g.pick([]string{"true", "false", "true", "false", "true", "false", "true", "false", "true", "false", "\"v\"", "1", "F0"}))
		default:
			fmt.Fprintf(&sb, "%%flag %s;\n", f)
		}
	}
	g.cats = []string{"C1", "C2", "Node", "Expr"}
	if g.arrows && rng.Intn(2) == 0 {
		sb.WriteString("%interface " + g.pick(g.cats) + g.pick([]string{"", ", " + g.pick(g.cats), ", Other"}) + ";\n")
	}
	nnt := 2 + rng.Intn(6)
	g.nts = nil
	g.params = map[string][]string{}
	g.lookNts = nil
	for i := 0; i < nnt; i++ {
		nt := fmt.Sprintf("N%d", i)
		g.nts = append(g.nts, nt)
		if i > 0 && rng.Intn(3) == 0 {
			np := 1 + rng.Intn(2)
			for j := 0; j < np; j++ {
				if len(plain) > 0 && rng.Intn(2) == 0 && !contains(g.params[nt], plain[0]) {
					g.params[nt] = append(g.params[nt], plain[rng.Intn(len(plain))])
					if n := len(g.params[nt]); n == 2 && g.params[nt][0] == g.params[nt][1] {
						g.params[nt] = g.params[nt][:1]
					}
				} else if len(g.flags) > 0 && rng.Intn(40) == 0 {
					g.params[nt] = append(g.params[nt], g.pick(g.flags))
				} else {
					g.params[nt] = append(g.params[nt], fmt.Sprintf("P%d", j))
				}
			}
		}
		if i > 0 && len(g.params[nt]) == 0 && rng.Intn(4) == 0 {
			g.lookNts = append(g.lookNts, nt)
		}
	}
	hasInput := rng.Intn(4) != 0
	if !hasInput && rng.Intn(20) != 0 || rng.Intn(4) == 0 {
		g.nts[0] = "input"
	}
	if hasInput {
		sb.WriteString("%input " + g.nts[0])
		if rng.Intn(4) == 0 {
			sb.WriteString(" no-eoi")
		}
		if rng.Intn(4) == 0 {
			sb.WriteString(", " + g.pick(g.nts) + g.pick([]string{"", " no-eoi"}))
		}
		sb.WriteString(";\n")
	}
	for _, a := range []string{"%left", "%right", "%nonassoc"} {
		if rng.Intn(4) == 0 {
			sb.WriteString(a + " " + g.term() + g.pick([]string{"", " " + g.term()}) + ";\n")
		}
	}
	g.sets = nil
	for i := 0; i < rng.Intn(4); i++ {
		s := fmt.Sprintf("S%d", i)
		g.sets = append(g.sets, s) // declared before use: a set may refer to itself and to later ones
	}
	for _, s := range g.sets {
		fmt.Fprintf(&sb, "%%generate %s = set(%s);\n", s, g.setExpr(0))
	}
	if rng.Intn(5) == 0 {
		fmt.Fprintf(&sb, "%%assert %s set(%s);\n", g.pick([]string{"empty", "nonempty"}), g.setExpr(0))
	}
	if g.arrows && rng.Intn(5) == 0 {
		fmt.Fprintf(&sb, "%%inject %s -> %s%s;\n", g.term(), g.pick(g.cats), g.pick([]string{"", "/Flag1", " as C1"}))
	}
	if rng.Intn(8) == 0 {
		fmt.Fprintf(&sb, "%%expect %d;\n", rng.Intn(3))
	}
	if rng.Intn(12) == 0 {
		fmt.Fprintf(&sb, "%%expect-rr %d;\n", rng.Intn(3))
	}
	for i, nt := range g.nts {
		name := nt
		inline := rng.Intn(14) == 0 && (i > 0 || rng.Intn(10) == 0)
		if inline {
			sb.WriteString("inline ")
		}
		sb.WriteString(name)
		if ps := g.params[nt]; len(ps) > 0 {
			var ds []string
			for _, p := range ps {
				if strings.HasPrefix(p, "P") {
					ds = append(ds, g.pick([]string{"flag ", "flag ", "param "})+p+g.pick([]string{"", " = true", " = false", "", " = true", " = false", "", " = true", " = false", "", " = true", " = false", " = \"v\""}))
				} else {
					ds = append(ds, p)
				}
			}
			sb.WriteString("<" + strings.Join(ds, ", ") + ">")
		}
		if rng.Intn(30) == 0 {
			sb.WriteString(" [alias]")
		}
		if !inline && rng.Intn(3) == 0 {
			sb.WriteString(g.pick([]string{" {int}", " {*Node}", " {string}", " {std::vector<int>}"}))
		}
		if g.arrows && rng.Intn(3) == 0 {
			sb.WriteString(" -> " + g.pick(g.cats))
		}
		sb.WriteString(" :\n    ")
		nr := 1 + rng.Intn(3)
		var rs []string
		for j := 0; j < nr; j++ {
			r := g.rule(nt)
			if ps := g.params[nt]; len(ps) > 0 && g.chance(6) {
				r = "[" + g.pick(ps) + g.pick([]string{" == ", " != "}) + g.pick([]string{"\"v\"", "true", "1"}) + "] " + g.rhs(0)
			}
			rs = append(rs, r)
		}
		sb.WriteString(strings.Join(rs, "\n  | "))
		sb.WriteString(" ;\n")
	}
	if rng.Intn(8) == 0 {
		fmt.Fprintf(&sb, "extend %s :\n    %s ;\n", g.pick(append(g.nts, "Nosuch")), g.rule("N0"))
	}
	if rng.Intn(10) == 0 {
		sb.WriteString("%%\n${template go_parser.x}\n${end}\n")
	}
	return sb.String()
}

func c22Gen2(rng *rand.Rand, n int, _ []string) {
	r := &c22Runner{}
	defer r.close()
	stats := map[string]int{}
	for i := 0; i < n; i++ {
		g := &c22g{rng: rng, wild: []int{1000000, 40, 12}[rng.Intn(3)]}
		t := g.grammarWide()
		stats["target_"+g.target]++
		if rng.Intn(5) == 0 {
			t, _ = c22MutateOnce(rng, t, "")
		}
		out := c22Case(r, t, rng.Intn(4) == 0)
		stats[c22Classify(out)]++
	}
	for k, v := range stats {
		sx.Stat(k, v)
	}
}
