package main

import (
	"fmt"
	"math/rand"
	"strings"

	"github.com/inspirer/textmapper/lalr"
	"verif/harness/sx"
)

func init() {
	commands["c19.random"] = c19Random
}

// recoverDriver: VerifRun(mode, input); mode = "<input>:<stop after this many errors, 0 = never stop>".
func recoverDriver(g *cfg, recovering bool) func(p *genPkg) string {
	return func(p *genPkg) string {
		var sb strings.Builder
		fmt.Fprintf(&sb, `package %s

import (
	"fmt"
	"strings"
)

func VerifRun(mode string, input []byte) string {
	var idx, stopAfter int
	fmt.Sscanf(mode, "%%d:%%d", &idx, &stopAfter)
	var l Lexer
	l.Init(string(input))
	var p Parser
	var ev, errs strings.Builder
	nerr := 0
	listener := func(t NodeType, offset, endoffset int) { fmt.Fprintf(&ev, " (%%v %%d %%d)", t, offset, endoffset) }
`, p.name)
		if recovering {
			sb.WriteString(`	p.Init(func(se SyntaxError) bool {
		fmt.Fprintf(&errs, " (%d %d)", se.Offset, se.Endoffset)
		nerr++
		return stopAfter == 0 || nerr < stopAfter
	}, listener)
`)
		} else {
			sb.WriteString("\tp.Init(listener)\n\t_ = nerr\n")
		}
		sb.WriteString("\tvar err error\n\tswitch idx {\n")
		for i, in := range g.inputs {
			fn := "Parse"
			if len(g.inputs) > 1 {
				fn = "Parse" + g.symName(in.nt)
			}
			fmt.Fprintf(&sb, "\tcase %d:\n\t\terr = p.%s(&l)\n", i, fn)
		}
		sb.WriteString(`	}
	res := "accept"
	if se, ok := err.(SyntaxError); ok {
		res = fmt.Sprintf("syntax %d %d", se.Offset, se.Endoffset)
	} else if err != nil {
		res = "other"
	}
	return fmt.Sprintf("(%s (errors%s) (events%s))", res, errs.String(), ev.String())
}
`)
		return sb.String()
	}
}

// toTMErr renders the grammar; symbol index g.nterms-1 is the 'error' token (declared without a pattern) when
// withError is set; rules mentioning it are left out otherwise.
func (g *cfg) toTMErr(name string, o tmOpts, arrows [][]arrow, typeName func(int) string, withError bool) string {
	errT := g.nterms - 1
	var sb strings.Builder
	fmt.Fprintf(&sb, "language %s(go);\n\nlang = %q\npackage = \"verifgen/%s\"\neventBased = true\n", name, name, name)
	if o.optimize {
		sb.WriteString("optimizeTables = true\n")
	}
	for _, l := range o.extra {
		sb.WriteString(l + "\n")
	}
	sb.WriteString("\n:: lexer\n\n")
	for t := 1; t < errT; t++ {
		fmt.Fprintf(&sb, "'%c': /%c/\n", g.termChar(t), g.termChar(t))
	}
	sb.WriteString("whitespace: /[ ]+/ (space)\ninvalid_token:\n")
	if withError {
		sb.WriteString("error:\n")
	}
	sb.WriteString("\n:: parser\n\n%input ")
	for i, in := range g.inputs {
		if i > 0 {
			sb.WriteString(", ")
		}
		sb.WriteString(g.symName(in.nt))
	}
	sb.WriteString(";\n\n")
	for nt := 0; nt < g.nnonterms; nt++ {
		first := true
		for i, r := range g.rules {
			if r.lhs != g.nterms+nt {
				continue
			}
			hasErr := false
			for _, s := range r.rhs {
				if s == errT {
					hasErr = true
				}
			}
			if hasErr && !withError {
				continue
			}
			if first {
				fmt.Fprintf(&sb, "%s :\n    ", g.symName(r.lhs))
				first = false
			} else {
				sb.WriteString("\n  | ")
			}
			txt := g.ruleText(r, arrows[i], typeName)
			txt = strings.ReplaceAll(txt, fmt.Sprintf("'%c'", g.termChar(errT)), "error")
			sb.WriteString(txt)
		}
		if !first {
			sb.WriteString("\n;\n\n")
		}
	}
	return sb.String()
}

func c19Random(rng *rand.Rand, n int, args []string) {
	typeName := func(i int) string { return fmt.Sprintf("T%02d", i) }
	const ntypes = 5
	type gram struct {
		g      *cfg
		arrows [][]arrow
		fixws  bool
		rec    *genPkg // with error rules
		plain  *genPkg // the same grammar without the rules that mention 'error'
	}
	var grams []*gram
	var pkgs []*genPkg
	tried := 0
	for len(grams) < n && tried < 300*n {
		tried++
		g := listCFG(rng)
		if g == nil {
			continue
		}
		// append the error terminal and error rules: "X: error" / "X: error t" / "X: t error t'"
		errT := g.nterms
		shift := func(s int) int {
			if s >= g.nterms {
				return s + 1
			}
			return s
		}
		g2 := &cfg{nterms: g.nterms + 1, nnonterms: g.nnonterms}
		for _, r := range g.rules {
			nr := cfgRule{lhs: shift(r.lhs)}
			for _, s := range r.rhs {
				nr.rhs = append(nr.rhs, shift(s))
			}
			g2.rules = append(g2.rules, nr)
		}
		for _, in := range g.inputs {
			g2.inputs = append(g2.inputs, cfgInput{nt: shift(in.nt), eoi: in.eoi})
		}
		nerr := 0
		var withErr []cfgRule
		for nt := 0; nt < g2.nnonterms; nt++ {
			for _, r := range g2.rules {
				if r.lhs == g2.nterms+nt {
					withErr = append(withErr, r)
				}
			}
			if nt >= 1 && (rng.Intn(2) == 0 || (nt == g2.nnonterms-1 && nerr == 0)) {
				var rhs []int
				switch rng.Intn(4) {
				case 0:
					rhs = []int{errT}
				case 1:
					rhs = []int{errT, 1 + rng.Intn(errT-1)}
				case 2:
					rhs = []int{1 + rng.Intn(errT-1), errT, 1 + rng.Intn(errT-1)}
				default:
					rhs = []int{1 + rng.Intn(errT-1), errT}
				}
				withErr = append(withErr, cfgRule{lhs: g2.nterms + nt, rhs: rhs})
				nerr++
			}
		}
		g2.rules = withErr
		if nerr == 0 {
			continue
		}
		t, err := lalr.Compile(g2.toLalr(), lalr.Options{})
		if err != nil || t == nil || t.SR+t.RR > 0 {
			continue
		}
		ar := make([][]arrow, len(g2.rules))
		for i, r := range g2.rules {
			for _, a := range genArrows(rng, len(r.rhs), ntypes) {
				if a.start == a.end && a.start == len(r.rhs) && len(r.rhs) > 0 {
					continue
				}
				ar[i] = append(ar[i], a)
			}
		}
		o := tmOpts{optimize: rng.Intn(2) == 0}
		fw := rng.Intn(2) == 0
		if fw {
			o.extra = append(o.extra, "fixWhitespace = true")
		}
		gr := &gram{g: g2, arrows: ar, fixws: fw}
		name := fmt.Sprintf("r%04d", len(grams))
		gr.rec = &genPkg{name: name, tm: g2.toTMErr(name, o, ar, typeName, true), driver: recoverDriver(g2, true)}
		pname := fmt.Sprintf("q%04d", len(grams))
		gr.plain = &genPkg{name: pname, tm: g2.toTMErr(pname, o, ar, typeName, false), driver: recoverDriver(g2, false)}
		grams = append(grams, gr)
		pkgs = append(pkgs, gr.rec, gr.plain)
	}
	compileAll(pkgs)
	type sample struct {
		text  []byte
		toks  []int
		offs  [][2]int
		valid bool
	}
	var reqs []genRequest
	samples := make([][]sample, len(grams))
	modes := []string{"0:0", "0:1", "0:2"}
	for i, gr := range grams {
		if gr.rec.err != nil || gr.plain.err != nil || !gr.rec.g.Parser.IsRecovering {
			continue
		}
		g := gr.g
		errT := g.nterms - 1
		for s := 0; s < 16; s++ {
			budget := rng.Intn(8)
			tr := g.longTree(rng, g.inputs[0].nt, &budget)
			if tr == nil {
				continue
			}
			toks := tr.yield(nil)
			valid := true
			for _, t := range toks {
				if t == errT {
					valid = false
				}
			}
			if !valid {
				// a derivation through an error rule: replace 'error' by some broken text
				var nt []int
				for _, t := range toks {
					if t == errT {
						for k := rng.Intn(3); k > 0; k-- {
							nt = append(nt, 1+rng.Intn(errT-1))
						}
					} else {
						nt = append(nt, t)
					}
				}
				toks = nt
			} else if s%2 == 1 {
				valid = false
				for k := 1 + rng.Intn(2); k > 0; k-- {
					switch {
					case len(toks) > 0 && rng.Intn(3) == 0:
						p := rng.Intn(len(toks))
						toks = append(toks[:p:p], toks[p+1:]...)
					case len(toks) > 0 && rng.Intn(2) == 0:
						toks[rng.Intn(len(toks))] = 1 + rng.Intn(errT-1)
					default:
						p := rng.Intn(len(toks) + 1)
						toks = append(toks[:p:p], append([]int{1 + rng.Intn(errT-1)}, toks[p:]...)...)
					}
				}
			}
			if len(toks) > 40 {
				continue
			}
			var text []byte
			var offs [][2]int
			for _, t := range toks {
				if rng.Intn(5) == 0 {
					text = append(text, ' ')
				}
				offs = append(offs, [2]int{len(text), len(text) + 1})
				text = append(text, g.termChar(t))
			}
			if rng.Intn(4) == 0 {
				text = append(text, ' ')
			}
			samples[i] = append(samples[i], sample{text: text, toks: toks, offs: offs, valid: valid})
			for _, m := range modes {
				reqs = append(reqs, genRequest{pkg: gr.rec.name, mode: m, input: text})
			}
			reqs = append(reqs, genRequest{pkg: gr.plain.name, mode: "0:0", input: text})
		}
	}
	answers, err := buildAndRun(pkgs, reqs)
	if err != nil {
		fmt.Fprintln(os_stderr(), "c19:", err)
		exitCode(3)
	}
	ai := 0
	used := 0
	for i, gr := range grams {
		if gr.rec.err != nil || gr.plain.err != nil {
			e := gr.rec.err
			if e == nil {
				e = gr.plain.err
			}
			sx.Case("c19.nocompile", sx.List(sx.Str(gr.rec.tm), sx.Str(firstLines(e.Error(), 3))), "failed")
			continue
		}
		if !gr.rec.g.Parser.IsRecovering {
			sx.Stat("not_recovering", 1)
			continue
		}
		used++
		g := gr.g
		p := gr.rec
		gp := p.g.Parser
		tmap := make([]int, g.nterms)
		for t := 1; t < g.nterms-1; t++ {
			for _, sym := range p.g.Syms {
				if sym.Name == fmt.Sprintf("'%c'", g.termChar(t)) {
					tmap[t] = sym.Index
				}
			}
		}
		typeID := map[string]int{}
		if gp.Types != nil {
			for k, rt := range gp.Types.RangeTypes {
				typeID[rt.Name] = k + 1
			}
		}
		evs := make([]string, len(gp.Rules))
		for k, r := range gp.Rules {
			ty := 0
			if r.Type >= 0 {
				ty = typeID[gp.Types.RangeTypes[r.Type].Name]
			}
			var reps []string
			if r.Action > 0 {
				for _, rep := range gp.Actions[r.Action].Report {
					reps = append(reps, sx.List(sx.Int(rep.Start), sx.Int(rep.End), sx.Int(typeID[gp.Types.RangeTypes[rep.Type].Name])))
				}
			}
			evs[k] = sx.List(sx.Int(ty), sx.List(reps...), sx.Bool(p.g.HasTrailingNulls(*r)))
		}
		var afterErr []int
		for _, set := range p.g.Sets {
			if set.Name == "afterErr" {
				afterErr = append(afterErr, set.Terminals...)
			}
		}
		var ins, outs []string
		for _, s := range samples[i] {
			toks := make([]string, len(s.toks))
			for q, t := range s.toks {
				toks[q] = sx.List(sx.Int(tmap[t]), sx.Int(s.offs[q][0]), sx.Int(s.offs[q][1]))
			}
			var o []string
			for range modes {
				o = append(o, answers[ai])
				ai++
			}
			plain := answers[ai]
			ai++
			ins = append(ins, sx.List(sx.Int(len(s.text)), sx.Bool(s.valid), sx.List(toks...)))
			outs = append(outs, sx.List(sx.List(o...), plain))
			if s.valid {
				sx.Stat("inputs_valid", 1)
			} else {
				sx.Stat("inputs_broken", 1)
			}
		}
		names := []string{"NoType"}
		if gp.Types != nil {
			for _, rt := range gp.Types.RangeTypes {
				names = append(names, rt.Name)
			}
		}
		in := sx.List(tmGrammarStr(p.g), tablesOf(gp.Tables), sx.List(evs...), sx.Bool(gr.fixws), sx.Int(gp.ErrorSymbol), sx.Ints(afterErr), sx.List(names...), sx.List(ins...))
		sx.Case("c19.recover", in, sx.List(outs...))
	}
	sx.Stat("grammars_tried", tried)
	sx.Stat("grammars_used", used)
}
