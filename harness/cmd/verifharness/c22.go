package main

// C22 — the grammar compiler never crashes and reports in-range diagnostics.
//
// c22.mutate / c22.random / c22.seeds feed grammar texts to compiler.Compile running in a WORKER SUBPROCESS
// of this binary (c22.worker), so that a panic, an os.Exit/log.Fatal and a hang are all observable: the
// parent sees the worker die or time out, records the case as (crash ...) / (timeout) and starts a new
// worker. Every status.Error that comes back is printed with its origin (filename class, offset, end
// offset, line, column) and message; the extracted model re-derives the origin and the oracle judges it.

import (
	"bufio"
	"bytes"
	"context"
	"fmt"
	"io"
	"log"
	"math/rand"
	"os"
	"os/exec"
	"path/filepath"
	"regexp"
	"runtime/debug"
	"sort"
	"strconv"
	"strings"
	"time"

	"github.com/inspirer/textmapper/compiler"
	"github.com/inspirer/textmapper/status"
	"verif/harness/sx"
)

func init() {
	commands["c22.worker"] = c22Worker
	commands["c22.mutate"] = c22Mutate
	commands["c22.random"] = c22Random
	commands["c22.seeds"] = c22Seeds
	commands["c22.linecol"] = c22LineCol
	commands["c22.files"] = c22Files
}

const c22Path = "g.tm"

// numbers inside panic values (indices, lengths) vary from grammar to grammar; the site does not
var c22Norm = regexp.MustCompile(`-?[0-9]+`)
var c22SiteRe = regexp.MustCompile(`^[a-z_]+\.go:[0-9]+:`)

func repoDir() string {
	if d := os.Getenv("VERIF_REPO"); d != "" {
		return d
	}
	return "/repo"
}

// ---------------------------------------------------------------- worker side

// c22CompileOut runs compiler.Compile and renders the outcome. A panic in this goroutine is turned into
// (crash ...) here; os.Exit and panics elsewhere kill the worker and are seen by the parent.
func c22CompileOut(text string, checkOnly bool) (out string) {
	defer func() {
		if r := recover(); r != nil {
			out = sx.List("crash", sx.Str(firstLine(fmt.Sprint("panic at ", panicSite(string(debug.Stack())), ": ", c22Norm.ReplaceAllString(fmt.Sprint(r), "N")))))
		}
	}()
	_, err := compiler.Compile(context.Background(), c22Path, text, compiler.Params{CheckOnly: checkOnly, Verbose: true})
	if err == nil {
		return sx.List("ok")
	}
	return errsStr(status.FromError(err), c22Path)
}

// panicSite names the innermost textmapper function on a panicking goroutine's stack.
func panicSite(stack string) string {
	lines := strings.Split(stack, "\n")
	seenPanic := false
	for _, l := range lines {
		if strings.HasPrefix(l, "panic(") {
			seenPanic = true
			continue
		}
		if seenPanic && strings.HasPrefix(l, "github.com/inspirer/textmapper/") {
			l = strings.TrimPrefix(l, "github.com/inspirer/textmapper/")
			if i := strings.LastIndexByte(l, '('); i > 0 {
				l = l[:i]
			}
			return l
		}
	}
	return "?"
}

func firstLine(s string) string {
	if i := strings.IndexByte(s, '\n'); i >= 0 {
		s = s[:i]
	}
	if len(s) > 200 {
		s = s[:200]
	}
	return s
}

// errsStr prints (errs (fileclass offset endoffset line column msg) ...); fileclass 1 = the compiled
// path, 0 = no filename (origin-less), 2 = some other name.
func errsStr(st status.Status, path string) string {
	parts := []string{"errs"}
	for _, e := range st {
		fc := 2
		switch e.Origin.Filename {
		case path:
			fc = 1
		case "":
			fc = 0
		}
		parts = append(parts, sx.List(sx.Int(fc), sx.Int(e.Origin.Offset), sx.Int(e.Origin.EndOffset),
			sx.Int(e.Origin.Line), sx.Int(e.Origin.Column), sx.Str(firstLine(e.Msg))))
	}
	return sx.List(parts...)
}

// protocol: parent writes "<checkOnly 0|1> <len>\n<bytes>", worker answers one line.
func c22Worker(_ *rand.Rand, _ int, _ []string) {
	debug.SetMaxStack(64 << 20)  // runaway recursion is reported after 64 MB instead of 1 GB
	log.SetFlags(log.Lshortfile) // log.Fatal sites identify themselves as file:line, no timestamps
	in := bufio.NewReaderSize(os.Stdin, 1<<20)
	w := bufio.NewWriter(os.Stdout)
	for {
		hdr, err := in.ReadString('\n')
		if err != nil {
			return
		}
		var co, n int
		if _, err := fmt.Sscanf(hdr, "%d %d", &co, &n); err != nil {
			return
		}
		buf := make([]byte, n)
		if _, err := io.ReadFull(in, buf); err != nil {
			return
		}
		out := c22CompileOut(string(buf), co == 1)
		w.WriteString(out)
		w.WriteByte('\n')
		w.Flush()
	}
}

// ---------------------------------------------------------------- parent side

type c22Proc struct {
	cmd    *exec.Cmd
	stdin  io.WriteCloser
	lines  chan string
	stderr *bytes.Buffer
}

func c22Start() *c22Proc {
	p := &c22Proc{stderr: &bytes.Buffer{}}
	p.cmd = exec.Command(os.Args[0], "c22.worker")
	p.cmd.Stderr = p.stderr
	p.stdin, _ = p.cmd.StdinPipe()
	so, _ := p.cmd.StdoutPipe()
	if err := p.cmd.Start(); err != nil {
		fmt.Fprintln(os.Stderr, "c22: cannot start worker:", err)
		exitCode(3)
	}
	p.lines = make(chan string, 1)
	go func() {
		r := bufio.NewReaderSize(so, 1<<20)
		for {
			l, err := r.ReadString('\n')
			if err != nil {
				close(p.lines)
				return
			}
			p.lines <- strings.TrimSuffix(l, "\n")
		}
	}()
	return p
}

func (p *c22Proc) kill() {
	p.stdin.Close()
	p.cmd.Process.Kill()
	p.cmd.Wait()
}

type c22Runner struct {
	p                        *c22Proc
	crashes, timeouts, calls int
	timeout                  time.Duration
}

func (r *c22Runner) run(text string, checkOnly bool) string {
	if r.p == nil {
		r.p = c22Start()
	}
	if r.timeout == 0 {
		r.timeout = 60 * time.Second
	}
	r.calls++
	co := 0
	if checkOnly {
		co = 1
	}
	go func(p *c22Proc) {
		fmt.Fprintf(p.stdin, "%d %d\n", co, len(text))
		io.WriteString(p.stdin, text)
	}(r.p)
	select {
	case l, ok := <-r.p.lines:
		if ok {
			if strings.HasPrefix(l, "(crash") {
				r.crashes++
			}
			return l
		}
		// the worker died: os.Exit / log.Fatal / panic in another goroutine / runtime fatal error
		r.p.cmd.Wait()
		msg := strings.TrimSpace(r.p.stderr.String())
		if strings.Contains(msg, "stack overflow") {
			// name the function that recurses: the most frequent textmapper frame
			cnt := map[string]int{}
			best := "?"
			for _, l := range strings.Split(msg, "\n") {
				if strings.HasPrefix(l, "github.com/inspirer/textmapper/") {
					if i := strings.LastIndexByte(l, '('); i > 0 {
						l = l[:i]
					}
					l = strings.TrimPrefix(l, "github.com/inspirer/textmapper/")
					cnt[l]++
					if cnt[l] > cnt[best] || cnt[l] == cnt[best] && l < best {
						best = l
					}
				}
			}
			msg = "stack overflow in " + best
		}
		if i := strings.IndexByte(msg, '\n'); i >= 0 {
			msg = msg[:i]
		}
		// keep the "file.go:123:" prefix that log.Lshortfile adds; numbers in the text itself vary
		site := ""
		if m := c22SiteRe.FindString(msg); m != "" {
			site, msg = m, msg[len(m):]
		}
		msg = site + c22Norm.ReplaceAllString(msg, "N")
		if len(msg) > 120 {
			msg = msg[:120]
		}
		st := "exit " + strconv.Itoa(r.p.cmd.ProcessState.ExitCode())
		r.p.kill()
		r.p = nil
		r.crashes++
		return sx.List("crash", sx.Str(st+": "+msg))
	case <-time.After(r.timeout):
		r.p.kill()
		r.p = nil
		r.timeouts++
		return sx.List("timeout")
	}
}

func (r *c22Runner) close() {
	if r.p != nil {
		r.p.kill()
	}
	sx.Stat("worker_calls", r.calls)
	sx.Stat("crashes", r.crashes)
	sx.Stat("timeouts", r.timeouts)
}

func c22Case(r *c22Runner, text string, checkOnly bool) string {
	out := r.run(text, checkOnly)
	sx.Case("c22.compile", sx.List(sx.Bool(checkOnly), sx.Str(text)), out)
	return out
}

// ---------------------------------------------------------------- seeds and mutations

type c22Seed struct {
	name string
	text string
}

var c22Markers = strings.NewReplacer("«", "", "»", "")

func c22LoadSeeds(maxLen int) []c22Seed {
	var res []c22Seed
	root := repoDir()
	var files []string
	for _, pat := range []string{"parsers/*/*.tm", "testing/*/*/*.tm", "compiler/testdata/*.tm", "compiler/testdata/*.tmerr"} {
		m, _ := filepath.Glob(filepath.Join(root, pat))
		files = append(files, m...)
	}
	sort.Strings(files)
	for _, f := range files {
		b, err := os.ReadFile(f)
		if err != nil || len(b) > maxLen {
			continue
		}
		t := string(b)
		if strings.HasSuffix(f, ".tmerr") {
			t = c22Markers.Replace(t) // the test suite's range markers are not part of the grammar
		}
		rel, _ := filepath.Rel(root, f)
		res = append(res, c22Seed{rel, t})
	}
	res = append(res, c22Small...)
	return res
}

// hand-written small grammars touching features that the shipped ones use rarely
var c22Small = []c22Seed{
	{"small/expr", "language e(go);\n:: lexer\nnum: /[0-9]+/\n'+': /\\+/\n'*': /\\*/\n'(': /\\(/\n')': /\\)/\n:: parser\n%left '+';\n%left '*';\n%input expr;\nexpr : expr '+' expr | expr '*' expr | '(' expr ')' | num ;\n"},
	{"small/tmpl", "language t(go);\n:: lexer\na: /a/\nb: /b/\n:: parser\n%flag F;\ninput : X<+F> Y<~F> ;\nX<flag F> : [F] a | [!F] b ;\nY<flag F> : (a separator b)+ | b? ;\n"},
	{"small/sets", "language s(go);\n:: lexer\na: /a/\nb: /b/\nc: /c/\nerror:\n:: parser\ninput : set(first A | ~b) A ;\nA : a b | c A | error ;\n"},
	{"small/la", "language l(go);\n:: lexer\na: /a/\nb: /b/\n:: parser\ninput : (?= P) a b | (?= !P) a a ;\nP : a b ;\n"},
	{"small/arrow", "language r(go);\neventBased = true\neventFields = true\n:: lexer\nid: /[a-z]+/\n',': /,/\n:: parser\ninput -> File : list=(Item separator ',')+ ;\nItem -> Item : name=id ;\n"},
	{"small/states", "language q(go);\n:: lexer\n%s initial;\n%x inComment;\n<initial> open: /\\/\\*/ { l.State = StateInComment }\n<inComment> {\n  close: /\\*\\// { l.State = StateInitial }\n  any: /[^*]+|\\*/\n}\nid: /[a-z]+/ (class)\nkw: /if/\n:: parser\ninput : id | kw | open any close ;\n"},
	{"small/utf8", "language u(go);\n# комментарий с не-ASCII: «ß» 😀\n:: lexer\n'é': /é/\nname: /[\\p{L}]+/  # αβγ\n:: parser\ninput : 'é' name ;  # 日本語\n"},
}

var c22Tokens = []string{":", ";", "|", "(", ")", "{", "}", "[", "]", "<", ">", ",", "=", "+=", "->", "?", "*", "+", "~", "&", "!", "$", "@", ".",
	"::", ":: lexer", ":: parser", "%input", "%left", "%right", "%nonassoc", "%flag", "%param", "%lookahead", "%interface", "%assert empty", "%assert nonempty",
	"%generate", "%expect 1", "%expect-rr 1", "%inject", "%empty", "%prec", "%s", "%x", "%%", "set(", "first", "last", "follow", "precede", "separator",
	"error", "invalid_token", "eoi", "input", "language", "true", "false", "no-eoi", "as", "with", "extend", "inline", "void", "returns", "class", "space",
	"layout", "implements", "(?=", "(?= !", ".greedy", "/x/", "/[a-z/", "/a{2,1}/", "/(/", "/\\p{Foo}/", "/{undefined}/", "''", "'a'", "\"q\"", "'\\", "123", "-1",
	"{ $$ = $1 }", "{ ${left()} }", "/*", "*/", "#", "é", "😀", "\xff", "\x00", "\r\n", "\n", "\t"}

func c22Idents(text string) []string {
	seen := map[string]bool{}
	var res []string
	start := -1
	for i := 0; i <= len(text); i++ {
		isID := i < len(text) && (text[i] == '_' || text[i] >= 'a' && text[i] <= 'z' || text[i] >= 'A' && text[i] <= 'Z' || start >= 0 && text[i] >= '0' && text[i] <= '9')
		if isID && start < 0 {
			start = i
		}
		if !isID && start >= 0 {
			w := text[start:i]
			if !seen[w] && len(res) < 400 {
				seen[w] = true
				res = append(res, w)
			}
			start = -1
		}
	}
	return res
}

// mutate applies one random edit; returns the new text and the name of the edit.
func c22MutateOnce(rng *rand.Rand, t string, other string) (string, string) {
	if len(t) == 0 {
		return c22Tokens[rng.Intn(len(c22Tokens))], "ins-token"
	}
	pos := rng.Intn(len(t) + 1)
	lines := func() []string { return strings.SplitAfter(t, "\n") }
	switch rng.Intn(14) {
	case 0: // delete a byte
		if pos < len(t) {
			return t[:pos] + t[pos+1:], "del-byte"
		}
		return t[:len(t)-1], "del-byte"
	case 1: // delete a range
		n := 1 + rng.Intn(12)
		end := pos + n
		if end > len(t) {
			end = len(t)
		}
		return t[:pos] + t[end:], "del-range"
	case 2: // insert a random byte
		b := byte(rng.Intn(256))
		if rng.Intn(2) == 0 {
			const cs = " \n\t:;|(){}[]<>/\\'\"%#=+-*?!~&,.$@aZ_09"
			b = cs[rng.Intn(len(cs))]
		}
		return t[:pos] + string([]byte{b}) + t[pos:], "ins-byte"
	case 3: // swap adjacent bytes
		if pos+1 < len(t) {
			b := []byte(t)
			b[pos], b[pos+1] = b[pos+1], b[pos]
			return string(b), "swap-bytes"
		}
		return t + ";", "ins-byte"
	case 4: // truncate
		return t[:pos], "truncate"
	case 5: // duplicate a line
		ls := lines()
		i := rng.Intn(len(ls))
		ls = append(ls[:i+1], ls[i:]...)
		return strings.Join(ls, ""), "dup-line"
	case 6: // delete a line
		ls := lines()
		i := rng.Intn(len(ls))
		return strings.Join(append(ls[:i:i], ls[i+1:]...), ""), "del-line"
	case 7: // swap two lines
		ls := lines()
		i, j := rng.Intn(len(ls)), rng.Intn(len(ls))
		ls[i], ls[j] = ls[j], ls[i]
		return strings.Join(ls, ""), "swap-lines"
	case 8, 9: // insert a token
		tok := c22Tokens[rng.Intn(len(c22Tokens))]
		return t[:pos] + " " + tok + " " + t[pos:], "ins-token"
	case 10: // replace one identifier occurrence by another identifier of the text (semantic errors)
		ids := c22Idents(t)
		if len(ids) >= 2 {
			a, b := ids[rng.Intn(len(ids))], ids[rng.Intn(len(ids))]
			if i := strings.Index(t[pos:], a); i >= 0 {
				return t[:pos+i] + b + t[pos+i+len(a):], "rename-one"
			}
			return strings.Replace(t, a, b, 1), "rename-one"
		}
		return t + "x", "ins-byte"
	case 11: // crossover with another seed at line boundaries
		if other != "" {
			ls, lo := lines(), strings.SplitAfter(other, "\n")
			i, j := rng.Intn(len(ls)+1), rng.Intn(len(lo)+1)
			return strings.Join(ls[:i], "") + strings.Join(lo[j:], ""), "crossover"
		}
		return t[:pos], "truncate"
	case 12: // move a line elsewhere
		ls := lines()
		i := rng.Intn(len(ls))
		l := ls[i]
		ls = append(ls[:i:i], ls[i+1:]...)
		j := rng.Intn(len(ls) + 1)
		ls = append(ls[:j:j], append([]string{l}, ls[j:]...)...)
		return strings.Join(ls, ""), "move-line"
	default: // replace a byte
		if pos < len(t) {
			b := []byte(t)
			b[pos] = byte(rng.Intn(256))
			return string(b), "repl-byte"
		}
		return t + "\x80", "ins-byte"
	}
}

func c22Classify(out string) string {
	switch {
	case strings.HasPrefix(out, "(ok"):
		return "out_ok"
	case strings.HasPrefix(out, "(errs"):
		if strings.HasPrefix(out, "(errs (0 ") {
			return "out_errs_originless"
		}
		return "out_errs"
	case strings.HasPrefix(out, "(crash"):
		return "out_crash"
	}
	return "out_timeout"
}

// c22.mutate: n mutated grammar texts (1..4 edits each) from the shipped grammars, the compiler's test
// data and small hand-written grammars. Large seeds (> 20 kB) are used for about 1 case in 40.
func c22Mutate(rng *rand.Rand, n int, _ []string) {
	seeds := c22LoadSeeds(1 << 20)
	var small, large []c22Seed
	for _, s := range seeds {
		if len(s.text) > 20000 {
			large = append(large, s)
		} else {
			small = append(small, s)
		}
	}
	sx.Stat("seeds", len(seeds))
	r := &c22Runner{}
	defer r.close()
	stats := map[string]int{}
	for i := 0; i < n; i++ {
		pool := small
		if len(large) > 0 && rng.Intn(40) == 0 {
			pool = large
		}
		s := pool[rng.Intn(len(pool))]
		other := small[rng.Intn(len(small))].text
		t := s.text
		k := 1 + rng.Intn(4)
		for j := 0; j < k; j++ {
			var name string
			t, name = c22MutateOnce(rng, t, other)
			stats["edit_"+name]++
		}
		checkOnly := len(t) > 20000 || rng.Intn(3) == 0
		out := c22Case(r, t, checkOnly)
		stats[c22Classify(out)]++
	}
	for k, v := range stats {
		sx.Stat(k, v)
	}
}

// c22.seeds: every seed unchanged (valid grammars must compile; .tmerr files must give in-range errors),
// then every seed truncated at n evenly spread offsets.
func c22Seeds(rng *rand.Rand, n int, _ []string) {
	seeds := c22LoadSeeds(1 << 20)
	r := &c22Runner{}
	defer r.close()
	stats := map[string]int{}
	for _, s := range seeds {
		out := c22Case(r, s.text, len(s.text) > 20000)
		stats[c22Classify(out)]++
		if len(s.text) > 20000 {
			continue
		}
		for j := 1; j <= n; j++ {
			cut := len(s.text) * j / (n + 1)
			out := c22Case(r, s.text[:cut], true)
			stats[c22Classify(out)]++
		}
	}
	for k, v := range stats {
		sx.Stat(k, v)
	}
}

// c22.random: unstructured input: random bytes, random token soups, random tokens after a valid header.
func c22Random(rng *rand.Rand, n int, _ []string) {
	r := &c22Runner{}
	defer r.close()
	stats := map[string]int{}
	for i := 0; i < n; i++ {
		var sb strings.Builder
		switch rng.Intn(4) {
		case 0:
			k := rng.Intn(60)
			for j := 0; j < k; j++ {
				sb.WriteByte(byte(rng.Intn(256)))
			}
		case 1:
			k := rng.Intn(40)
			for j := 0; j < k; j++ {
				sb.WriteString(c22Tokens[rng.Intn(len(c22Tokens))])
				sb.WriteByte(" \n"[rng.Intn(2)])
			}
		default:
			sb.WriteString("language x(go);\n:: lexer\na: /a/\nb: /b/\n")
			if rng.Intn(2) == 0 {
				sb.WriteString(":: parser\ninput : a ;\n")
			}
			k := rng.Intn(30)
			for j := 0; j < k; j++ {
				if rng.Intn(3) == 0 {
					sb.WriteString([]string{"a", "b", "input", "x", "Y"}[rng.Intn(5)])
				} else {
					sb.WriteString(c22Tokens[rng.Intn(len(c22Tokens))])
				}
				sb.WriteByte(" \n"[rng.Intn(2)])
			}
		}
		out := c22Case(r, sb.String(), rng.Intn(2) == 0)
		stats[c22Classify(out)]++
	}
	for k, v := range stats {
		sx.Stat(k, v)
	}
}

// c22.linecol: ast.Node.LineColumn / SourceRange on random texts and offsets, through the public API:
// parse a text made of identifiers and newlines as a grammar? Not possible without a valid tree, so the
// line/column computation is reached through the diagnostics above; this command instead checks the
// arithmetic on hostile texts (CR, CRLF, no final newline, empty lines, non-ASCII) by asking Compile for an
// error at a chosen place: an undefined symbol reference placed at a random position of a padded grammar.
func c22LineCol(rng *rand.Rand, n int, _ []string) {
	r := &c22Runner{}
	defer r.close()
	pads := []string{"\n", "\n\n", " ", "\t", "\r\n", "\r", "# é😀\n", "/* a\n b */", "  \n", "# x\n"}
	stats := map[string]int{}
	for i := 0; i < n; i++ {
		pad := func() string {
			var sb strings.Builder
			k := rng.Intn(6)
			for j := 0; j < k; j++ {
				sb.WriteString(pads[rng.Intn(len(pads))])
			}
			return sb.String()
		}
		var sb strings.Builder
		sb.WriteString(pad() + "language x(go);" + pad() + ":: lexer" + pad() + "\na: /a/" + pad() + "\n:: parser" + pad() + "\ninput : a " + pad())
		k := 1 + rng.Intn(4)
		for j := 0; j < k; j++ {
			sb.WriteString("undef" + strconv.Itoa(j) + pad() + " ")
		}
		sb.WriteString(";" + pad())
		if rng.Intn(3) == 0 {
			sb.WriteString("\n%input " + pad() + "nosuch;" + pad())
		}
		out := c22Case(r, sb.String(), true)
		stats[c22Classify(out)]++
	}
	for k, v := range stats {
		sx.Stat(k, v)
	}
}

// c22.files: the given files, unchanged (witness replays).
func c22Files(_ *rand.Rand, _ int, files []string) {
	r := &c22Runner{}
	defer r.close()
	for _, f := range files {
		b, err := os.ReadFile(f)
		if err != nil {
			fmt.Fprintln(os.Stderr, err)
			exitCode(2)
		}
		c22Case(r, string(b), false)
	}
}
