package main

// C19 on the shipped recovering parsers (parsers/js with its hand-written loop parser_impl.go, parsers/tm,
// parsers/test): inputs with several syntax errors close to each other; observed: termination, panics, the
// ranges passed to the error handler.

import (
	"context"
	"fmt"
	"math/rand"
	"os"
	"path/filepath"
	"sort"
	"strings"

	"github.com/inspirer/textmapper/parsers/js"
	"github.com/inspirer/textmapper/parsers/test"
	"github.com/inspirer/textmapper/parsers/tm"
	"verif/harness/sx"
)

func init() {
	commands["c19.shipped"] = c19Shipped
}

var c19JSValid = []string{
	"var a = 1;\nfunction f(x, y) { return x + y * 2; }\n",
	"class A extends B { constructor() { super(); this.x = [1, 2, ...r]; } get y() { return `t${this.x}`; } }\n",
	"for (let i = 0; i < 10; i++) { if (i % 2) continue; else break; }\nlabel: while (true) { do { x-- } while (x) }\n",
	"function f() { a = (1); b = (2)\n c }\nx = y\n++z\n",
	"try { throw new Error('x') } catch (e) { console.log(e ?? 1, a?.b) } finally { }\nswitch (x) { case 1: break; default: y = /re/g.test(s) ? 1 : 2 }\n",
	"const f = async (x, y) => { await x; }; const g = (a) => a + 1;\nif (a) b; else c\nd\n",
}

// two or more errors fewer than four shifted tokens apart, recovery that has to skip to a new line, '}' or ')'
var c19JSBroken = []string{
	"function f() { a = ( ; b = ) \n c }",
	"function f() { a = ( ; b = ) ; c }",
	"a = ( ; ) \n b = ] ; \n c",
	"{ x = ( ; y = [ ; } \n z",
	"if ( ; ) \n a ; else ; ) b",
	"function ( { ; ) ; } ) }",
	"var = ; var = \n ; x",
	"class { ( ; ) \n } ; )",
	"a ? ; : ) \n b ( ; ] }",
}

var c19TestValid = []string{
	" decl2 decl1(a)", "{decl2}", "{-decl2}", "if(as) decl2 else if(as) decl2 else decl2", "{decl1(a.b.c.d123)}",
	"42 7 9 ", "{3 9 11 9}", " test (   )  ", "test { decl1 }", "if(f_a as f_a) decl2",
}

var c19TestBroken = []string{"{ decl1( decl2 ) decl1( }", "if ( ) ( decl2 else ( ) decl2", "{ { -- ( } ) } decl2", "eval ( 1 + ) ( 2 * ) decl2", "decl1 ( . . ) { ( } decl2"}

func c19Shipped(rng *rand.Rand, n int, _ []string) {
	repo := os.Getenv("VERIF_REPO")
	if repo == "" {
		repo = "/repo"
	}
	var tmValid []string
	files, _ := filepath.Glob(filepath.Join(repo, "parsers", "*", "*.tm"))
	more, _ := filepath.Glob(filepath.Join(repo, "testing", "*", "*", "*.tm"))
	files = append(files, more...)
	sort.Strings(files)
	for _, f := range files {
		if data, err := os.ReadFile(f); err == nil && len(data) < 20000 {
			tmValid = append(tmValid, string(data))
		}
	}
	tmBroken := []string{
		"language l(go);\n:: lexer\na: /a/ ( ;\nb: ) /b/\n:: parser\nx: a ( ; b ) ;\n",
		"language l(go);\n:: parser\nx: ( ; y: ) | ;\nz: [ ; ] ;\n",
		"language l(go);\n:: lexer\n= = ;\n:: parser\n%input ; %input ( ;\nx: ;\n",
	}
	type target struct {
		name          string
		valid, broken []string
		run           func(text string, errs *[][2]int) string
	}
	// one Parser per target, initialised once and reused for every second input
	reuse := false
	failed := false // Parse returned a syntax error
	var cur *[][2]int
	var jsP js.Parser
	jsP.Init(func(e js.SyntaxError) bool { *cur = append(*cur, [2]int{e.Offset, e.Endoffset}); return true }, func(t js.NodeType, offset, endoffset int) {})
	var tmP tm.Parser
	tmP.Init(func(e tm.SyntaxError) bool { *cur = append(*cur, [2]int{e.Offset, e.Endoffset}); return true }, func(t tm.NodeType, offset, endoffset int) {})
	targets := []target{
		{"js", c19JSValid, c19JSBroken, func(text string, errs *[][2]int) string {
			return guarded(func() {
				l := func(t js.NodeType, offset, endoffset int) {}
				var s js.TokenStream
				s.Init(text, l)
				var err error
				if reuse {
					cur = errs
					err = jsP.ParseModule(context.Background(), &s)
				} else {
					var p js.Parser
					p.Init(func(e js.SyntaxError) bool { *errs = append(*errs, [2]int{e.Offset, e.Endoffset}); return true }, l)
					err = p.ParseModule(context.Background(), &s)
				}
				_, failed = err.(js.SyntaxError)
			})
		}},
		{"tm", tmValid, tmBroken, func(text string, errs *[][2]int) string {
			return guarded(func() {
				l := func(t tm.NodeType, offset, endoffset int) {}
				var s tm.TokenStream
				s.Init(text, l)
				var err error
				if reuse {
					cur = errs
					err = tmP.ParseFile(context.Background(), &s)
				} else {
					var p tm.Parser
					p.Init(func(e tm.SyntaxError) bool { *errs = append(*errs, [2]int{e.Offset, e.Endoffset}); return true }, l)
					err = p.ParseFile(context.Background(), &s)
				}
				_, failed = err.(tm.SyntaxError)
			})
		}},
		{"test", c19TestValid, c19TestBroken, func(text string, errs *[][2]int) string {
			return guarded(func() {
				var l test.Lexer
				l.Init(text)
				var p test.Parser
				p.Init(func(t test.NodeType, flags test.NodeFlags, offset, endoffset int) {})
				if err := p.ParseTest(context.Background(), &l); err != nil {
					if se, ok := err.(test.SyntaxError); ok {
						*errs = append(*errs, [2]int{se.Offset, se.Endoffset})
					}
				}
			})
		}},
	}
	glue := []string{" ", "\n", " ; ", " ) ", " } ", " ( ", "\n}\n", " ] "}
	for i := 0; i < n; i++ {
		tg := targets[[]int{0, 0, 1, 2}[i%4]]
		var text string
		valid := 0
		switch r := rng.Intn(10); {
		case r < 2 || i < len(tg.valid):
			text = tg.valid[(i/4)%len(tg.valid)]
			if i >= 4*len(tg.valid) {
				text = tg.valid[rng.Intn(len(tg.valid))]
			}
			valid = 1
		case r < 5:
			// broken fragments next to each other and inside valid text
			var sb strings.Builder
			for k := 1 + rng.Intn(3); k > 0; k-- {
				if rng.Intn(3) == 0 {
					v := tg.valid[rng.Intn(len(tg.valid))]
					if len(v) > 300 {
						v = v[:300]
					}
					sb.WriteString(v)
				} else {
					sb.WriteString(tg.broken[rng.Intn(len(tg.broken))])
				}
				sb.WriteString(glue[rng.Intn(len(glue))])
			}
			text = sb.String()
		default:
			text = tg.valid[rng.Intn(len(tg.valid))]
			if rng.Intn(2) == 0 {
				text = tg.broken[rng.Intn(len(tg.broken))]
			}
			for k := 1 + rng.Intn(4); k > 0; k-- {
				text = mutateText(rng, text)
			}
		}
		if len(text) > 4000 {
			text = text[:4000]
			valid = 0
		}
		var errs [][2]int
		reuse = (i/4)%2 == 1
		failed = false
		st := tg.run(text, &errs)
		if st == "ok" && failed && len(errs) == 0 {
			st = "unreported" // Parse returned a syntax error that the handler never saw
		}
		if strings.HasPrefix(st, "panic:") {
			st = "panic"
		}
		parts := make([]string, len(errs))
		for j, e := range errs {
			parts[j] = sx.List(sx.Int(e[0]), sx.Int(e[1]))
		}
		sx.Case("c19.shipped", sx.List(sx.Str(tg.name), sx.Int(valid), sx.Int(len(text)), sx.Str(text)), sx.List(st, sx.List(parts...)))
		sx.Stat(fmt.Sprintf("shipped_%s_valid%d", tg.name, valid), 1)
		if len(errs) >= 2 {
			sx.Stat("shipped_inputs_with_two_or_more_reported_errors", 1)
		}
	}
}
