package main

// C23 — language server consistency. Random histories (didOpen / didChange / didClose / definition over
// several documents, non-ASCII and astral text, odd versions) are played against the REAL server: the
// `textmapper` binary is built from the repo under verification and spoken to over stdio with LSP
// framing. The oracle values of the model (compile diagnostics and identifier occurrences per content)
// are obtained in-process from compiler.Compile and ls.VerifCollectIDs.

import (
	"bufio"
	"context"
	"encoding/json"
	"fmt"
	"io"
	"math/rand"
	"os"
	"os/exec"
	"path/filepath"
	"sort"
	"strconv"
	"strings"
	"time"
	"unicode/utf16"
	"unicode/utf8"

	"github.com/inspirer/textmapper/compiler"
	"github.com/inspirer/textmapper/ls"
	"github.com/inspirer/textmapper/status"
	"verif/harness/sx"
)

func init() {
	commands["c23.history"] = c23History
	commands["c23.position"] = c23Position
}

// ---------------------------------------------------------------- the server process

func c23BuildServer() (bin string, cleanup func()) {
	dir, err := os.MkdirTemp("", "verif-c23-")
	if err != nil {
		fmt.Fprintln(os.Stderr, err)
		exitCode(2)
	}
	bin = filepath.Join(dir, "textmapper")
	cmd := exec.Command("go", "build", "-o", bin, "./cmd/textmapper")
	cmd.Dir = repoDir()
	cmd.Env = append(os.Environ(), "GOFLAGS=-mod=mod", "GOPROXY=off")
	if out, err := cmd.CombinedOutput(); err != nil {
		os.RemoveAll(dir)
		fmt.Fprintf(os.Stderr, "c23: cannot build textmapper: %v\n%s", err, out)
		exitCode(2)
	}
	return bin, func() { os.RemoveAll(dir) }
}

type lspSession struct {
	cmd   *exec.Cmd
	stdin io.WriteCloser
	msgs  chan map[string]any
}

func lspStart(bin string) *lspSession {
	s := &lspSession{msgs: make(chan map[string]any, 1024)}
	s.cmd = exec.Command(bin, "ls")
	s.stdin, _ = s.cmd.StdinPipe()
	so, _ := s.cmd.StdoutPipe()
	if err := s.cmd.Start(); err != nil {
		fmt.Fprintln(os.Stderr, "c23: cannot start server:", err)
		exitCode(2)
	}
	go func() {
		defer close(s.msgs)
		r := bufio.NewReaderSize(so, 1<<16)
		for {
			n := -1
			for {
				l, err := r.ReadString('\n')
				if err != nil {
					return
				}
				l = strings.TrimSpace(l)
				if l == "" {
					break
				}
				if v, ok := strings.CutPrefix(l, "Content-Length:"); ok {
					n, _ = strconv.Atoi(strings.TrimSpace(v))
				}
			}
			if n < 0 {
				return
			}
			buf := make([]byte, n)
			if _, err := io.ReadFull(r, buf); err != nil {
				return
			}
			var m map[string]any
			if json.Unmarshal(buf, &m) != nil {
				m = map[string]any{"garbled": string(buf)}
			}
			s.msgs <- m
		}
	}()
	return s
}

func (s *lspSession) send(m map[string]any) {
	m["jsonrpc"] = "2.0"
	b, _ := json.Marshal(m)
	fmt.Fprintf(s.stdin, "Content-Length: %d\r\n\r\n%s", len(b), b)
}

func (s *lspSession) stop() {
	s.stdin.Close()
	done := make(chan struct{})
	go func() { s.cmd.Wait(); close(done) }()
	select {
	case <-done:
	case <-time.After(2 * time.Second):
		s.cmd.Process.Kill()
		<-done
	}
}

// wait reads messages until pred is satisfied; false on timeout / server death.
func (s *lspSession) wait(got *[]map[string]any, pred func(map[string]any) bool, d time.Duration) bool {
	t := time.After(d)
	for {
		select {
		case m, ok := <-s.msgs:
			if !ok {
				return false
			}
			*got = append(*got, m)
			if pred(m) {
				return true
			}
		case <-t:
			return false
		}
	}
}

// ---------------------------------------------------------------- histories

type c23Op struct {
	kind    string // open change close def
	doc     int
	version int
	content int // index into contents
	id      int // request id (def)
	line    int
	char    int
}

var c23URIs = []string{"file:///w/a.tm", "file:///w/dir/b.tm", "file:///w/c%20d.tm"}

func c23Filename(doc int) string {
	return []string{"/w/a.tm", "/w/dir/b.tm", "/w/c d.tm"}[doc]
}

var c23Quoted = []string{"'é'", "'ü😀'", "'日本'", "'+'", "'𝔘'", "'a'", "'ßß'", "'€'"}
var c23Comments = []string{"/* é */", "/* 😀😀 */", "/* ascii */", "/* 日本語 */", ""}

// c23Text builds a small grammar with identifiers that follow non-ASCII text on the same line, and some
// defects (undefined symbols, duplicate declarations, sometimes a syntax error).
func c23Text(rng *rand.Rand) string {
	var sb strings.Builder
	nts := []string{"input", "a", "b", "c", "dd", "e1"}[:2+rng.Intn(5)]
	terms := []string{"id", "num"}
	sb.WriteString("language l(go);\n")
	if rng.Intn(3) == 0 {
		sb.WriteString("# комментарий 😀\n")
	}
	sb.WriteString(":: lexer\n")
	if rng.Intn(3) == 0 {
		sb.WriteString("%s initial, other;\n")
	}
	sb.WriteString("id: /[a-z]+/\nnum: /[0-9]+/\n")
	var quoted []string
	for _, q := range c23Quoted {
		if rng.Intn(3) == 0 {
			quoted = append(quoted, q)
			body := strings.Trim(q, "'")
			if body == "+" {
				body = "\\+"
			}
			fmt.Fprintf(&sb, "%s: /%s/\n", q, body)
		}
	}
	if rng.Intn(4) == 0 {
		sb.WriteString("<other> " + c23Comments[rng.Intn(len(c23Comments))] + " oth: /x/\n")
	}
	sb.WriteString(":: parser\n")
	if rng.Intn(3) == 0 {
		sb.WriteString("%flag " + c23Comments[rng.Intn(len(c23Comments))] + " F;\n")
	}
	sym := func() string {
		switch rng.Intn(10) {
		case 0:
			return "undefined" + strconv.Itoa(rng.Intn(3))
		case 1, 2:
			if len(quoted) > 0 {
				return quoted[rng.Intn(len(quoted))]
			}
			return terms[rng.Intn(len(terms))]
		case 3:
			return c23Quoted[rng.Intn(len(c23Quoted))] // possibly undeclared
		case 4, 5:
			return terms[rng.Intn(len(terms))]
		}
		return nts[rng.Intn(len(nts))]
	}
	for i, nt := range nts {
		if rng.Intn(5) == 0 {
			sb.WriteString(c23Comments[rng.Intn(len(c23Comments))] + " ")
		}
		sb.WriteString(nt + " " + c23Comments[rng.Intn(len(c23Comments))] + " :")
		k := 1 + rng.Intn(4)
		for j := 0; j < k; j++ {
			sb.WriteString(" " + sym())
			if rng.Intn(4) == 0 {
				sb.WriteString(" " + c23Comments[rng.Intn(len(c23Comments))])
			}
			if rng.Intn(6) == 0 {
				sb.WriteString("\n   ")
			}
			if rng.Intn(5) == 0 {
				sb.WriteString(" |")
			}
		}
		sb.WriteString(" ;")
		if rng.Intn(3) != 0 {
			sb.WriteString("\n")
		}
		if i == 0 && rng.Intn(8) == 0 {
			sb.WriteString(nt + " : id ;\n") // redeclaration
		}
	}
	t := sb.String()
	switch rng.Intn(12) {
	case 0: // syntax error somewhere
		p := rng.Intn(len(t) + 1)
		for p < len(t) && !utf8.RuneStart(t[p]) {
			p++
		}
		t = t[:p] + " ) " + t[p:]
	case 1:
		t = strings.ReplaceAll(t, "\n", "\r\n")
	case 2:
		t = ""
	case 3:
		t = "'é' 😀 ("
	}
	return t
}

type c23Oracle struct {
	text  string
	diags string
	ids   []ls.VerifID
}

func c23MakeOracle(filename, text string) c23Oracle {
	o := c23Oracle{text: text}
	_, err := compiler.Compile(context.Background(), filename, text, compiler.Params{CheckOnly: true, Verbose: true})
	var ds []string
	for _, e := range status.FromError(err) {
		fc := 2
		switch e.Origin.Filename {
		case filename:
			fc = 1
		case "":
			fc = 0
		}
		ds = append(ds, sx.List(sx.Int(fc), sx.Int(e.Origin.Offset), sx.Int(e.Origin.EndOffset), sx.Int(e.Origin.Line), sx.Int(e.Origin.Column), sx.Str(e.Msg)))
	}
	o.diags = sx.List(ds...)
	o.ids = ls.VerifCollectIDs(context.Background(), filename, text)
	return o
}

func (o c23Oracle) idsStr() string {
	var parts []string
	for _, id := range o.ids {
		parts = append(parts, sx.List(sx.Int(id.Offset), sx.Int(id.Endoffset), sx.Int(id.Kind), sx.Bool(id.Decl)))
	}
	return sx.List(parts...)
}

// utf16Position converts a byte offset into (line, UTF-16 column): the harness's own arithmetic, used only
// to aim definition requests.
func utf16Position(text string, off int) (int, int) {
	line := strings.Count(text[:off], "\n")
	start := strings.LastIndexByte(text[:off], '\n') + 1
	return line, len(utf16.Encode([]rune(text[start:off])))
}

func c23GenHistory(rng *rand.Rand) ([]c23Op, []c23Oracle) {
	var ops []c23Op
	var contents []c23Oracle
	ndocs := 1 + rng.Intn(3)
	type dstate struct {
		open    bool
		content int
		version int
	}
	docs := make([]dstate, ndocs)
	n := 2 + rng.Intn(9)
	nextID := 1
	for len(ops) < n {
		d := rng.Intn(ndocs)
		k := rng.Intn(10)
		switch {
		case k < 2 || !docs[d].open && k < 7:
			v := c23NextVersion(docs[d].version)
			if rng.Intn(8) == 0 {
				v = []int{0, -1, 2147483647, -2147483648, 7}[rng.Intn(5)]
			}
			kind := "open"
			if docs[d].open && rng.Intn(3) != 0 {
				kind = "change"
			}
			if !docs[d].open && rng.Intn(10) == 0 {
				kind = "change" // change without open: the server accepts it
			}
			contents = append(contents, c23MakeOracle(c23Filename(d), c23Text(rng)))
			docs[d] = dstate{true, len(contents) - 1, v}
			ops = append(ops, c23Op{kind: kind, doc: d, version: v, content: len(contents) - 1})
		case k < 4:
			contents2 := docs[d]
			_ = contents2
			kind := "change"
			v := c23NextVersion(docs[d].version)
			contents = append(contents, c23MakeOracle(c23Filename(d), c23Text(rng)))
			docs[d] = dstate{true, len(contents) - 1, v}
			ops = append(ops, c23Op{kind: kind, doc: d, version: v, content: len(contents) - 1})
		case k == 4:
			docs[d].open = false
			ops = append(ops, c23Op{kind: "close", doc: d})
		default:
			op := c23Op{kind: "def", doc: d, id: nextID}
			nextID++
			if docs[d].open && len(contents[docs[d].content].ids) > 0 && rng.Intn(6) != 0 {
				o := contents[docs[d].content]
				id := o.ids[rng.Intn(len(o.ids))]
				off := id.Offset + rng.Intn(id.Endoffset-id.Offset+1)
				op.line, op.char = utf16Position(o.text, off)
				if rng.Intn(10) == 0 {
					op.char += 1 + rng.Intn(3)
				}
			} else {
				op.line, op.char = rng.Intn(12), rng.Intn(30)
			}
			ops = append(ops, op)
		}
	}
	return ops, contents
}

// versions are LSP integers (int32)
func c23NextVersion(v int) int {
	if v >= 2147483647 {
		return 1
	}
	return v + 1
}

func posOf(m any) (int, int) {
	p, _ := m.(map[string]any)
	l, _ := p["line"].(float64)
	c, _ := p["character"].(float64)
	return int(l), int(c)
}

func uriIndex(u string) int {
	for i, x := range c23URIs {
		if x == u {
			return i
		}
	}
	return -1
}

func c23Render(got []map[string]any) string {
	var notes, resps []string
	type resp struct {
		id int
		s  string
	}
	var rs []resp
	for _, m := range got {
		if method, ok := m["method"].(string); ok {
			if method == "textDocument/publishDiagnostics" {
				p, _ := m["params"].(map[string]any)
				u, _ := p["uri"].(string)
				v, _ := p["version"].(float64)
				var ds []string
				list, _ := p["diagnostics"].([]any)
				for _, d := range list {
					dm, _ := d.(map[string]any)
					r, _ := dm["range"].(map[string]any)
					sl, sc := posOf(r["start"])
					el, ec := posOf(r["end"])
					msg, _ := dm["message"].(string)
					ds = append(ds, sx.List(sx.Int(sl), sx.Int(sc), sx.Int(el), sx.Int(ec), sx.Str(msg)))
				}
				notes = append(notes, sx.List("diag", sx.Int(uriIndex(u)), strconv.FormatInt(int64(v), 10), sx.List(ds...)))
			} else {
				notes = append(notes, sx.List("other", method))
			}
			continue
		}
		idf, _ := m["id"].(float64)
		id := int(idf)
		if id >= 1000000 {
			continue // the harness's own initialize / shutdown
		}
		if _, bad := m["error"]; bad {
			rs = append(rs, resp{id, sx.List(sx.Int(id), "err")})
			continue
		}
		var locs []string
		list, _ := m["result"].([]any)
		for _, l := range list {
			lm, _ := l.(map[string]any)
			u, _ := lm["uri"].(string)
			r, _ := lm["range"].(map[string]any)
			sl, sc := posOf(r["start"])
			el, ec := posOf(r["end"])
			locs = append(locs, sx.List(sx.Int(uriIndex(u)), sx.Int(sl), sx.Int(sc), sx.Int(el), sx.Int(ec)))
		}
		rs = append(rs, resp{id, sx.List(sx.Int(id), sx.List(locs...))})
	}
	sort.SliceStable(rs, func(i, j int) bool { return rs[i].id < rs[j].id })
	for _, r := range rs {
		resps = append(resps, r.s)
	}
	return sx.List(sx.List(notes...), sx.List(resps...))
}

func c23Play(bin string, ops []c23Op, contents []c23Oracle, lockstep bool) string {
	s := lspStart(bin)
	defer s.stop()
	var got []map[string]any
	s.send(map[string]any{"id": 1000000, "method": "initialize", "params": map[string]any{
		"processId": nil, "rootUri": "file:///w", "capabilities": map[string]any{},
		"workspaceFolders": []any{map[string]any{"uri": "file:///w", "name": "w"}}}})
	isResp := func(id int) func(map[string]any) bool {
		return func(m map[string]any) bool {
			_, isCall := m["method"]
			f, ok := m["id"].(float64)
			return !isCall && ok && int(f) == id
		}
	}
	var boot []map[string]any
	if !s.wait(&boot, isResp(1000000), 20*time.Second) {
		return sx.List("crash", sx.Str("no answer to initialize"))
	}
	for _, op := range ops {
		uri := c23URIs[op.doc]
		switch op.kind {
		case "open":
			s.send(map[string]any{"method": "textDocument/didOpen", "params": map[string]any{"textDocument": map[string]any{
				"uri": uri, "languageId": "tm", "version": op.version, "text": contents[op.content].text}}})
		case "change":
			s.send(map[string]any{"method": "textDocument/didChange", "params": map[string]any{
				"textDocument":   map[string]any{"uri": uri, "version": op.version},
				"contentChanges": []any{map[string]any{"text": contents[op.content].text}}}})
		case "close":
			s.send(map[string]any{"method": "textDocument/didClose", "params": map[string]any{"textDocument": map[string]any{"uri": uri}}})
		case "def":
			s.send(map[string]any{"id": op.id, "method": "textDocument/definition", "params": map[string]any{
				"textDocument": map[string]any{"uri": uri}, "position": map[string]any{"line": op.line, "character": op.char}}})
		}
		if lockstep {
			ok := true
			switch op.kind {
			case "open", "change":
				ok = s.wait(&got, func(m map[string]any) bool { return m["method"] == "textDocument/publishDiagnostics" }, 20*time.Second)
			case "def":
				ok = s.wait(&got, isResp(op.id), 20*time.Second)
			}
			if !ok {
				return sx.List("crash", sx.Str("server died or hung after "+op.kind))
			}
		}
	}
	// Synchronisation: an unknown request at the end. Notifications are written inside the handler bodies,
	// i.e. before the chain is unlocked, so they all precede its response; RESPONSES are written after the
	// unlock (AsyncHandler closes the channel before calling the inner reply) and may arrive later.
	s.send(map[string]any{"id": 1000001, "method": "shutdown"})
	pending := map[int]bool{1000001: true}
	for _, op := range ops {
		if op.kind == "def" {
			pending[op.id] = true
		}
	}
	for _, m := range got {
		if _, isCall := m["method"]; !isCall {
			if f, ok := m["id"].(float64); ok {
				delete(pending, int(f))
			}
		}
	}
	done := func(m map[string]any) bool {
		if _, isCall := m["method"]; !isCall {
			if f, ok := m["id"].(float64); ok {
				delete(pending, int(f))
			}
		}
		return len(pending) == 0
	}
	if len(pending) > 0 && !s.wait(&got, done, 30*time.Second) {
		return sx.List("crash", sx.Str("server died, hung or lost a response"))
	}
	return c23Render(got)
}

func c23History(rng *rand.Rand, n int, _ []string) {
	bin, cleanup := c23BuildServer()
	defer cleanup()
	stats := map[string]int{}
	for i := 0; i < n; i++ {
		ops, contents := c23GenHistory(rng)
		lockstep := rng.Intn(2) == 0
		var opsS, contS []string
		for _, op := range ops {
			stats["op_"+op.kind]++
			switch op.kind {
			case "open", "change":
				opsS = append(opsS, sx.List(op.kind, sx.Int(op.doc), sx.Int(op.version), sx.Int(op.content)))
			case "close":
				opsS = append(opsS, sx.List("close", sx.Int(op.doc)))
			default:
				opsS = append(opsS, sx.List("def", sx.Int(op.id), sx.Int(op.doc), sx.Int(op.line), sx.Int(op.char)))
			}
		}
		for _, c := range contents {
			contS = append(contS, sx.List(sx.Str(c.text), c.diags, c.idsStr()))
			if !utf8.ValidString(c.text) {
				stats["invalid_utf8_texts"]++
			}
			for _, r := range c.text {
				if r > 0xffff {
					stats["astral_texts"]++
					break
				}
			}
			if c.diags != "()" {
				stats["texts_with_diagnostics"]++
			}
		}
		out := c23Play(bin, ops, contents, lockstep)
		if strings.HasPrefix(out, "(crash") {
			stats["crashes"]++
		}
		sx.Case("c23.history", sx.List(sx.Bool(lockstep), sx.List(opsS...), sx.List(contS...)), out)
	}
	for k, v := range stats {
		sx.Stat(k, v)
	}
}

// c23.position: ls.resolvePosition (incoming positions) on random texts and positions, including invalid
// UTF-8, astral characters, positions between surrogates, beyond the line and beyond the text.
func c23Position(rng *rand.Rand, n int, _ []string) {
	atoms := []string{"a", "b", "\n", "é", "😀", "日", "\xff", "\xe2\x82", " ", "\r\n", "𝔘", "\n\n", "\xf0\x9f"}
	for i := 0; i < n; i++ {
		var sb strings.Builder
		k := rng.Intn(12)
		for j := 0; j < k; j++ {
			sb.WriteString(atoms[rng.Intn(len(atoms))])
		}
		t := sb.String()
		line, char := rng.Intn(5), rng.Intn(8)
		if len(t) > 0 && rng.Intn(2) == 0 {
			off := rng.Intn(len(t) + 1)
			line = strings.Count(t[:off], "\n")
			start := strings.LastIndexByte(t[:off], '\n') + 1
			char = 0
			for _, r := range t[start:off] {
				char++
				if r > 0xffff {
					char++
				}
			}
		}
		off, err := ls.VerifResolvePosition(t, uint32(line), uint32(char))
		out := "err"
		if err == nil {
			out = sx.Int(off)
		}
		sx.Case("c23.resolve", sx.List(sx.Str(t), sx.Int(line), sx.Int(char)), out)
	}
}
