package main

import (
	"context"
	"fmt"
	"math/rand"
	"sort"
	"strings"

	"github.com/inspirer/textmapper/compiler"
	"github.com/inspirer/textmapper/status"
	"github.com/inspirer/textmapper/syntax"
	"verif/harness/sx"
)

func init() {
	commands["c15.sets"] = c15Sets
	commands["c15.tm"] = c15Tm
}

type gen15 struct {
	rng     *rand.Rand
	T, N    int
	nsets   int
	complID int
	stats   map[string]int
	lo      int // smallest terminal that rules and sets mention
}

func (g *gen15) sym() int {
	if g.rng.Intn(100) < 55 {
		return g.lo + g.rng.Intn(g.T-g.lo)
	}
	return g.T + g.rng.Intn(g.N)
}

func (g *gen15) alt() *xe {
	if g.rng.Intn(100) < 22 {
		return xk(syntax.Empty)
	}
	n := 1 + g.rng.Intn(4)
	var parts []*xe
	for i := 0; i < n; i++ {
		parts = append(parts, xref(g.sym()))
	}
	var e *xe
	if n == 1 {
		e = parts[0]
	} else {
		e = xk(syntax.Sequence, parts...)
	}
	return e
}

func (g *gen15) set(depth int, allowNamed bool) *xset {
	r := g.rng.Intn(100)
	if depth <= 0 || r < 35 {
		op := g.rng.Intn(5)
		g.stats[[]string{"op-any", "op-first", "op-last", "op-precede", "op-follow"}[op]]++
		return &xset{kind: op, sym: g.sym()}
	}
	switch {
	case r < 55:
		n := 2 + g.rng.Intn(2)
		s := &xset{kind: 5}
		for i := 0; i < n; i++ {
			s.sub = append(s.sub, g.set(depth-1, allowNamed))
		}
		return s
	case r < 70:
		g.stats["intersection"]++
		return &xset{kind: 6, sub: []*xset{g.set(depth-1, allowNamed), g.set(depth-1, allowNamed)}}
	case r < 85:
		g.stats["complement"]++
		g.complID++
		return &xset{kind: 7, id: g.complID, sub: []*xset{g.set(depth-1, allowNamed)}}
	default:
		if !allowNamed {
			return &xset{kind: 0, sym: g.sym()}
		}
		g.stats["named-reference"]++
		return &xset{kind: 8, named: g.rng.Intn(g.nsets)}
	}
}

func genModel15(rng *rand.Rand, stats map[string]int, tm bool) *xmodel {
	g := &gen15{rng: rng, stats: stats}
	g.T = 3 + rng.Intn(4)
	g.N = 2 + rng.Intn(5)
	g.nsets = 1 + rng.Intn(4)
	m := &xmodel{}
	if tm {
		g.lo = 2
		k := 2 + rng.Intn(3)
		g.T = k + 2
		m.terms = append([]string{"eoi", "invalid_token"}, []string{"a", "b", "c", "d"}[:k]...)
	} else {
		for i := 0; i < g.T; i++ {
			m.terms = append(m.terms, fmt.Sprintf("t%d", i))
		}
	}
	emptyProb := []int{5, 22, 45}[rng.Intn(3)]
	for i := 0; i < g.N; i++ {
		nt := xnonterm{name: fmt.Sprintf("N%d", i)}
		r := rng.Intn(100)
		switch {
		case r < 10:
			stats["set-nonterminal"]++
			nt.value = &xe{kind: syntax.Set, set: rng.Intn(g.nsets)}
		case r < 14 && !tm:
			nt.value = xk(syntax.Lookahead, xref(g.T+rng.Intn(g.N)))
		default:
			n := 1 + rng.Intn(3)
			var alts []*xe
			for k := 0; k < n; k++ {
				a := g.alt()
				if a.kind != syntax.Empty && rng.Intn(100) < emptyProb {
					a = xk(syntax.Empty)
				}
				if !tm && rng.Intn(10) == 0 {
					a = &xe{kind: syntax.Arrow, name: "A", sub: []*xe{a}}
				}
				alts = append(alts, a)
			}
			nt.value = xk(syntax.Choice, alts...)
		}
		m.nonterms = append(m.nonterms, nt)
	}
	for i := 0; i < g.nsets; i++ {
		if !tm && i > 0 && rng.Intn(15) == 0 {
			k := rng.Intn(i)
			for m.sets[k].kind == 8 {
				k = m.sets[k].named
			}
			m.sets = append(m.sets, &xset{kind: 8, named: k}) // alias of an earlier set
			continue
		}
		s := g.set(1+rng.Intn(3), true)
		if s.kind == 8 {
			s = &xset{kind: 5, sub: []*xset{s, g.set(1, true)}}
		}
		m.sets = append(m.sets, s)
	}
	m.inputs = []xinput{{nt: rng.Intn(g.N), noeoi: !tm && rng.Intn(6) == 0}}
	if rng.Intn(3) == 0 && !tm {
		m.inputs = append(m.inputs, xinput{nt: rng.Intn(g.N), noeoi: rng.Intn(4) == 0})
	}
	return m
}

func setsErrStr(err error) string {
	var ids []int
	seen := map[int]bool{}
	for _, e := range status.FromError(err) {
		if !strings.Contains(e.Msg, "set complement cannot transitively depend on itself") {
			return sx.List("other-error", sx.Str(e.Msg))
		}
		id := e.Origin.Line - 1
		if !seen[id] {
			seen[id] = true
			ids = append(ids, id)
		}
	}
	sort.Ints(ids)
	return sx.List("err", sx.Ints(ids))
}

func c15Sets(rng *rand.Rand, n int, _ []string) {
	stats := map[string]int{}
	for i := 0; i < n; i++ {
		xm := genModel15(rng, stats, false)
		m := xm.toSyntax()
		err := syntax.ResolveSets(m)
		if err != nil {
			stats["rejected"]++
			sx.Case("c15.sets", xm.str(), setsErrStr(err))
			continue
		}
		parts := make([]string, len(m.Sets))
		for k, s := range m.Sets {
			var ts []int
			for _, t := range s.Sub {
				ts = append(ts, t.Symbol)
			}
			if len(ts) > 0 {
				stats["non-empty-result"]++
			}
			parts[k] = sx.Ints(ts)
		}
		sx.Case("c15.sets", xm.str(), sx.List("ok", sx.List(parts...), implNontermsStr(m)))
	}
	for k, v := range stats {
		sx.Stat(k, v)
	}
}

// ---- end to end through compiler.Compile: %generate sets, set(...) in rules, afterErr ----

func tmSet15(s *xset, names []string, setNames []string) string {
	switch s.kind {
	case 0:
		return names[s.sym]
	case 1:
		return "first " + names[s.sym]
	case 2:
		return "last " + names[s.sym]
	case 3:
		return "precede " + names[s.sym]
	case 4:
		return "follow " + names[s.sym]
	case 7:
		return "~(" + tmSet15(s.sub[0], names, setNames) + ")"
	case 8:
		return setNames[s.named]
	}
	op := " | "
	if s.kind == 6 {
		op = " & "
	}
	parts := make([]string, len(s.sub))
	for i, t := range s.sub {
		parts[i] = tmSet15(t, names, setNames)
	}
	return "(" + strings.Join(parts, op) + ")"
}

func c15Tm(rng *rand.Rand, n int, _ []string) {
	stats := map[string]int{}
	for i := 0; i < n; i++ {
		xm := genModel15(rng, stats, true)
		withError := rng.Intn(3) == 0
		names := append([]string{}, xm.terms...)
		if withError {
			// `error` becomes the last terminal
			xm.terms = append(xm.terms, "error")
			names = append(names, "error")
			for k := range xm.nonterms {
				shiftSyms(xm.nonterms[k].value, len(xm.terms)-1)
			}
			for _, s := range xm.sets {
				shiftSetSyms(s, len(xm.terms)-1)
			}
		}
		T := len(xm.terms)
		for _, nt := range xm.nonterms {
			names = append(names, nt.name)
		}
		setNames := make([]string, len(xm.sets))
		for k := range xm.sets {
			setNames[k] = fmt.Sprintf("s%d", k)
		}
		if withError {
			// one rule mentions error so that `follow error` is not trivially empty
			k := rng.Intn(len(xm.nonterms))
			if xm.nonterms[k].value.kind == syntax.Choice {
				alt := xk(syntax.Sequence, xref(T-1), xref(2+rng.Intn(T-3)))
				if rng.Intn(2) == 0 {
					alt = xk(syntax.Sequence, xref(2+rng.Intn(T-3)), xref(T-1), xref(T+rng.Intn(len(xm.nonterms))))
				}
				xm.nonterms[k].value.sub = append(xm.nonterms[k].value.sub, alt)
			}
		}
		var sb strings.Builder
		sb.WriteString("language g15(go);\n\nlang = \"g15\"\npackage = \"verifgen/g15\"\n\n:: lexer\n\n")
		for t := 2; t < T; t++ {
			if xm.terms[t] == "error" {
				sb.WriteString("error:\n")
				continue
			}
			fmt.Fprintf(&sb, "%s: /%s/\n", xm.terms[t], xm.terms[t])
		}
		sb.WriteString("invalid_token:\n\n:: parser\n\n%input " + xm.nonterms[xm.inputs[0].nt].name + ";\n\n")
		for k, s := range xm.sets {
			fmt.Fprintf(&sb, "%%generate %s = set(%s);\n", setNames[k], tmSet15(s, names, setNames))
		}
		sb.WriteString("\n")
		for _, nt := range xm.nonterms {
			sb.WriteString(nt.name + " :\n")
			if nt.value.kind == syntax.Set {
				sb.WriteString("    set(" + setNames[nt.value.set] + ")\n;\n\n")
				continue
			}
			for k, r := range nt.value.sub {
				if k > 0 {
					sb.WriteString("  | ")
				} else {
					sb.WriteString("    ")
				}
				sb.WriteString(tmExpr(r, xm, names, true) + "\n")
			}
			sb.WriteString(";\n\n")
		}
		text := sb.String()
		gr, err := compiler.Compile(context.Background(), "g15.tm", text, compiler.Params{CheckOnly: true})
		in := sx.List(xm.str(), sx.Bool(withError))
		if gr == nil {
			stats["tm-syntax-error"]++
			sx.Case("c15.tm", in, sx.List("other-error", sx.Str(err.Error())))
			continue
		}
		if err != nil {
			// only the set-complement diagnostics are in scope; conflicts etc. still leave the sets computed
			onlyCompl := true
			anyCompl := false
			for _, e := range status.FromError(err) {
				if strings.Contains(e.Msg, "set complement cannot transitively depend on itself") {
					anyCompl = true
				} else {
					onlyCompl = false
				}
			}
			_ = onlyCompl
			if anyCompl {
				stats["rejected"]++
				sx.Case("c15.tm", in, sx.List("err"))
				continue
			}
		}
		if len(gr.Sets) == 0 || gr.Parser == nil || len(gr.Parser.Rules) == 0 {
			stats["tm-no-sets-or-rules"]++
			msg := ""
			if err != nil {
				msg = err.Error()
			}
			sx.Case("c15.tm", in, sx.List("other-error", sx.Str(firstLines(msg, 2))))
			continue
		}
		stats["tm-compiled"]++
		parts := make([]string, len(gr.Sets))
		for k, s := range gr.Sets {
			ts := append([]int{}, s.Terminals...)
			parts[k] = sx.List(sx.Str(s.Name), sx.Ints(ts))
		}
		syms := make([]string, gr.Parser.NumTerminals)
		for k := range syms {
			syms[k] = sx.Str(gr.Syms[k].Name)
		}
		sx.Case("c15.tm", in, sx.List("ok", sx.List(syms...), sx.List(parts...), sx.Bool(gr.Parser.IsRecovering)))
	}
	for k, v := range stats {
		sx.Stat(k, v)
	}
}

func shiftSyms(e *xe, t int) {
	if e.kind == syntax.Reference && e.sym >= t {
		e.sym++
	}
	for _, s := range e.sub {
		shiftSyms(s, t)
	}
}

func shiftSetSyms(s *xset, t int) {
	if s.kind < 5 && s.sym >= t {
		s.sym++
	}
	for _, x := range s.sub {
		shiftSetSyms(x, t)
	}
}
