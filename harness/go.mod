module verif/harness

go 1.25

require github.com/inspirer/textmapper v0.0.0

require (
	github.com/segmentio/asm v1.2.0 // indirect
	github.com/segmentio/encoding v0.4.0 // indirect
	go.lsp.dev/jsonrpc2 v0.10.0 // indirect
	go.lsp.dev/pkg v0.0.0-20210717090340-384b27a52fb2 // indirect
	go.lsp.dev/protocol v0.12.0 // indirect
	go.lsp.dev/uri v0.3.0 // indirect
	go.uber.org/multierr v1.11.0 // indirect
	go.uber.org/zap v1.27.0 // indirect
	golang.org/x/sys v0.24.0 // indirect
)

replace github.com/inspirer/textmapper => /repo
