module verif/harness

go 1.25

require github.com/inspirer/textmapper v0.0.0

replace github.com/inspirer/textmapper => /repo
